import importlib, sys, time, json, multiprocessing as mp
sys.path.insert(0, '/verif')
from vt.pyvc.contract import Registry
from vt.pyvc import verify
import glob, os
MODS = sorted(os.path.basename(p)[:-3] for p in glob.glob("/verif/vt/contracts/*.py") if not p.endswith("__init__.py") and not p.endswith("syntactic.py"))
def job(args):
    m, idx = args
    reg = Registry(); cs = []
    for mm in MODS:
        mod = importlib.import_module("vt.contracts." + mm)
        for c in mod.CONTRACTS:
            reg.add(c)
            if mm == m: cs.append(c)
    c = cs[idx]
    verify.RL_STATS.clear()
    t = time.time()
    r = verify.verify_function(c, reg)
    bad = [o["label"][:80] for o in r.obligations if o["status"] != "discharged"]
    return (c.target + "/" + str(getattr(c, "variant", "")), len(r.obligations), bad, list(verify.RL_STATS), time.time() - t, r.status)
if __name__ == "__main__":
    jobs = []
    for m in MODS:
        mod = importlib.import_module("vt.contracts." + m)
        jobs += [(m, i) for i in range(len(mod.CONTRACTS))]
    with mp.Pool(8, maxtasksperchild=1) as p:
        out = p.map(job, jobs, chunksize=1)
    allst = []
    for name, n, bad, st, wall, status in out:
        mx = max(st, key=lambda x: x[0]) if st else (0, 0, "")
        print(f"{name:90s} n={n:4d} bad={len(bad)} status={status} wall={wall:6.1f} maxrl={mx[0]:>10} cpu={mx[1]:.2f} {mx[2]}")
        for b in bad: print("     BAD", b)
        allst += st
    allst.sort()
    print("calls", len(allst), "top:", [x for x in allst if x[1] > 0.5 and not (1.45 < x[1] < 1.62 and x[2] != "unsat")])
    tot_rl = sum(a for a, b, c in allst); tot_cpu = sum(b for a, b, c in allst)
    print("rl per cpu-second overall", tot_rl / max(tot_cpu, 1e-9))
    json.dump(allst, open("/tmp/rlstats.json", "w"))
    for name, n, bad, st, wall, status in out:
        slow = [x for x in st if x[1] > 1.0 and not (1.45 < x[1] < 1.62 and x[2] != "unsat")]
        if slow: print(name, slow)
