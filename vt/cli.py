"""bin/check entry point: python -m vt.cli Cxx --tier quick|thorough [--replay f]"""
import argparse
import importlib
import os
import sys

from .common import main_wrapper


def main():
    ap = argparse.ArgumentParser()
    ap.add_argument("pid")
    ap.add_argument("--tier", default=os.environ.get("VERIF_TIER", "quick"), choices=["quick", "thorough"])
    ap.add_argument("--replay", default=None)
    a = ap.parse_args()
    mod = importlib.import_module(f"vt.props.{a.pid.lower()}")
    if a.replay:
        main_wrapper(lambda: mod.replay(a.replay))
    else:
        main_wrapper(lambda: mod.run(a.tier))


if __name__ == "__main__":
    main()
