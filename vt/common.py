"""Shared plumbing: verdict protocol, evidence, known findings, parallel map.

Exit codes (DESIGN.md section 2.6):
  0 held (known findings printed as KNOWN-FINDING lines)
  1 VIOLATION property=<id> replay=<path>
  2 undecided only
  3 checker crash / engine disagreed with CPython
"""

from __future__ import annotations

import hashlib
import json
import multiprocessing as mp
import os
import re
import sys
import time
import traceback

ROOT = os.path.dirname(os.path.dirname(os.path.abspath(__file__)))
REPO = os.environ.get("VERIF_REPO", "/repo")
# mutant / seeded-patch evaluations redirect their output so that the committed evidence only ever comes from /repo itself
EVIDENCE_DIR = os.environ.get("VERIF_EVIDENCE_DIR") or os.path.join(ROOT, "evidence")
REPLAY_DIR = os.environ.get("VERIF_REPLAY_DIR") or os.path.join(ROOT, "replays")
KNOWN_FINDINGS = os.path.join(ROOT, "known_findings.json")

NCPU = int(os.environ.get("VERIF_NCPU", "0")) or min(16, os.cpu_count() or 1)


def seed():
    try:
        return int(os.environ.get("VERIF_SEED", "0"))
    except ValueError:
        return 0


def jsonable(x, depth=0):
    """Best-effort conversion of a case description into JSON."""
    if depth > 8:
        return repr(x)
    if isinstance(x, (str, int, float, bool)) or x is None:
        if isinstance(x, float) and (x != x or x in (float("inf"), -float("inf"))):
            return repr(x)
        return x
    if isinstance(x, dict):
        return {str(k): jsonable(v, depth + 1) for k, v in x.items()}
    if isinstance(x, (list, tuple)):
        return [jsonable(v, depth + 1) for v in x]
    if isinstance(x, (set, frozenset)):
        try:
            return sorted(jsonable(v, depth + 1) for v in x)
        except TypeError:
            return [jsonable(v, depth + 1) for v in x]
    return repr(x)


class KnownFindings:
    """known_findings.json (committed; never written at run time).

    {"findings": [{"id": "F9", "property": "C14", "signature": "<regex>",
                   "what": "..."}],
     "fixed":    ["fixed: property=C01 <commit> <what failed>", ...]}

    A violation is matched by (property, regex on its signature string); the
    signature names the specific input / call site / history, so a different
    violation of the same property is still reported.
    """

    def __init__(self):
        self.findings = []
        self.fixed = []
        if os.path.exists(KNOWN_FINDINGS):
            with open(KNOWN_FINDINGS) as f:
                d = json.load(f)
            self.findings = d.get("findings", [])
            self.fixed = d.get("fixed", [])

    def match(self, pid, signature):
        for f in self.findings:
            if f.get("property") == pid and re.search(f["signature"], signature):
                return f
        return None


class Report:
    """Collects what a check run covered and decides the exit code."""

    def __init__(self, pid, tier, level="other"):
        self.pid = pid
        self.tier = tier
        self.level = level
        self.t0 = time.time()
        self.known = KnownFindings()
        # T1
        self.obligations = []  # dicts: name, fn, status, backend, time_s
        self.functions_under_contract = {}  # qualname -> tier label
        self.canaries_refuted = 0
        self.canaries_total = 0
        self.pre_sat = 0
        self.pre_total = 0
        self.dropped = []  # what extraction dropped
        # bounded
        self.evaluations = 0
        self.nontrivial = set()
        self.samples = []
        self.scopes = []  # dicts name, cases, exhaustive, bound
        self.fire_counts = {}
        # outcome
        self.violations = []  # (signature, replay_path)
        self.known_hit = {}
        self.undecided = []
        self.crashes = []
        self.assumptions = []
        self.trusted_base = []
        self.explanation = ""
        self.rule = ""
        self.extra = {}
        self._nrep = 0

    # ---- T1 ---------------------------------------------------------------
    def add_obligation(self, fn, name, status, backend="z3", time_s=0.0, detail=None):
        self.obligations.append(
            {"fn": fn, "name": name, "status": status, "backend": backend,
             "time_s": round(time_s, 4), **({"detail": detail} if detail else {})}
        )

    # ---- bounded ----------------------------------------------------------
    def count(self, n=1):
        self.evaluations += n

    def nontrivial_case(self, key):
        if not isinstance(key, (str, bytes)):
            key = json.dumps(jsonable(key), sort_keys=True)
        if isinstance(key, str):
            key = key.encode()
        self.nontrivial.add(hashlib.blake2b(key, digest_size=8).digest())

    def sample(self, case, limit=6):
        if len(self.samples) < limit:
            self.samples.append(jsonable(case))

    def scope(self, name, cases, exhaustive, bound=""):
        self.scopes.append({"name": name, "cases": cases, "exhaustive": bool(exhaustive), "bound": bound})

    def fired(self, name, n=1):
        self.fire_counts[name] = self.fire_counts.get(name, 0) + n

    # ---- outcomes ---------------------------------------------------------
    def violation(self, signature, replay, no_input=False):
        """Record a violation; returns True if new (not a known finding)."""
        kf = self.known.match(self.pid, signature)
        if kf is not None:
            k = kf.get("id", kf["signature"])
            self.known_hit.setdefault(k, {"finding": kf, "count": 0, "example": signature})
            self.known_hit[k]["count"] += 1
            return False
        # dedupe identical signatures
        for s, _p, _n in self.violations:
            if s == signature:
                return True
        self._nrep += 1
        os.makedirs(REPLAY_DIR, exist_ok=True)
        path = os.path.join(REPLAY_DIR, f"{self.pid}-{self._nrep:03d}.json")
        body = {"property": self.pid, "signature": signature, "tier": self.tier}
        body.update(jsonable(replay) if isinstance(replay, dict) else {"case": jsonable(replay)})
        with open(path, "w") as f:
            json.dump(body, f, indent=1, sort_keys=True)
        self.violations.append((signature, path, no_input))
        return True

    def undecided_obligation(self, name, why=""):
        for u in self.undecided:
            if u["obligation"] == name:
                u["paths"] = u.get("paths", 1) + 1
                return
        self.undecided.append({"obligation": name, "why": why})

    def crash(self, what):
        self.crashes.append(what)

    # ---- finish -----------------------------------------------------------
    def finish(self):
        wall = time.time() - self.t0
        t1 = [o for o in self.obligations]
        discharged = [o for o in t1 if o["status"] == "discharged"]
        by_backend = {}
        for o in discharged:
            by_backend[o["backend"]] = by_backend.get(o["backend"], 0) + 1
        coverage = {
            "explanation": self.explanation,
            "rule": self.rule,
            "evaluations": self.evaluations,
            "distinct_nontrivial": len(self.nontrivial),
            "samples": self.samples or [{"note": "no bounded cases in this run"}],
            "exhaustive": bool(self.scopes) and all(s["exhaustive"] for s in self.scopes),
            "scopes": self.scopes,
            "obligations": len(t1),
            "discharged": len(discharged),
            "by_backend": by_backend,
            "solver_time_s": round(sum(o["time_s"] for o in t1), 3),
            "obligation_list": t1,
            "functions_under_contract": self.functions_under_contract,
            "canaries_refuted": f"{self.canaries_refuted}/{self.canaries_total}",
            "preconditions_satisfiable": f"{self.pre_sat}/{self.pre_total}",
            "extraction_drops": self.dropped,
            "contract_fire_counts": self.fire_counts,
            "undecided": self.undecided,
            "trusted_base": self.trusted_base,
            "checker_cmd": f"bin/check {self.pid} --tier {self.tier}",
            "known_findings_matched": [
                {"id": k, "count": v["count"], "example": v["example"]} for k, v in self.known_hit.items()
            ],
            "crashes": self.crashes,
        }
        coverage.update(self.extra)
        ev = {
            "property_id": self.pid,
            "tier": self.tier,
            "seed": seed(),
            "level": self.level,
            "coverage": coverage,
            "assumptions": self.assumptions,
            "wall_s": round(wall, 2),
            "violations": len(self.violations),
        }
        os.makedirs(EVIDENCE_DIR, exist_ok=True)
        tmp = os.path.join(EVIDENCE_DIR, f".{self.pid}.json.tmp")
        with open(tmp, "w") as f:
            json.dump(ev, f, indent=1)
        os.replace(tmp, os.path.join(EVIDENCE_DIR, f"{self.pid}.json"))

        for k, v in self.known_hit.items():
            print(f"KNOWN-FINDING: property={self.pid} {k} {v['finding'].get('what', '')} [{v['count']} case(s)]")
        for u in self.undecided:
            print(f"UNDECIDED obligation={u['obligation']} {u['why']}")
        for sig, path, no_input in self.violations:
            tail = " no-failing-input-found" if no_input else ""
            print(f"  violated: {sig}")
            print(f"VIOLATION property={self.pid} replay={path}{tail}")
        n_o, n_d = len(t1), len(discharged)
        print(
            f"[{self.pid} {self.tier}] T1 obligations {n_d}/{n_o} discharged; bounded evaluations {self.evaluations} "
            f"({len(self.nontrivial)} distinct non-trivial); violations {len(self.violations)}; "
            f"known findings {len(self.known_hit)}; undecided {len(self.undecided)}; wall {wall:.1f}s"
        )
        if self.crashes:
            for c in self.crashes:
                print("CHECKER-CRASH:", c)
        if self.violations:
            return 1
        if self.crashes:
            return 3
        if self.undecided:
            return 2
        return 0


# ---------------------------------------------------------------------------
# parallel map (fork; results streamed)
# ---------------------------------------------------------------------------

_WORK_FN = None


def _run_chunk(chunk):
    out = []
    for item in chunk:
        try:
            out.append(("ok", _WORK_FN(item)))
        except BaseException as e:  # noqa: BLE001  (a crash in a worker is a checker crash)
            out.append(("crash", f"{type(e).__name__}: {e}\n{traceback.format_exc(limit=6)}"))
    return out


def _fresh_child(conn, chunk):
    try:
        conn.send(_run_chunk(chunk))
    finally:
        conn.close()


def _pmap_fresh(ctx, chunks, ncpu):
    """One forked process per chunk.  A process that ends without delivering (the solver aborts the
    process when its memory cap is reached) yields ('died', (item, exitcode)) for each of its items
    instead of hanging the pool."""
    from multiprocessing.connection import wait

    todo = list(reversed(chunks))
    running = {}  # connection -> (process, chunk)
    while todo or running:
        while todo and len(running) < ncpu:
            ch = todo.pop()
            rd, wr = ctx.Pipe(duplex=False)
            pr = ctx.Process(target=_fresh_child, args=(wr, ch), daemon=True)
            pr.start()
            wr.close()
            running[rd] = (pr, ch)
        for rd in wait(list(running)):
            pr, ch = running.pop(rd)
            try:
                res = rd.recv()
            except (EOFError, OSError):
                res = None
            rd.close()
            pr.join()
            if res is None:
                for item in ch:
                    yield ("died", (item, pr.exitcode))
            else:
                for r in res:
                    yield r


def pmap(fn, items, chunk=None, ncpu=None, fresh=False):
    """Map ``fn`` over ``items`` in forked workers; yields ('ok', r) / ('crash', msg).
    ``fresh``: one new worker process per chunk (solver state never carries over
    from one proof task to the next, so verdicts do not depend on scheduling)."""
    global _WORK_FN
    items = list(items)
    ncpu = ncpu or NCPU
    if not items:
        return
    if (ncpu <= 1 or len(items) < 2) and not fresh:
        _WORK_FN = fn
        for r in _run_chunk(items):
            yield r
        return
    if chunk is None:
        chunk = max(1, min(256, len(items) // (ncpu * 8) or 1))
    chunks = [items[i : i + chunk] for i in range(0, len(items), chunk)]
    _WORK_FN = fn
    ctx = mp.get_context("fork")
    if fresh:
        yield from _pmap_fresh(ctx, chunks, max(1, ncpu))
        return
    with ctx.Pool(max(1, ncpu)) as pool:
        for res in pool.imap_unordered(_run_chunk, chunks):
            for r in res:
                yield r


def deadline(tier, quick_s, thorough_s):
    return time.time() + (quick_s if tier == "quick" else thorough_s)


def main_wrapper(run):
    """Run a property driver, mapping stray exceptions to exit 3."""
    try:
        rc = run()
    except SystemExit:
        raise
    except BaseException:  # noqa: BLE001
        traceback.print_exc()
        print("CHECKER-CRASH: driver raised")
        sys.exit(3)
    sys.exit(rc)
