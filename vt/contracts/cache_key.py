"""C13: the in-memory cache key of the high-level interface is the contraction
itself.  interface.hash_contraction returns a tuple whose components ARE the
terms, the output, the (label, size) pairs in the dict's own order, the
prepared optimize argument and the keyword options - so two calls share a key
only if they agree on all of them (the key is injective by construction, not
through hash()).

Assumed: hash_prepare_optimize is injective on optimize values (identity, or
list->tuple conversion of an explicit path); frozenset(d.items()) determines d."""

import ast

import z3

from ..pyvc import types as Ty
from ..pyvc.contract import Contract
from ..pyvc.engine import Unsupported
from ..pyvc.types import V, Int, Key

TermsT = Ty.List(Ty.List(Key))
SizesT = Ty.ODict(Key, Int)
KwT = Ty.Map(Key, Key)
PairsT = Ty.List(Ty.Tuple([Key, Int]))


def x_map(engine, st, _a, node, kw):
    f, seq = node.args
    if isinstance(f, ast.Name) and f.id == "tuple":
        # map(tuple, terms): every term as a tuple - the same sequence of sequences
        return engine.eval(st, seq)
    raise Unsupported("map() of another function")


x_map.raw = True


def x_prepare(engine, st, args, node, kw):
    return args[0]


def x_frozenset(engine, st, _a, node, kw):
    a = node.args[0]
    if isinstance(a, ast.Call) and isinstance(a.func, ast.Attribute) and a.func.attr == "items":
        return engine.eval(st, a.func.value)  # frozenset(d.items()) <-> d
    raise Unsupported("frozenset of something else")


x_frozenset.raw = True

hash_contraction = Contract(
    target="cotengra.interface:hash_contraction",
    props=["C13"],
    params={"inputs": TermsT, "output": Ty.List(Key), "size_dict": SizesT, "optimize": Key, "kwargs": KwT},
    returns=Ty.Tuple([TermsT, Ty.List(Key), PairsT, Key, KwT]),
    externals={"map": x_map, "hash_prepare_optimize": x_prepare, "frozenset": x_frozenset},
    ensures=[
        "len(result[0]) == len(inputs)",
        "forall(0, len(inputs), lambda i: len(result[0][i]) == len(inputs[i]) and forall(0, len(inputs[i]), lambda j: result[0][i][j] == inputs[i][j]))",
        "len(result[1]) == len(output) and forall(0, len(output), lambda j: result[1][j] == output[j])",
        # exactly the (label, size) pairs of the dict (in whatever order: the assignment is what matters)
        "forall(0, len(result[2]), lambda p: result[2][p][0] in size_dict and size_dict[result[2][p][0]] == result[2][p][1])",
        "forall(0, len(size_dict), lambda q: exists(0, len(result[2]), lambda p: result[2][p][0] == list(size_dict)[q]))",
    ],
    ensures_t1=["result[3] == optimize", "result[4] == kwargs"],
    ensures_rt=["result[3] == hash_prepare_optimize(optimize)", "dict(result[4]) == kwargs"],
    assumptions=["hash_prepare_optimize is injective (identity, or tuplify of an explicit path); frozenset(d.items()) determines the dict d"],
)
import cotengra.interface as _itf  # noqa: E402

hash_contraction.natives = {"hash_prepare_optimize": _itf.hash_prepare_optimize}
CONTRACTS = [hash_contraction]


def _gen(rng):
    labels = rng.sample(["a", "b", "c", "d", -1, -2, 5, 5 + (2**61 - 1), 1.0, "xy"], rng.randint(1, 5))
    inputs = [tuple(rng.choice(labels) for _ in range(rng.randint(0, 3))) for _ in range(rng.randint(1, 4))]
    if rng.random() < 0.5:
        inputs = [list(t) for t in inputs]
    output = tuple(rng.sample(labels, rng.randint(0, len(labels))))
    order = labels[:]
    rng.shuffle(order)
    sd = {ix: rng.randint(1, 4) for ix in order}
    opt = rng.choice(["greedy", "auto", ((0, 1),), [[0, 1]], None])
    kw = rng.choice([{}, {"strip_exponent": True}, {"prefer_einsum": False, "implementation": "autoray"}])
    return {"args": (inputs, output, sd, opt), "kwargs": kw, "describe": f"{inputs}->{output} sizes {sd} optimize={opt!r} kw={kw}"}


hash_contraction.gen = _gen
