"""Contracts for scoring.CompressedStatsTracker arithmetic (C20): per step,
flops is the running sum of flops_change, write the running sum of
contracted_size, max_size / peak_size running maxima, total_size the running
sum of size_change.  HyperGraph queries are uninterpreted pure functions of
their arguments (the hypergraph is not modified inside these methods)."""

import z3

from ..pyvc import types as Ty
from ..pyvc.contract import Contract
from ..pyvc.engine import ObjT
from ..pyvc.types import V, Int

FIELDS = ["chi", "flops", "max_size", "peak_size", "write", "total_size",
          "total_size_post_contract", "contracted_size", "size_change", "flops_change"]
TrackerT = ObjT("CompressedStatsTracker", {f: Ty.Int for f in FIELDS})
HgT = ObjT("HyperGraph", {})


def _uf(name, nargs):
    def ext(engine, st, args, node, kwargs):
        vals = [engine.num(engine.deref(st, a)) for a in args[1:]]  # args[0] is hg
        key = f"uf!{name}"
        if key not in engine.specfns:
            engine.specfns[key] = (z3.Function(key, *([Ty.IntS] * nargs), Ty.IntS), [], Int, None)
        f = engine.specfns[key][0]
        r = f(*vals)
        st.assume(r >= 0)
        return V(Int, [r])

    return ext


EXT = {
    "HyperGraph.node_size": _uf("node_size", 1),
    "HyperGraph.contract_pair_cost": _uf("contract_pair_cost", 2),
}
ASSUME = ["HyperGraph.node_size / contract_pair_cost are pure, non-negative functions of their arguments while the tracker method runs"]


def frame(changed):
    return [f"self.{f} == old(self.{f})" for f in FIELDS if f not in changed]


common = dict(self_type=TrackerT, externals=EXT, assumptions=ASSUME, props=["C20"])

pre_step = Contract(
    target="cotengra.scoring:CompressedStatsTracker.update_pre_step", params={},
    modifies=["self.size_change", "self.flops_change"],
    ensures=["self.size_change == 0", "self.flops_change == 0"] + frame({"size_change", "flops_change"}),
    **common,
)
pre_contract = Contract(
    target="cotengra.scoring:CompressedStatsTracker.update_pre_contract",
    params={"hg": HgT, "i": Ty.Int, "j": Ty.Int},
    modifies=["self.size_change", "self.flops_change"],
    ensures=[
        "self.size_change == old(self.size_change) - (hg.node_size(i) + hg.node_size(j))",
        "self.flops_change == old(self.flops_change) + hg.contract_pair_cost(i, j)",
    ] + frame({"size_change", "flops_change"}),
    **common,
)
post_contract = Contract(
    target="cotengra.scoring:CompressedStatsTracker.update_post_contract",
    params={"hg": HgT, "ij": Ty.Int},
    modifies=["self.contracted_size", "self.size_change", "self.total_size_post_contract"],
    ensures=[
        "self.contracted_size == hg.node_size(ij)",
        "self.size_change == old(self.size_change) + hg.node_size(ij)",
        "self.total_size_post_contract == self.total_size + self.size_change",
    ] + frame({"contracted_size", "size_change", "total_size_post_contract"}),
    **common,
)
post_step = Contract(
    target="cotengra.scoring:CompressedStatsTracker.update_post_step", params={},
    modifies=["self.max_size", "self.peak_size", "self.total_size", "self.flops", "self.write"],
    ensures=[
        "self.max_size == max(old(self.max_size), self.contracted_size)",
        "self.peak_size == max(old(self.peak_size), self.total_size_post_contract)",
        "self.total_size == old(self.total_size) + self.size_change",
        "self.flops == old(self.flops) + self.flops_change",
        "self.write == old(self.write) + self.contracted_size",
    ] + frame({"max_size", "peak_size", "total_size", "flops", "write"}),
    **common,
)
update_score = Contract(
    target="cotengra.scoring:CompressedStatsTracker.update_score",
    params={"other": TrackerT},
    modifies=["self.max_size", "self.peak_size", "self.flops", "self.write"],
    raises={"RuntimeError": "max(other.max_size, self.contracted_size) > max(other.peak_size, self.total_size_post_contract)"},
    ensures=[
        "self.flops == other.flops + self.flops_change",
        "self.write == other.write + self.contracted_size",
        "self.max_size == max(other.max_size, self.contracted_size)",
        "self.peak_size == max(other.peak_size, self.total_size_post_contract)",
        "self.max_size <= self.peak_size",
    ] + frame({"max_size", "peak_size", "flops", "write"}),
    **common,
)

CONTRACTS = [pre_step, pre_contract, post_contract, post_step, update_score]


def _tracker(rng):
    import cotengra as ctg
    from cotengra.scoring import CompressedStatsTracker

    con = ctg.utils.rand_equation(rng.randint(3, 5), 3, n_out=rng.randint(0, 2), seed=rng.randint(0, 10**6))
    hg = ctg.get_hypergraph(con.inputs, con.output, con.size_dict)
    tr = CompressedStatsTracker(hg, rng.choice([1, 2, 4, 16, 10**6]))
    for f in FIELDS[1:]:
        setattr(tr, f, getattr(tr, f) + rng.randint(0, 9))
    return hg, tr


def _g0(rng):
    hg, tr = _tracker(rng)
    return {"self": tr, "args": (), "describe": "random tracker"}


def _g_pre_contract(rng):
    hg, tr = _tracker(rng)
    i, j = rng.sample(list(hg.nodes), 2)
    return {"self": tr, "args": (hg, i, j), "describe": f"hg nodes {dict(hg.nodes)} i={i} j={j}"}


def _g_post_contract(rng):
    hg, tr = _tracker(rng)
    i = rng.choice(list(hg.nodes))
    return {"self": tr, "args": (hg, i), "describe": f"hg nodes {dict(hg.nodes)} ij={i}"}


def _g_score(rng):
    hg, tr = _tracker(rng)
    other = tr.copy()
    for f in ("flops", "write", "max_size", "peak_size"):
        setattr(other, f, rng.randint(0, 30))
    return {"self": tr, "args": (other,), "describe": "two random trackers"}


pre_step.gen = _g0
post_step.gen = _g0
pre_contract.gen = _g_pre_contract
post_contract.gen = _g_post_contract
update_score.gen = _g_score
