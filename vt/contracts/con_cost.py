"""Contracts for the per-step cost functions of the 'optimal' dynamic
programme (C09): compute_con_cost_{flops,max,size,write,combo,limit}.

Spec (right folds over the list as it was on entry, L0 = old(temp_legs)):
  allp(i)  = product of sizes[ix] over entries i..n-1          (all involved)
  keptp(i) = product of sizes[ix] over entries i..n-1 that are kept,
             i.e. whose count differs from appearances[ix]
The *sieve lemma* (result >= iscore, result >= jscore) is what makes the
cost-cap sieve of optimize_optimal_connected unable to drop the optimum.
"""

from ..pyvc import types as Ty
from ..pyvc.contract import Contract, Loop, Lemma

LegsL = Ty.List(Ty.Tuple([Ty.Int, Ty.Int]))
IntL = Ty.List(Ty.Int)

ALLP = """
def allp(i):
    return 1 if i >= n else allp(i + 1) * sizes[temp_legs[i][0]]
"""
KEPTP = """
def keptp(i):
    return 1 if i >= n else keptp(i + 1) * (sizes[temp_legs[i][0]] if temp_legs[i][1] != appearances[temp_legs[i][0]] else 1)
"""

REQ = [
    "forall(0, n, lambda k: 0 <= temp_legs[k][0] and temp_legs[k][0] < len(sizes) and temp_legs[k][0] < len(appearances))",
    "forall(0, len(sizes), lambda k: sizes[k] >= 1)",
    "iscore >= 0 and jscore >= 0",
]
KEPT_RT = "temp_legs == [e for e in old(list(temp_legs)) if e[1] != appearances[e[0]]]"

LEM_ALL = Lemma("allp_pos", "k", "0", "n", "allp(k) >= 1", induction="down")
LEM_KEPT = Lemma("keptp_pos", "k", "0", "n", "keptp(k) >= 1", induction="down")
LEM_KEPT_LE = Lemma("keptp_le_allp", "k", "0", "n", "keptp(k) <= allp(k)", induction="down",
                    via=["allp(k) == allp(k + 1) * sizes[temp_legs[k][0]]",
                         "keptp(k) == keptp(k + 1) * (sizes[temp_legs[k][0]] if temp_legs[k][1] != appearances[temp_legs[k][0]] else 1)",
                         "sizes[temp_legs[k][0]] >= 1", "keptp(k + 1) >= 1", "allp(k + 1) >= 1",
                         "allp(n) == 1 and keptp(n) == 1"])

INV_COMMON = [
    "len(temp_legs) >= i + 1",
    "forall(0, n, lambda k: implies(k <= i, temp_legs[k] == old(temp_legs)[k]))",
]


def mk(name, ensures, inv, spec, lemmas, params_extra=None, factor=False):
    params = {"temp_legs": LegsL, "appearances": IntL, "sizes": IntL, "iscore": Ty.Real, "jscore": Ty.Real}
    req = list(REQ)
    if factor:
        params["factor"] = Ty.Real
        req.append("factor >= 0")
    return Contract(
        target=f"cotengra.pathfinders.path_basic:compute_con_cost_{name}",
        props=["C09"],
        params=params,
        lets={"n": "len(temp_legs)"},
        spec=spec,
        requires=req,
        lemmas=lemmas,
        returns=Ty.Real,
        modifies=["temp_legs"],
        ensures=ensures + ["result >= iscore and result >= jscore"],
        ensures_rt=[KEPT_RT],
        nloops=1,
        loops={0: Loop(inv=INV_COMMON + inv)},
    )


flops = mk("flops", ["result == iscore + jscore + allp(0)"], ["cost == allp(i + 1)"], {"allp": ALLP}, [LEM_ALL])
mx = mk("max", ["result == max(iscore, jscore, allp(0))"], ["cost == allp(i + 1)"], {"allp": ALLP}, [LEM_ALL])
size = mk("size", ["result == max(iscore, jscore, keptp(0))"], ["size == keptp(i + 1)"], {"keptp": KEPTP}, [LEM_KEPT])
write = mk("write", ["result == iscore + jscore + keptp(0)"], ["size == keptp(i + 1)"], {"keptp": KEPTP}, [LEM_KEPT])
combo = mk("combo", ["result == iscore + jscore + (allp(0) + factor * keptp(0))"],
           ["cost == allp(i + 1)", "size == keptp(i + 1)"], {"allp": ALLP, "keptp": KEPTP}, [LEM_ALL, LEM_KEPT], factor=True)
limit = mk("limit", ["result == iscore + jscore + max(allp(0), factor * keptp(0))"],
           ["cost == allp(i + 1)", "size == keptp(i + 1)"], {"allp": ALLP, "keptp": KEPTP}, [LEM_ALL, LEM_KEPT], factor=True)

CONTRACTS = [flops, mx, size, write, combo, limit]


def _gen(factor):
    def gen(rng):
        nix = rng.randint(1, 6)
        sizes = [rng.choice([1, 2, 3, 5, 7]) for _ in range(nix)]
        app = [rng.randint(1, 4) for _ in range(nix)]
        ixs = sorted(rng.sample(range(nix), rng.randint(0, nix)))
        legs = [(ix, app[ix] if rng.random() < 0.4 else rng.randint(1, app[ix])) for ix in ixs]
        args = [legs, app, sizes, rng.randint(0, 50), rng.randint(0, 50)]
        if factor:
            args.append(float(rng.choice([0, 1, 64, 256])))
        return {"args": tuple(args), "describe": f"temp_legs={legs} appearances={app} sizes={sizes} scores={args[3:]}"}

    return gen


for c in (flops, mx, size, write):
    c.gen = _gen(False)
for c in (combo, limit):
    c.gen = _gen(True)
