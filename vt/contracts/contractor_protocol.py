"""C01: Contractor.__call__ executes exactly the schedule it was given.

cotengra.contract:Contractor.__call__ keeps the live arrays in a dict `temps`
keyed by tree node, and walks `self.contractions`, a list of steps
(p, l, r, tdot, arg, perm).  Under contract (variant without exponent
stripping, progress bar or keyword overrides):

  * given a VALID SCHEDULE - every step consumes two different live nodes (an
    input leaf or the parent of an earlier step, never consumed before), a
    single-term step rewrites a live leaf - no lookup in `temps` ever fails;
  * each pair step stores ONE entry, under the parent, holding  transpose(tensordot(L, R, axes), perm)  (perm only
    when given and non-empty) or  einsum(eq, L, R)  of the two children's arrays
    IN THAT ORDER; a single-term step rewrites exactly its own entry; no entry
    of another live node changes (iteration contract on the loop; that the
    children's entries are released is memory management, not part of C01, and
    is deliberately not demanded);
  * the array returned is the one stored by the last step.

Arrays are opaque values; einsum / tensordot / transpose are uninterpreted
functions of their arguments (their agreement with the reference is C11's
business, the recipes' correctness is proved in einsum_eq / tensordot_recipe).
That the schedule extract_contractions builds from a tree IS valid is checked on
real trees by the monitored precondition; with the traversal contract (children
before parents, no step twice) it is the tree's shape that guarantees it."""

import ast

import z3

from ..pyvc import types as Ty
from ..pyvc.contract import Contract, Loop
from ..pyvc.engine import ObjT, PyConst, Unsupported
from ..pyvc.types import V, Int, Key

Arr = Key  # an opaque array value
PermT = Ty.Opt(Ty.List(Int))
StepT = Ty.Tuple([Key, Ty.Opt(Key), Ty.Opt(Key), Ty.Bool, Key, PermT])
ConT = ObjT("Contractor", {"contractions": Ty.List(StepT), "strip_exponent": Ty.Bool, "check_zero": Ty.Bool, "progbar": Ty.Bool,
                           "backend": Key, "implementation": Key})


def _uf(engine, name, *sorts):
    if name not in engine.specfns:
        engine.specfns[name] = (z3.Function(name, *sorts), [], Int, None)
    return engine.specfns[name][0]


def x_leaf(engine, st, args, node, kw):
    return V(Key, [_uf(engine, "uf!leaf", Ty.IntS, Ty.IntS)(engine.num(args[0]))])


def x_pop_default(engine, st, args, node, kw):
    # kwargs.pop(name, default) on the empty keyword dictionary
    return args[-1]


def x_einsum(engine, st, args, node, kw):
    t = [engine.keyterm(engine.deref(st, a)) for a in args]
    if len(t) == 2:
        return V(Arr, [_uf(engine, "uf!einsum1", Ty.IntS, Ty.IntS, Ty.IntS)(*t)])
    return V(Arr, [_uf(engine, "uf!einsum2", Ty.IntS, Ty.IntS, Ty.IntS, Ty.IntS)(*t)])


def x_tensordot(engine, st, args, node, kw):
    t = [engine.keyterm(engine.deref(st, a)) for a in args]
    return V(Arr, [_uf(engine, "uf!tensordot", Ty.IntS, Ty.IntS, Ty.IntS, Ty.IntS)(*t)])


def _transpose(engine, st, a, perm):
    a, perm = engine.deref(st, a), engine.deref(st, perm)
    if isinstance(perm.t, Ty.Opt):
        perm = V(perm.t.t, perm.c[1:])
    f = _uf(engine, "uf!transpose", Ty.IntS, Ty.IntS, z3.ArraySort(Ty.IntS, Ty.IntS), Ty.IntS)
    return V(Arr, [f(engine.keyterm(a), perm.c[0], perm.c[1])])


REAL_FNS = ("max", "min", "sum", "log10", "linalg.norm", "abs_max")


def x_do(engine, st, args, node, kw):
    """autoray.do(name, *args, like=backend): transpose is the function the contract talks about; any other
    name is an uninterpreted function of its arguments (a scalar for reductions and log10, else an array)."""
    fn = args[0]
    if not (isinstance(fn, PyConst) and isinstance(fn.val, str)):
        raise Unsupported("do() with a computed function name")
    if fn.val == "transpose":
        return _transpose(engine, st, args[1], args[2])
    terms = []
    for a in args[1:]:
        a = engine.deref(st, a)
        if not (isinstance(a, V) and len(a.c) == 1):
            raise Unsupported(f"do({fn.val!r}) of a container")
        terms.append(a.term)
    res = Ty.RealS if fn.val in REAL_FNS else Ty.IntS
    f = _uf(engine, f"uf!do!{fn.val}!{len(terms)}!" + "".join("r" if t.sort() == Ty.RealS else "i" for t in terms), *[t.sort() for t in terms], res)
    return V(Ty.Real if fn.val in REAL_FNS else Arr, [f(*terms)])


def x_div(engine, st, args, node, kw):
    a, b = (engine.deref(st, x) for x in args)
    bt = b.term if b.term.sort() == Ty.RealS else z3.ToReal(b.term)
    return V(Arr, [_uf(engine, "uf!divide", Ty.IntS, Ty.RealS, Ty.IntS)(a.term, bt)])


def x_log10(engine, st, args, node, kw):
    a = engine.deref(st, args[0])
    return V(Ty.Real, [_uf(engine, "uf!do!log10!1!r", Ty.RealS, Ty.RealS)(a.term)])


def x_transpose(engine, st, args, node, kw):
    return _transpose(engine, st, args[0], args[1])


# ------------------------------------------------------------ the valid-schedule precondition
C = "self.contractions"
PAIR = "({c}[{k}][1] is not None)"
LIVE_SRC = ("(exists(0, len(arrays), lambda i: leaf(i) == {n}) or exists(0, {k}, lambda j: " + C + "[j][1] is not None and " + C + "[j][0] == {n}))")
UNUSED = ("forall(0, {k}, lambda j: implies(" + C + "[j][1] is not None, unopt(" + C + "[j][1]) != {n} and unopt(" + C + "[j][2]) != {n}))")


def _pre():
    L, R, P = f"unopt({C}[k][1])", f"unopt({C}[k][2])", f"{C}[k][0]"
    return [
        f"len({C}) >= 1 and {C}[len({C}) - 1][1] is not None",
        # a step names both children or neither
        f"forall(0, len({C}), lambda k: ({C}[k][1] is None) == ({C}[k][2] is None))",
        # leaves are distinct nodes
        "forall(0, len(arrays), lambda i: forall(0, len(arrays), lambda j: implies(i != j, leaf(i) != leaf(j))))",
        # pair steps: two different children, each produced (a leaf or an earlier parent) and not consumed before
        f"forall(0, len({C}), lambda k: implies({C}[k][1] is not None, {L} != {R}))",
        f"forall(0, len({C}), lambda k: implies({C}[k][1] is not None, " + LIVE_SRC.format(n=L, k="k") + " and " + LIVE_SRC.format(n=R, k="k") + "))",
        f"forall(0, len({C}), lambda k: implies({C}[k][1] is not None, " + UNUSED.format(n=L, k="k") + " and " + UNUSED.format(n=R, k="k") + "))",
        # a parent is a new node: not a leaf, not an earlier parent, and not consumed before it exists
        f"forall(0, len({C}), lambda k: implies({C}[k][1] is not None, " + UNUSED.format(n=P, k="k + 1") + "))",
        # single-term steps rewrite a live leaf
        f"forall(0, len({C}), lambda k: implies({C}[k][1] is None, exists(0, len(arrays), lambda i: leaf(i) == {P}) and " + UNUSED.format(n=P, k="k") + "))",
    ]


# ------------------------------------------------------------ loop specification
# (the loop targets are re-bound to the next step when an iteration ends: prev(x) is this iteration's step)
pP, pL, pR, pT, pA, pM = "prev(p)", "prev(l)", "prev(r)", "prev(tdot)", "prev(arg)", "prev(perm)"
LA, RA = f"prev(temps)[unopt({pL})]", f"prev(temps)[unopt({pR})]"
TD = f"tensordot({LA}, {RA}, {pA})"
COMBINED = (f"((transpose({TD}, unopt({pM})) if ({pM} is not None and len(unopt({pM})) > 0) else {TD}) if {pT} else einsum2({pA}, {LA}, {RA}))")
STEP_PAIR = [
    # the parent's entry is the combination of the two children's arrays, left then right, by the recipe of the step
    f"implies({pL} is not None, {pP} in temps and temps[{pP}] == {COMBINED})",
    # every other entry is untouched (that the children's entries are released is not part of the value property)
    f"implies({pL} is not None, forall(keys(prev(temps)), lambda n: implies(n != unopt({pL}) and n != unopt({pR}) and n != {pP}, n in temps and temps[n] == prev(temps)[n])))",
    # the array handed back at the end is the one just stored
    f"implies({pL} is not None, p_array == temps[{pP}])",
]
STEP_SINGLE = [
    f"implies({pL} is None, {pP} in temps and temps[{pP}] == einsum1({pA}, prev(temps)[{pP}]))",
    f"implies({pL} is None, forall(keys(prev(temps)), lambda n: n in temps and (n == {pP} or temps[n] == prev(temps)[n])))",
]
# which nodes are live after t steps
INV_LIVE = ("forall(lambda n: implies((exists(0, len(arrays), lambda i: leaf(i) == n) or exists(0, t, lambda j: " + C + "[j][1] is not None and " + C + "[j][0] == n))"
            " and forall(0, t, lambda j: implies(" + C + "[j][1] is not None, unopt(" + C + "[j][1]) != n and unopt(" + C + "[j][2]) != n)), n in temps))")
# after a pair step the array to hand back is bound and is the entry just stored
INV_LAST = ("implies(t >= 1 and " + C + "[t - 1][1] is not None, isbound('p_array') and " + C + "[t - 1][0] in temps and p_array == temps[" + C + "[t - 1][0]])")

call = Contract(
    target="cotengra.contract:Contractor.__call__",
    variant="plain",
    props=["C01"],
    self_type=ConT,
    params={"arrays": Ty.List(Arr), "kwargs": PyConst({})},
    requires=["not self.strip_exponent", "not self.progbar"] + _pre(),
    returns=Arr,
    externals={"leaf": x_leaf, "node_from_single": x_leaf, "dict.pop": x_pop_default, "_einsum": x_einsum, "_tensordot": x_tensordot, "do": x_do,
               "einsum1": x_einsum, "einsum2": x_einsum, "tensordot": x_tensordot, "transpose": x_transpose},
    hints={"temps": Ty.Map(Key, Arr), "_einsum": Key, "_tensordot": Key, "backend": Key, "implementation": Key, "p_array": Arr, "l_array": Arr, "r_array": Arr},
    nloops=1,
    loops={0: Loop(pos="t", inv=[INV_LIVE, INV_LAST], step=STEP_PAIR + STEP_SINGLE)},
    ensures=[],
    ensures_t1=["result == temps_final[self.contractions[len(self.contractions) - 1][0]]"],
    assumptions=["called without keyword overrides, progress bar or exponent stripping; arrays are opaque values and einsum/tensordot/transpose uninterpreted functions of their arguments;"
                 " node_from_single(i) is an injective naming of the leaves (it is frozenset({i}))"],
)
ABSTRACT = {
    "if backend is None:": ["backend"],
    "if implementation == 'auto':": ["implementation"],
    "if implementation == 'cotengra':": ["_einsum", "_tensordot"],
}
call.abstract_stmts = dict(ABSTRACT)
call.expose = ("temps",)

# ------------------------------------------------------------ variant with exponent stripping (C19)
# mantissa and exponent are kept consistent: whatever positive factor is split off a freshly computed
# intermediate, the array stored is the intermediate divided by THAT factor and the exponent grows by
# log10 of THAT factor (so mantissa * 10**exponent is unchanged by the bookkeeping, given that the
# pairwise operations are linear in each operand - not mechanised).  Which factor is chosen (max |x|) is
# what keeps the mantissa in range; that part of C19 is decided by the bounded driver only.
STRIP_PAIR = [
    f"implies({pL} is not None, {pP} in temps and temps[{pP}] == divide({COMBINED}, factor))",
    f"implies({pL} is not None, exponent == prev(exponent) + log10(factor))",
    STEP_PAIR[1],
    f"implies({pL} is not None, p_array == temps[{pP}])",
]
STRIP_SINGLE = STEP_SINGLE + [f"implies({pL} is None, exponent == prev(exponent))"]
strip = Contract(
    target="cotengra.contract:Contractor.__call__",
    variant="strip",
    props=["C01", "C19"],
    self_type=ConT,
    params={"arrays": Ty.List(Arr), "kwargs": PyConst({})},
    requires=["self.strip_exponent", "not self.progbar", "not self.check_zero"] + _pre(),
    returns=Ty.Tuple([Arr, Ty.Real]),
    externals=dict(call.externals, **{"binop:Div": x_div, "divide": x_div, "log10": x_log10}),
    hints=dict(call.hints, factor=Ty.Real, exponent=Ty.Real),
    nloops=1,
    loops={0: Loop(pos="t", inv=[INV_LIVE, INV_LAST], step=STRIP_PAIR + STRIP_SINGLE)},
    ensures=[],
    ensures_t1=["result[0] == temps_final[self.contractions[len(self.contractions) - 1][0]]", "result[1] == exponent_final"],
    assumptions=["called without keyword overrides or progress bar, check_zero off; arrays are opaque values; einsum/tensordot/transpose/divide, the reduction max|x| and log10 are uninterpreted"
                 " functions of their arguments; node_from_single(i) is an injective naming of the leaves"],
)
strip.abstract_stmts = dict(ABSTRACT)
strip.expose = ("temps", "exponent")
CONTRACTS = [call, strip]


# ------------------------------------------------------------ native side: symbolic arrays
class Sym:
    """An array that only records how it was made."""

    __module__ = "vt_symarr"

    def __init__(self, expr):
        self.expr = expr

    def __eq__(self, other):
        return isinstance(other, Sym) and self.expr == other.expr

    def __hash__(self):
        return hash(self.expr)

    def __repr__(self):
        return f"Sym({self.expr!r})"


def _freeze(x):
    if isinstance(x, (list, tuple)):
        return tuple(_freeze(y) for y in x)
    return x


def _sym_einsum(eq, *xs):
    return Sym(("einsum", eq) + tuple(x.expr for x in xs))


def _sym_tensordot(a, b, axes):
    return Sym(("tensordot", a.expr, b.expr, _freeze(axes)))


def _sym_transpose(a, perm):
    if not isinstance(a, Sym):
        return a  # (the one-element arrays of the exponent-stripping variant)
    return Sym(("transpose", a.expr, _freeze(perm)))


def _install_backend():
    import sys
    import types

    if "vt_symarr" not in sys.modules:
        m = types.ModuleType("vt_symarr")
        m.transpose = _sym_transpose
        m.einsum = _sym_einsum
        m.tensordot = _sym_tensordot
        sys.modules["vt_symarr"] = m


def _expected(contractions, arrays):
    """What the schedule means, computed without a dictionary of live arrays: the value of a node is
    defined by the LAST step that names it as parent, applied to the values of its children."""
    from cotengra.utils import node_from_single

    leaves = {node_from_single(i): a.expr for i, a in enumerate(arrays)}

    def value(node, upto):
        # value of `node` as seen by step number `upto` (steps before it have run)
        for k in range(upto - 1, -1, -1):
            p, l, r, tdot, arg, perm = contractions[k]
            if p != node:
                continue
            if l is None and r is None:
                return ("einsum", arg, value(node, k))
            lv, rv = value(l, k), value(r, k)
            if tdot:
                out = ("tensordot", lv, rv, _freeze(arg))
                if perm:
                    out = ("transpose", out, _freeze(perm))
                return out
            return ("einsum", arg, lv, rv)
        return leaves[node]

    return Sym(value(contractions[-1][0], len(contractions)))


call.natives = {"leaf": lambda i: __import__("cotengra").utils.node_from_single(i), "expected": _expected}
call.ensures_rt = ["result == expected(self.contractions, arrays)"]


def _gen(rng):
    import cotengra as ctg
    from cotengra.contract import Contractor, extract_contractions
    from ..scope import random_tree_ssa

    _install_backend()
    kind = rng.random()
    if kind < 0.25:
        # tensors with repeated / dangling indices: single-term (preprocessing) steps
        pool = "abcdef"
        n = rng.randint(2, 4)
        inputs = [tuple(rng.choice(pool) for _ in range(rng.randint(1, 4))) for _ in range(n)]
        used = sorted({ix for t in inputs for ix in t})
        output = tuple(rng.sample(used, rng.randint(0, min(2, len(used)))))
        sd = {ix: rng.randint(2, 3) for ix in used}
    else:
        n = rng.randint(2, 6)
        if n >= 3:
            con = ctg.utils.rand_equation(n, 3, n_out=rng.randint(0, 2), n_hyper_in=rng.randint(0, 1), n_hyper_out=rng.randint(0, 1), seed=rng.randint(0, 10**6))
            inputs, output, sd = con.inputs, con.output, con.size_dict
        else:
            inputs, output, sd = [("a", "b", "c"), ("c", "b", "d")], ("d", "a"), {"a": 2, "b": 2, "c": 3, "d": 2}
    tree = ctg.ContractionTree.from_path(inputs, output, sd, ssa_path=random_tree_ssa(len(inputs), rng))
    order = rng.choice([None, "dfs", "surface_order"])
    prefer_einsum = rng.random() < 0.3
    contractions = extract_contractions(tree, order=order, prefer_einsum=prefer_einsum)
    if not contractions or contractions[-1][1] is None:
        return None
    con = Contractor(contractions, implementation=(_sym_einsum, _sym_tensordot))
    arrays = tuple(Sym(("input", i)) for i in range(len(inputs)))
    return {"self": con, "args": arrays, "bind": {"arrays": arrays, "kwargs": {}},
            "describe": f"inputs={inputs} output={output} order={order} prefer_einsum={prefer_einsum} steps={len(contractions)}"}


call.gen = _gen
call.pre_must_hold = True  # schedules come from extract_contractions on real trees


class Num:
    """A one-element 'array' for the exponent-stripping variant: pairwise operations multiply, so the plain
    result is the product of the inputs and mantissa * 10**exponent must reproduce it."""

    __module__ = "vt_symarr"

    def __init__(self, v):
        self.v = float(v)

    def __truediv__(self, other):
        return Num(self.v / float(getattr(other, "v", other)))

    def __mul__(self, other):
        return Num(self.v * float(getattr(other, "v", other)))

    def __float__(self):
        return self.v

    def __repr__(self):
        return f"Num({self.v!r})"


def _install_num_backend():
    import math
    import sys

    _install_backend()
    m = sys.modules["vt_symarr"]
    m.abs = lambda x: Num(abs(x.v))
    m.max = lambda x: x.v
    m.log10 = lambda x: math.log10(float(getattr(x, "v", x)))
    import types

    m.linalg = types.SimpleNamespace(norm=lambda x: abs(x.v))


def _product(arrays):
    out = 1.0
    for a in arrays:
        out *= a.v
    return out


def _close(a, b):
    return abs(a - b) <= 1e-9 * max(abs(a), abs(b), 1e-300)


strip.natives = {"leaf": call.natives["leaf"], "product": _product, "close": _close}
strip.ensures_rt = ["close(result[0].v * 10.0 ** result[1], product(arrays))"]


def _gen_strip(rng):
    from cotengra.contract import Contractor

    case = _gen(rng)
    if case is None:
        return None
    _install_num_backend()
    mul2 = lambda eq, *xs: xs[0] if len(xs) == 1 else xs[0] * xs[1]  # noqa: E731
    con = Contractor(case["self"].contractions, implementation=(mul2, lambda a, b, axes: a * b), strip_exponent=True)
    arrays = tuple(Num(rng.choice([-1, 1]) * 10.0 ** rng.uniform(-30, 30)) for _ in case["args"])
    return {"self": con, "args": arrays, "bind": {"arrays": arrays, "kwargs": {}}, "describe": case["describe"] + f" values={[a.v for a in arrays]}"}


strip.gen = _gen_strip
strip.pre_must_hold = True
