"""C01: ContractionTree.get_inds(node) lists exactly the legs of the node, each once.

Induction over the tree (partial correctness): assuming the statement for the two
children (induction hypothesis, stated as precondition on the children's
strings), the string built for an intermediate node has no repeated character
and its characters are exactly keys(get_legs(node)).  For leaves and the root
the string is the key sequence of the leg dict.  Together with the proved leg
rule (keys(get_legs(node)) is a subset of the children's legs) this is what the
recipe contracts (einsum_eq, tensordot_recipe) assume about the index strings:
no repetition, and every parent index lives on a child.

Assumed (stdlib / utils): filter keeps exactly the elements satisfying the
predicate, in order; utils.unique == order-preserving de-duplication; ''.join of
single characters is the identity on lists of code points."""

import ast

import z3

from ..pyvc import types as Ty
from ..pyvc.contract import Contract
from ..pyvc.engine import ObjT, Unsupported
from ..pyvc.types import V, Int, Key
from .einsum_eq import StrT, _inds, x_chain, x_unique
from .legs_rules import LegsT

NodeT = Ty.Set(Ty.Int)
TreeT = ObjT("ContractionTree", {"N": Ty.Int, "children": Ty.Map(Key, Ty.Tuple([NodeT, NodeT]))})
OLegsT = Ty.ODict(Key, Int)


def _legs(engine, st, nd):
    """the leg dict of a node (insertion ordered): one fixed, well-formed dict per node"""
    t = OLegsT
    comps = []
    for j, srt in enumerate(t.sorts()):
        f = engine.specfns.setdefault(f"uf!olegs{j}", (z3.Function(f"uf!olegs{j}", Ty.IntS, srt), [], Int, None))[0]
        comps.append(f(nd))
    v = V(t, comps)
    for fact in Ty.wf(v, f"olegs@{nd}"):
        st.assume(fact)
    return v


def x_get_legs(engine, st, args, node, kw):
    return engine.alloc(st, _legs(engine, st, engine.keyterm(engine.deref(st, args[-1]))))


def x_map(engine, st, _a, node, kw):
    f, seq = node.args
    if isinstance(f, ast.Attribute) and f.attr == "get_inds":
        sv = engine.deref(st, engine.eval(st, seq))
        return Ty.mk_tuple([_inds(engine, st, engine.keyterm(p)) for p in Ty.split(sv.t, sv.c)])
    raise Unsupported("map() of another function")


x_map.raw = True


def x_filter(engine, st, _a, node, kw):
    """filter(d.__contains__, xs): the elements of xs that are keys of d, in order"""
    pred, seq = node.args
    if not (isinstance(pred, ast.Attribute) and pred.attr == "__contains__"):
        raise Unsupported("filter() with another predicate")
    d = engine.deref(st, engine.eval(st, pred.value))
    xs = engine.deref(st, engine.eval(st, seq))
    dom = d.c[len(d.t.keys_t.sorts())] if isinstance(d.t, Ty.ODict) else d.c[0]
    pieces = xs.py[1] if isinstance(xs.py, tuple) and xs.py[0] == "chain" else [xs]
    out = Ty.havoc(StrT, f"filter@{engine.line(node)}")
    m, b = out.c
    p, q = z3.Ints("fil!p fil!q")
    st.assume(z3.And(0 <= m, m <= xs.c[0]))
    origin = []
    for pc in pieces:
        ln, a = pc.c
        tag = engine.new_id()
        idx = z3.Function(f"fil!idx!{tag}", Ty.IntS, Ty.IntS)  # where an output element came from
        inv = z3.Function(f"fil!inv!{tag}", Ty.IntS, Ty.IntS)  # where a kept source element went
        # every source element satisfying the predicate is in the output ...
        st.assume(z3.ForAll([p], z3.Implies(z3.And(0 <= p, p < ln, dom[a[p]]), z3.And(0 <= inv(p), inv(p) < m, b[inv(p)] == a[p])), patterns=[a[p]]))
        origin.append(z3.And(0 <= idx(q), idx(q) < ln, a[idx(q)] == b[q]))
    # ... and every output element is a source element satisfying it (the order facts of filter are not needed here)
    st.assume(z3.ForAll([q], z3.Implies(z3.And(0 <= q, q < m), z3.And(dom[b[q]], z3.Or(*origin))), patterns=[b[q]]))
    return engine.alloc(st, out)


x_filter.raw = True


def x_join(engine, st, args, node, kw):
    v = engine.deref(st, args[-1])
    if isinstance(v.t, Ty.ODict):
        return engine.alloc(st, V(v.t.keys_t, v.c[: len(v.t.keys_t.sorts())]))
    return engine.alloc(st, v)


L, R = "self.get_inds(self.children[node][0])", "self.get_inds(self.children[node][1])"
LG, LGL, LGR = "self.get_legs(node)", "self.get_legs(self.children[node][0])", "self.get_legs(self.children[node][1])"
DISTINCT = "forall(0, len({s}), lambda p: forall(0, len({s}), lambda q: implies(p < q, {s}[p] != {s}[q])))"
CHARS_IN = "forall(0, len({s}), lambda p: {s}[p] in {legs})"  # every character is a leg
CHARS_ALL = "forall(keys({legs}), lambda c: exists(0, len({s}), lambda p: {s}[p] == c))"  # every leg is listed
EXT = {"ContractionTree.get_legs": x_get_legs, "ContractionTree.get_inds": None, "map": x_map, "filter": x_filter, "itertools.chain": x_chain,
       "unique": x_unique, "str.join": x_join}


def _x_get_inds(engine, st, args, node, kw):
    return engine.alloc(st, _inds(engine, st, engine.keyterm(engine.deref(st, args[-1]))))


EXT["ContractionTree.get_inds"] = _x_get_inds

inds_mid = Contract(
    target="cotengra.core:ContractionTree.get_inds",
    variant="intermediate",
    props=["C01", "C11"],
    self_type=TreeT,
    params={"node": NodeT},
    lets={"L": L, "R": R, "LG": LG, "LGL": LGL, "LGR": LGR},
    requires=[
        "len(node) != 1 and len(node) != self.N and node in self.children",
        # induction hypothesis: the statement for the two children
        CHARS_IN.format(s="L", legs="LGL"), CHARS_ALL.format(s="L", legs="LGL"), CHARS_IN.format(s="R", legs="LGR"), CHARS_ALL.format(s="R", legs="LGR"),
        # the leg rule (proved for get_legs / get_involved): a node's legs live on its children
        "forall(keys(LG), lambda c: c in LGL or c in LGR)",
    ],
    returns=StrT,
    externals=EXT,
    ensures=[DISTINCT.format(s="result"), CHARS_IN.format(s="result", legs="LG"), CHARS_ALL.format(s="result", legs="LG")],
    assumptions=["get_legs(node)/get_inds(child) are fixed per node; filter/unique/join as documented"],
)

inds_end = Contract(
    target="cotengra.core:ContractionTree.get_inds",
    variant="leaf-or-root",
    props=["C01", "C11"],
    self_type=TreeT,
    params={"node": NodeT},
    lets={"LG": LG},
    requires=["len(node) == 1 or len(node) == self.N"],
    returns=StrT,
    externals=EXT,
    ensures=[DISTINCT.format(s="result"), CHARS_IN.format(s="result", legs="LG"), CHARS_ALL.format(s="result", legs="LG")],
    assumptions=["a dict has no repeated key; ''.join(d) joins its keys in order"],
)
CONTRACTS = [inds_mid, inds_end]


def _gen(kind):
    def gen(rng):
        from .core_legs import _tree

        tree, con = _tree(rng)
        if rng.random() < 0.5:
            tree.sort_contraction_indices()
        if kind == "mid":
            c = [x for x in tree.children if len(x) != tree.N]
            if not c:
                return None
            node = rng.choice(c)
        else:
            node = rng.choice([tree.root] + list(tree.gen_leaves()))
        return {"self": tree, "args": (node,), "universe": list(con.size_dict), "describe": f"{con.inputs}->{con.output} path {tree.get_path()} sliced {list(tree.sliced_inds)} node {sorted(node)}"}

    return gen


inds_mid.gen = _gen("mid")
inds_end.gen = _gen("end")
inds_mid.pre_must_hold = True
inds_end.pre_must_hold = True
