"""C03 / C18 'tree rule' and the per-node figures built on it:

  get_legs(node)      intermediate: the indices of the children's union whose count inside the
                      subtree is still below the global count (inputs + output); root: the output
                      indices that are not sliced
  get_involved(node)  union (with summed counts) of the two children's legs
  get_size(node)      product of the sizes of the legs
  get_flops(node)     product of the sizes of the involved indices (0 for a leaf)
  utils.compute_size_by_dict(indices, size_dict)  product over the keys of a leg map

Nodes are frozensets of tensor positions (sets of ints); per-node cached figures
are pure functions of the node while these getters run (decorators dropped);
products are stated in the bag abstraction prodset(S, size_dict)."""

import z3

from ..pyvc import types as Ty
from ..pyvc.contract import Contract, Loop
from ..pyvc.engine import ObjT
from ..pyvc.types import V, Int, Key
from .legs_rules import LegsT, SizeT

NodeT = Ty.Set(Ty.Int)
TreeT = ObjT(
    "ContractionTree",
    {"N": Ty.Int, "output": Ty.List(Key), "sliced_inds": Ty.Map(Key, Key), "appearances": LegsT, "size_dict": SizeT,
     "children": Ty.Map(Key, Ty.Tuple([NodeT, NodeT]))},
)


def _per_node_map(name):
    """a cached leg map per node: one fixed (arbitrary) map for each node"""

    def ext(engine, st, args, node, kw):
        nd = engine.keyterm(engine.deref(st, args[-1]))
        dom = engine.specfns.setdefault(f"uf!{name}_dom", (z3.Function(f"uf!{name}_dom", Ty.IntS, z3.ArraySort(Ty.IntS, Ty.BoolS)), [], Int, None))[0]
        val = engine.specfns.setdefault(f"uf!{name}_val", (z3.Function(f"uf!{name}_val", Ty.IntS, z3.ArraySort(Ty.IntS, Ty.IntS)), [], Int, None))[0]
        return engine.alloc(st, V(LegsT, [dom(nd), val(nd)]))

    return ext


size_by_dict = Contract(
    target="cotengra.utils:compute_size_by_dict",
    props=["C03", "C18"],
    params={"indices": LegsT, "size_dict": SizeT},
    requires=["subset(keys(indices), keys(size_dict))"],
    returns=Ty.Int,
    nloops=1,
    loops={0: Loop(seen="seen", inv=["d == prodset(seen, size_dict)"])},
    ensures=["result == prodset(keys(indices), size_dict)"],
    assumptions=["called with a leg map (the tree's call sites); iterating a dict visits each key once"],
)

legs_mid = Contract(
    target="cotengra.core:ContractionTree.get_legs",
    variant="intermediate",
    props=["C03", "C18", "C01"],
    self_type=TreeT,
    params={"node": NodeT},
    lets={"INV": "self.get_involved(node)"},
    requires=["len(node) != 1 and len(node) != self.N", "subset(keys(INV), keys(self.appearances))"],
    returns=LegsT,
    externals={"ContractionTree.get_involved": _per_node_map("involved")},
    ensures=[
        # an index survives iff its count inside the subtree is below its global count
        "forall(lambda k: (k in result) == (k in INV and INV[k] < self.appearances[k]))",
        "forall(keys(result), lambda k: result[k] == INV[k])",
    ],
    assumptions=["get_involved(node) is a fixed map per node that does not raise (the KeyError fall-back recomputes the same union from the leaves)"],
)

legs_root = Contract(
    target="cotengra.core:ContractionTree.get_legs",
    variant="root",
    props=["C03", "C18", "C01"],
    self_type=TreeT,
    params={"node": NodeT},
    requires=["len(node) == self.N and self.N != 1"],
    returns=LegsT,
    ensures=[
        "forall(lambda k: (k in result) == (exists(0, len(self.output), lambda p: self.output[p] == k) and not (k in self.sliced_inds)))",
        "forall(keys(result), lambda k: result[k] == 0)",
    ],
)

involved = Contract(
    target="cotengra.core:ContractionTree.get_involved",
    variant="intermediate",
    props=["C03", "C18"],
    self_type=TreeT,
    params={"node": NodeT},
    lets={"LL": "self.get_legs(self.children[node][0])", "LR": "self.get_legs(self.children[node][1])"},
    requires=["len(node) != 1", "node in self.children"],
    returns=LegsT,
    externals={"ContractionTree.get_legs": _per_node_map("legs"), "map": None},
    ensures=[
        "keys(result) == union(keys(LL), keys(LR))",
        "forall(lambda k: get(result, k, 0) == get(LL, k, 0) + get(LR, k, 0))",
    ],
    assumptions=["get_legs(child) is a fixed map per node"],
)


def _map_legs(engine, st, _a, node, kw):
    import ast
    from ..pyvc.engine import Unsupported

    f, seq = node.args
    if isinstance(f, ast.Attribute) and f.attr == "get_legs":
        sv = engine.deref(st, engine.eval(st, seq))
        ext = involved.externals["ContractionTree.get_legs"]
        return Ty.mk_tuple([engine.unbox_value(st, ext(engine, st, [None, engine.box(st, p)], node, {})) for p in Ty.split(sv.t, sv.c)])
    raise Unsupported("map() of another function")


_map_legs.raw = True
involved.externals["map"] = _map_legs

size = Contract(
    target="cotengra.core:ContractionTree.get_size",
    props=["C03", "C18"],
    self_type=TreeT,
    params={"node": NodeT},
    lets={"LG": "self.get_legs(node)"},
    requires=["subset(keys(LG), keys(self.size_dict))"],
    returns=Ty.Int,
    externals={"ContractionTree.get_legs": _per_node_map("legs")},
    ensures=["result == prodset(keys(LG), self.size_dict)"],
)

flops = Contract(
    target="cotengra.core:ContractionTree.get_flops",
    props=["C03", "C18"],
    self_type=TreeT,
    params={"node": NodeT},
    lets={"INV": "self.get_involved(node)"},
    requires=["subset(keys(INV), keys(self.size_dict))"],
    returns=Ty.Int,
    externals={"ContractionTree.get_involved": _per_node_map("involved")},
    ensures=[
        "implies(len(node) == 1, result == 0)",
        "implies(len(node) != 1, result == prodset(keys(INV), self.size_dict))",
    ],
)

CONTRACTS = [size_by_dict, legs_mid, legs_root, involved, size, flops]


# ---------------------------------------------------------------- generators
def _tree(rng, nmin=3):
    import cotengra as ctg
    from ..scope import random_tree_ssa

    n = rng.randint(nmin, 6)
    con = ctg.utils.rand_equation(n, 3, n_out=rng.randint(0, 2), n_hyper_in=rng.randint(0, 1), n_hyper_out=rng.randint(0, 1), seed=rng.randint(0, 10**6), d_min=2, d_max=4)
    tree = ctg.ContractionTree.from_path(con.inputs, con.output, con.size_dict, ssa_path=random_tree_ssa(n, rng))
    if rng.random() < 0.4:
        tree.remove_ind_(rng.choice(sorted(tree.size_dict)))
    return tree, con


def _gen_node(kind):
    def gen(rng):
        tree, con = _tree(rng)
        if kind == "mid":
            c = [x for x in tree.children if len(x) != tree.N]
            if not c:
                return None
            node = rng.choice(c)
        elif kind == "root":
            node = tree.root
        elif kind == "nonleaf":
            node = rng.choice(list(tree.children))
        else:
            node = rng.choice(list(tree.info))
        return {"self": tree, "args": (node,), "universe": list(con.size_dict), "describe": f"{con.inputs}->{con.output} sizes {con.size_dict} path {tree.get_path()} sliced {list(tree.sliced_inds)} node {sorted(node)}"}

    return gen


legs_mid.gen = _gen_node("mid")
legs_root.gen = _gen_node("root")
involved.gen = _gen_node("nonleaf")
size.gen = _gen_node("any")
flops.gen = _gen_node("any")


def _gen_sbd(rng):
    tree, con = _tree(rng)
    node = rng.choice(list(tree.info))
    return {"args": (dict(tree.get_legs(node)), dict(tree.size_dict)), "universe": list(con.size_dict), "describe": f"legs {tree.get_legs(node)} sizes {tree.size_dict}"}


size_by_dict.gen = _gen_sbd
for _c in (legs_mid, legs_root, involved, size, flops):
    _c.pre_must_hold = True  # inputs are real trees built through the public API


# ------------------------------------------------------------ compute_leaf_legs
# C01: which indices an input tensor presents to the tree, and when a
# single-tensor preprocessing step (diagonal / immediate sum) is registered:
# both are functions of how often the index occurs on the tensor versus in the
# whole contraction.
LeafT = ObjT(
    "ContractionTree",
    {"inputs": Ty.List(Ty.List(Key)), "sliced_inds": Ty.Map(Key, Key), "appearances": LegsT, "preprocessing": Ty.Map(Ty.Int, Key)},
)


def _eq_of(engine, st, args, node, kw):
    return V(Key, [engine.fresh(st, "preproc_eq", node, Ty.IntS)])


CNT = "count_in(self.inputs[i], {k}, len(self.inputs[i]))"
leaf_legs = Contract(
    target="cotengra.core:ContractionTree.compute_leaf_legs",
    variant="unsliced",
    props=["C01", "C03"],
    self_type=LeafT,
    params={"i": Ty.Int},
    requires=[
        "0 <= i and i < len(self.inputs)",
        "keys(self.sliced_inds) == empty()",
        "forall(0, len(self.inputs[i]), lambda p: self.inputs[i][p] in self.appearances)",
    ],
    returns=LegsT,
    externals={"inputs_output_to_eq": _eq_of},
    modifies=["self.preprocessing"],
    nloops=1,
    loops={
        0: Loop(
            pos="t",
            inv=[
                "forall(lambda k: get(legs, k, 0) == count_in(self.inputs[i], k, t))",
                "forall(lambda k: (k in legs) == (count_in(self.inputs[i], k, t) >= 1))",
            ],
        )
    },
    hints={"legs": LegsT},
    ensures=[
        # an index is presented iff it occurs on the tensor and is not exhausted there
        f"forall(lambda k: (k in result) == ({CNT.format(k='k')} >= 1 and {CNT.format(k='k')} != get(self.appearances, k, 0)))",
        f"forall(keys(result), lambda k: result[k] == {CNT.format(k='k')})",
        # an index exhausted on this tensor (summed immediately) always registers a preprocessing step
        # (the other trigger, a repeated index, is tested by the code through len(term) != len(legs):
        #  a counting argument left to the bounded drivers)
        f"implies(exists(0, len(self.inputs[i]), lambda p: {CNT.format(k='self.inputs[i][p]')} == self.appearances[self.inputs[i][p]]), i in self.preprocessing)",
        "implies(i in old(self.preprocessing), i in self.preprocessing)",
        "forall(keys(self.preprocessing), lambda j: implies(j != i, j in old(self.preprocessing) and self.preprocessing[j] == old(self.preprocessing[j])))",
    ],
    assumptions=["unsliced tree (the sliced variant filters the term first; covered by the bounded drivers)", "inputs_output_to_eq returns some equation string"],
)
CONTRACTS.append(leaf_legs)


def _gen_leaf(rng):
    import cotengra as ctg

    n = rng.randint(2, 5)
    con = ctg.utils.rand_equation(n, 3, n_out=rng.randint(0, 2), n_hyper_in=rng.randint(0, 1), n_hyper_out=rng.randint(0, 1), seed=rng.randint(0, 10**6)) if n >= 3 else None
    if con is None or rng.random() < 0.4:
        inputs = [("a", "a", "b"), ("b", "c", "d"), ("d", "e")][: max(n, 2)]
        output, sd = ("c",), {x: 2 for x in "abcde"}
    else:
        inputs, output, sd = con.inputs, con.output, con.size_dict
    tree = ctg.ContractionTree(inputs, output, sd)
    i = rng.randrange(tree.N)
    return {"self": tree, "args": (i,), "universe": list(sd) + list(range(tree.N)), "describe": f"{inputs}->{output} leaf {i}"}


leaf_legs.gen = _gen_leaf
leaf_legs.pre_must_hold = True


# ------------------------------------------------------------------ can_dot
def _map_legs3(engine, st, _a, node, kw):
    import ast
    from ..pyvc.engine import Unsupported

    f, seq = node.args
    if isinstance(f, ast.Attribute) and f.attr == "get_legs":
        sv = engine.deref(st, engine.eval(st, seq))
        ext = _per_node_map("legs")
        return Ty.mk_tuple([engine.unbox_value(st, ext(engine, st, [None, engine.box(st, p)], node, {})) for p in Ty.split(sv.t, sv.c)])
    raise Unsupported("map() of another function")


_map_legs3.raw = True

can_dot = Contract(
    target="cotengra.core:ContractionTree.get_can_dot",
    props=["C01", "C11"],
    self_type=TreeT,
    params={"node": NodeT},
    lets={"SP": "self.get_legs(node)", "SL": "self.get_legs(self.children[node][0])", "SR": "self.get_legs(self.children[node][1])"},
    requires=["node in self.children"],
    returns=Ty.Bool,
    externals={"ContractionTree.get_legs": _per_node_map("legs"), "map": _map_legs3},
    ensures=[
        # tensordot is chosen exactly when every index is either kept from one side or shared and summed:
        # no index is both shared and kept (batch), none is dropped from one side only (single-tensor sum)
        "result == forall(lambda k: (k in SP) == ((k in SL) != (k in SR)))",
    ],
    assumptions=["get_legs(node) is a fixed map per node"],
)
can_dot.gen = _gen_node("nonleaf")
can_dot.pre_must_hold = True
CONTRACTS.append(can_dot)
