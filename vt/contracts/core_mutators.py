"""Contracts for the small tree mutators (C01, C02, C04):
ContractionTree._add_node, _update_tracked, _remove_node, contract_nodes_pair.

Nodes are frozensets of input positions (Set(Int)); as dict keys they go
through an injective id.  info[node] is a string-keyed dict of optional cached
entries.  get_flops/get_size are pure functions of the node while a mutator
runs (cached node properties)."""

import z3

from ..pyvc import types as Ty
from ..pyvc.contract import Contract
from ..pyvc.engine import ObjT
from ..pyvc.types import V, Int
from .utils_maxcounter import MaxCounterT, WF as MC_WF

NodeT = Ty.Set(Ty.Int)
LegsT = Ty.Map(Ty.Key, Ty.Int)
INFO_FIELDS = {
    "legs": LegsT, "involved": LegsT, "size": Ty.Int, "flops": Ty.Int, "inds": Ty.Key,
    "einsum_eq": Ty.Key, "can_dot": Ty.Bool, "tensordot_axes": Ty.Key, "tensordot_perm": Ty.Key,
}
InfoT = Ty.SDict(INFO_FIELDS)
TreeT = ObjT(
    "ContractionTree",
    {
        "N": Ty.Int, "info": Ty.Map(Ty.Key, InfoT), "children": Ty.Map(Ty.Key, Ty.Tuple([NodeT, NodeT])),
        "preprocessing": Ty.Map(Ty.Int, Ty.Key), "track_childless": Ty.Bool, "childless": Ty.Set(Ty.Key),
        "_track_flops": Ty.Bool, "_track_write": Ty.Bool, "_track_size": Ty.Bool,
        "_flops": Ty.Int, "_write": Ty.Int, "_sizes": MaxCounterT,
    },
)
SIZES_WF = MC_WF.replace("self.", "self._sizes.")


def _uf_node(name, lo):
    def ext(engine, st, args, node, kwargs):
        key = f"uf!{name}"
        if key not in engine.specfns:
            engine.specfns[key] = (z3.Function(key, Ty.IntS, Ty.IntS), [], Int, None)
        r = engine.specfns[key][0](engine.keyterm(engine.deref(st, args[-1])))
        st.assume(r >= lo)
        return V(Int, [r])

    return ext


EXT = {
    "ContractionTree.get_flops": _uf_node("flops", 0),
    "ContractionTree.get_size": _uf_node("size", 1),
    "node_get_single_el": _uf_node("single_el", 0),
}
ASSUME = ["get_flops/get_size are pure (>= 0 / >= 1) functions of the node while the mutator runs; check=False"]
common = dict(self_type=TreeT, externals=EXT, assumptions=ASSUME)
NOFIELD = " and ".join(f"not ('{k}' in self.info[node])" for k in INFO_FIELDS)
COUNT = "get(self._sizes._c, k, 0)"
FLAGS_SAME = "self._track_flops == old(self._track_flops) and self._track_write == old(self._track_write) and self._track_size == old(self._track_size)"

add_node = Contract(
    target="cotengra.core:ContractionTree._add_node",
    props=["C02", "C04"],
    params={"node": NodeT, "check": Ty.Bool},
    requires=["not check"],
    modifies=["self.info"],
    ensures=[
        "node in self.info",
        "forall(lambda k: implies(k in old(keys(self.info)), k in self.info and self.info[k] == old(self.info[k])))",
        "keys(self.info) == with_key(old(keys(self.info)), node)",
        f"implies(not old(node in self.info), {NOFIELD})",
    ],
    **common,
)

update_tracked = Contract(
    target="cotengra.core:ContractionTree._update_tracked",
    props=["C04"],
    params={"node": NodeT},
    requires=[SIZES_WF],
    modifies=["self._flops", "self._write", "self._sizes"],
    ensures=[
        SIZES_WF, FLAGS_SAME,
        "self._flops == old(self._flops) + (self.get_flops(node) if self._track_flops else 0)",
        "self._write == old(self._write) + (self.get_size(node) if self._track_write else 0)",
        f"forall(lambda k: {COUNT} == old({COUNT}) + (1 if (self._track_size and k == self.get_size(node)) else 0))",
    ],
    **common,
)

remove_node = Contract(
    target="cotengra.core:ContractionTree._remove_node",
    props=["C02", "C04"],
    params={"node": NodeT},
    requires=[
        SIZES_WF, "len(node) >= 1", "node in self.info",
        "implies(len(node) != 1, node in self.children)",
    ],
    modifies=["self.info", "self.children", "self.preprocessing", "self._flops", "self._write", "self._sizes"],
    ensures=[
        SIZES_WF, FLAGS_SAME,
        # leaves and the root always keep a (now empty) info entry; other nodes vanish
        f"implies(len(node) == 1 or len(node) == self.N, node in self.info and {NOFIELD})",
        "implies(len(node) != 1 and len(node) != self.N, not (node in self.info))",
        "forall(lambda k: implies(k in old(keys(self.info)) and not same_node(k, node), k in self.info and self.info[k] == old(self.info[k])))",
        # only intermediates have children and contribute to the tracked totals
        "implies(len(node) != 1, not (node in self.children))",
        "implies(len(node) == 1, keys(self.children) == old(keys(self.children)) and self._flops == old(self._flops) and self._write == old(self._write))",
        "implies(len(node) != 1, self._flops == old(self._flops) - (old(self.get_flops(node)) if self._track_flops else 0))",
        "implies(len(node) != 1, self._write == old(self._write) - (old(self.get_size(node)) if self._track_write else 0))",
        f"implies(len(node) != 1, forall(lambda k: {COUNT} == old({COUNT}) - (1 if (self._track_size and k == old(self.get_size(node)) and old({COUNT}) >= 1) else 0)))",
        f"implies(len(node) == 1, forall(lambda k: {COUNT} == old({COUNT})))",
        # a leaf loses its preprocessing step
        "implies(len(node) == 1, not (node_get_single_el(node) in self.preprocessing))",
    ],
    **common,
)

CONTRACTS = [add_node, update_tracked, remove_node]


PAIR_FRAME = "forall(lambda k: implies(k in old(keys(self.children)) and not same_node(k, result), k in self.children and self.children[k] == old(self.children[k])))"
contract_nodes_pair = Contract(
    target="cotengra.core:ContractionTree.contract_nodes_pair",
    props=["C01", "C02", "C04"],
    params={"x": NodeT, "y": NodeT, "legs": Ty.Opt(LegsT), "cost": Ty.Opt(Ty.Int), "size": Ty.Opt(Ty.Int), "check": Ty.Bool},
    requires=[SIZES_WF, "not check", "len(x) >= 1 and len(y) >= 1", "x != empty() and y != empty()"],
    returns=NodeT,
    modifies=["self.info", "self.children", "self.childless", "self._flops", "self._write", "self._sizes"],
    ensures=[
        SIZES_WF, FLAGS_SAME,
        # the new parent is the union of the two nodes and gets exactly them as children
        "result == union(x, y)",
        "result in self.children and ((self.children[result][0] == x and self.children[result][1] == y) or (self.children[result][0] == y and self.children[result][1] == x))",
        # heavier subtree on the left
        PAIR_FRAME,
        "x in self.info and y in self.info and result in self.info",
        # precomputed legs are installed for intermediates only: root legs are always the
        # declared output in order (what simulated annealing relies on)
        "implies(legs is not None and len(result) != self.N, 'legs' in self.info[result] and self.info[result]['legs'] == unopt(legs))",
        "implies(len(result) == self.N, ('legs' in self.info[result]) == old(result in self.info and 'legs' in self.info[result]))",
        # ... and if the root's legs were already cached they are left exactly as they were
        "implies(len(result) == self.N and old(result in self.info and 'legs' in self.info[result]), self.info[result]['legs'] == old(self.info[result]['legs']))",
        "implies(cost is not None, 'flops' in self.info[result] and self.info[result]['flops'] == unopt(cost))",
        "implies(size is not None, 'size' in self.info[result] and self.info[result]['size'] == unopt(size))",
        # the tracked totals move by exactly the new node's figures
        "self._flops == old(self._flops) + (self.get_flops(result) if self._track_flops else 0)",
        "self._write == old(self._write) + (self.get_size(result) if self._track_write else 0)",
        f"forall(lambda k: {COUNT} == old({COUNT}) + (1 if (self._track_size and k == self.get_size(result)) else 0))",
    ],
    **common,
)
CONTRACTS.append(contract_nodes_pair)


# ---------------------------------------------------------------- generators
def _partial_tree(rng):
    import cotengra as ctg
    from cotengra.utils import node_get_single_el

    n = rng.randint(2, 6)
    con = ctg.utils.rand_equation(n, 3, n_out=rng.randint(0, 2), n_hyper_in=(rng.randint(0, 1) if n >= 3 else 0), seed=rng.randint(0, 10**6))
    tree = ctg.ContractionTree(con.inputs, con.output, con.size_dict, track_flops=True, track_write=True, track_size=True,
                               track_childless=rng.random() < 0.5)
    nodes = list(tree.gen_leaves())
    for _ in range(rng.randint(0, n - 2)):
        a, b = rng.sample(nodes, 2)
        nodes.remove(a)
        nodes.remove(b)
        nodes.append(tree.contract_nodes_pair(a, b))
    universe = list(tree.info) + list(range(0, 40)) + [s for s in {tree.get_size(nd) for nd in tree.info}]
    return con, tree, nodes, universe


def _gen_pair(rng):
    from cotengra.pathfinders.path_simulated_annealing import compute_contracted_info

    con, tree, nodes, universe = _partial_tree(rng)
    if len(nodes) < 2:
        return None
    x, y = rng.sample(nodes, 2)
    legs = cost = size = None
    if rng.random() < 0.5:
        legs, cost, size = compute_contracted_info(tree.get_legs(x), tree.get_legs(y), tree.appearances, tree.size_dict)
        if rng.random() < 0.3:
            legs = None
    universe = universe + [x | y]
    return {"self": tree, "args": (x, y), "kwargs": {"legs": legs, "cost": cost, "size": size}, "universe": universe,
            "describe": f"{con.inputs}->{con.output} nodes={[sorted(nd) for nd in nodes]} x={sorted(x)} y={sorted(y)} precomputed={legs is not None, cost is not None}"}


def _gen_node(kind):
    def gen(rng):
        con, tree, nodes, universe = _partial_tree(rng)
        cands = list(tree.info)
        if kind == "tracked":
            cands = list(tree.children)
            if not cands:
                return None
        if kind == "remove":
            # a node can only be removed if nothing is built on top of it
            parents = {c for lr in tree.children.values() for c in lr}
            cands = [nd for nd in cands if (len(nd) == 1 or nd in tree.children)]
        node = rng.choice(cands)
        if kind == "tracked" and len(node) == 1:
            return None
        if kind == "add":
            node = rng.choice(cands + [frozenset(rng.sample(range(tree.N), rng.randint(1, tree.N)))])
            return {"self": tree, "args": (node, False), "universe": universe + [node], "describe": f"node={sorted(node)}"}
        return {"self": tree, "args": (node,), "universe": universe, "describe": f"{con.inputs}->{con.output} node={sorted(node)}"}

    return gen


def _natives():
    from cotengra.utils import node_get_single_el

    return {"node_get_single_el": node_get_single_el}


for _c in CONTRACTS:
    _c.natives = _natives()
add_node.gen = _gen_node("add")
update_tracked.gen = _gen_node("tracked")
remove_node.gen = _gen_node("remove")
contract_nodes_pair.gen = _gen_pair
contract_nodes_pair.defaults = {"legs": "None", "cost": "None", "size": "None", "check": "False"}
add_node.defaults = {"check": "False"}

# natively the ORDER of the root's legs matters too (it is the declared output order): a dict comparison would not see it
contract_nodes_pair.ensures_rt = list(getattr(contract_nodes_pair, "ensures_rt", [])) + [
    "implies(len(result) == self.N and 'legs' in self.info[result], list(self.info[result]['legs']) == [ix for ix in self.output if ix not in self.sliced_inds])",
]
