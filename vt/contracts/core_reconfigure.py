"""C17 (seed discipline) and C02 (recipes reset after restructuring) on
ContractionTree.subtree_reconfigure, in place, with an integer seed.

Proved:
  * every random choice is drawn from a generator created from the `seed`
    argument: whenever get_subtree is asked for a 'random' search it is handed a
    generator (never None, which would mean the global `random` module), and
    `rng.choices` is only reached with a generator created by get_rng(seed);
  * on return the explicit index orders and every recipe derived from them are
    reset for every intermediate node (the last action is
    reset_contraction_indices, whose own contract is proved).
Everything else the method does (scoring, cost caps, re-optimising a subtree)
is abstracted: arbitrary values / arbitrary restructuring of the tree."""

import z3

from ..pyvc import types as Ty
from ..pyvc.contract import Contract, Loop
from ..pyvc.engine import ObjT, Obj, Ref, Unsupported
from ..pyvc.types import V, Int, Key, Bool
from .core_remove_ind import TreeT as RTreeT, NOREC5

TreeT = ObjT("ContractionTree", dict(RTreeT.fields, already_optimized=Ty.Map(Key, Ty.Set(Key))))
RngT = ObjT("Random", {"seed": Ty.Int})
NodeL = Ty.List(Key)


def x_get_rng(engine, st, args, node, kw):
    """utils.get_rng(seed) for an integer seed: a fresh private generator (its proved contract, misc_small)"""
    ob = Obj("Random", {"seed": args[0]})
    i = engine.new_id()
    st.heap[i] = ob
    return Ref(i, RngT)


def x_none(engine, st, args, node, kw):
    return Ty.mk_none()


def x_key(engine, st, args, node, kw):
    return V(Key, [engine.fresh(st, "opaque", node, Ty.IntS)])


def x_candidates(engine, st, args, node, kw):
    return Ty.mk_tuple([Ty.havoc(NodeL, f"cands@{engine.line(node)}"), Ty.havoc(Ty.List(Int), f"weights@{engine.line(node)}")])


def x_choices(engine, st, args, node, kw):
    """rng.choices(population, weights=...): one element of the population"""
    rng = engine.deref(st, args[0])
    if not (isinstance(rng, Obj) and rng.cls == "Random"):
        raise Unsupported("choices() on something that is not a generator")
    pop = engine.deref(st, args[1])
    r = engine.fresh(st, "choice", node, Ty.IntS)
    st.assume(z3.And(0 <= r, r < pop.c[0]))
    return Ty.mk_tuple([V(Int, [pop.c[1][r]])])


def x_get_subtree(engine, st, args, node, kw):
    """tree.get_subtree(root, size=, search=, seed=): assumed contract - a 'random' search draws from `seed`,
    which therefore must be a generator (None would be the global random module)"""
    search = kw.get("search")
    sd = kw.get("seed")
    is_random = engine.equal(st, search, engine.e_Constant(st, __import__("ast").Constant(value="random")))
    sdv = engine.deref(st, sd) if sd is not None else None
    has_gen = z3.BoolVal(isinstance(sdv, Obj) and sdv.cls == "Random")
    engine.oblige(st, z3.Implies(is_random, has_gen),
                  f"get_subtree(search='random') at line {engine.line(node)} is given a generator created from the seed argument (not None = the global RNG)", "call-pre", node)
    return Ty.mk_tuple([Ty.havoc(NodeL, f"leaves@{engine.line(node)}"), Ty.havoc(NodeL, f"branches@{engine.line(node)}")])


def x_contract_nodes(engine, st, args, node, kw):
    """tree.contract_nodes(...): arbitrary restructuring; every intermediate node has an info entry afterwards"""
    tree = engine.deref(st, args[0])
    for fld in ("info", "children"):
        ref = tree.fields[fld]
        cur = engine.deref(st, ref)
        st.heap[ref.id] = Ty.havoc(cur.t, f"{fld}@{engine.line(node)}")
    info = engine.deref(st, tree.fields["info"])
    ch = engine.deref(st, tree.fields["children"])
    k = z3.Int("cn!k")
    st.assume(z3.ForAll([k], z3.Implies(ch.c[0][k], info.c[0][k])))
    return Ty.mk_none()


x_contract_nodes.modifies = ["self.info", "self.children"]

reconf = Contract(
    target="cotengra.core:ContractionTree.subtree_reconfigure",
    variant="inplace-int-seed",
    props=["C17", "C02"],
    self_type=TreeT,
    params={"subtree_size": Ty.Int, "subtree_search": Key, "weight_what": Key, "weight_pwr": Ty.Int, "select": Key, "maxiter": Ty.Int,
            "seed": Ty.Int, "minimize": Key, "optimize": Key, "inplace": Ty.Bool, "progbar": Ty.Bool},
    requires=["inplace", "not progbar", "forall(keys(self.children), lambda n: n in self.info)"],
    returns=TreeT,
    externals={
        "get_rng": x_get_rng, "ContractionTree.contract_stats": x_none, "get_score_fn": x_key,
        "ContractionTree.calc_subtree_candidates": x_candidates, "Random.choices": x_choices,
        "ContractionTree.get_subtree": x_get_subtree, "ContractionTree.contract_nodes": x_contract_nodes,
    },
    modifies=["self"],
    hints={"node_cost": Key, "weights": Ty.List(Int), "candidates": NodeL, "sub_root": Key, "current_cost": Ty.Int, "node": Key, "i": Ty.Int},
    nloops=None,
    loops={0: Loop(inv=["forall(keys(self.children), lambda n: n in self.info)"])},
    ensures=[
        # the explicit index orders and all recipes are reset for every intermediate node
        "forall(keys(self.children), lambda n: " + NOREC5 + ")",
        "keys(self.contraction_cores) == empty()",
    ],
    assumptions=["in place, integer seed, explicit objective and sub-optimizer; scoring, the cost cap and the re-optimisation of a subtree are abstracted;"
                 " get_rng(int) returns a fresh private generator (proved in misc_small); get_subtree draws from its `seed` argument when search == 'random'"],
)
reconf.abstract_stmts = {
    "node_cost = getattr(": ["node_cost"],
    "weights.pop(i)": ["weights"],
    "sub_root = candidates.pop(i)": ["candidates", "sub_root"],
    "current_cost = node_cost(": ["current_cost"],
    "for node in sub_branches:": ["current_cost", "node", "tree.info", "tree.children", "tree._flops", "tree._write", "tree._sizes"],
    "opt.cost_cap = ": ["opt.cost_cap"],
}
CONTRACTS = [reconf]

import random as _random  # noqa: E402

reconf.natives = {"random": _random}
reconf.ghost = {"RS": (Key, "random.getstate()")}
reconf.ensures_rt = [
    # with an integer seed the global generator of the `random` module is never consulted
    "random.getstate() == RS",
]


def _gen(rng):
    import cotengra as ctg
    from ..scope import random_tree_ssa

    n = rng.randint(4, 8)
    con = ctg.utils.rand_equation(n, 3, n_out=rng.randint(0, 2), seed=rng.randint(0, 10**6), d_min=2, d_max=3)
    tree = ctg.ContractionTree.from_path(con.inputs, con.output, con.size_dict, ssa_path=random_tree_ssa(n, rng))
    if rng.random() < 0.5:
        tree.sort_contraction_indices()
        tree.get_contractor()
    search = rng.choice(("random", "random", "bfs", "dfs"))
    select = rng.choice(("max", "min", "random"))
    opt = ctg.pathfinders.path_basic.OptimalOptimizer(minimize="flops")
    args = (rng.randint(2, 4), search, "flops", 2, select, rng.randint(1, 4), rng.randint(0, 10**6), "flops", opt, True, False)
    return {"self": tree, "args": args, "universe": list(tree.info),
            "describe": f"{con.inputs}->{con.output} path {tree.get_path()} subtree_search={search} select={select} seed={args[6]}"}


reconf.gen = _gen
