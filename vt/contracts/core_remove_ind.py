"""C02 / C03 / C04: ContractionTree.remove_ind (slicing an index), in place.

What is proved (variant inplace=True, project=None, index not sliced yet, the
per-node caches already populated - remove_ind populates them itself first):
  * per intermediate node whose contraction involves the index: `involved` and
    (if present there) `legs` lose it, flops and size are divided by its size,
    and every index-order recipe of the node is dropped;
  * nodes not involving the index keep their cached figures;
  * every recipe that depends on a modified node's index order is dropped: the
    parent of every modified node is 'cleared', and the cleared set is closed
    under taking parents (so all ancestors are);
  * multiplicity is multiplied by the size, the index is recorded as sliced,
    the compiled contractors are discarded.
Not proved here: the running totals (_flops, _write, _sizes: a sum over the
unordered visit - C04's bounded driver compares them with a rebuild) and the
leaf branch beyond what _remove_node's own (proved) contract gives.

Nodes are opaque keys in this contract; `len(node) == 1` is the predicate
'is a leaf'.  The cached getters read the per-node cache (they are
`cached_node_property`s and the cache is populated at this point)."""

import z3

from ..pyvc import types as Ty
from ..pyvc.contract import Contract, Loop
from ..pyvc.engine import ObjT, Unsupported
from ..pyvc.types import V, Int, Key, Bool
from .core_mutators import INFO_FIELDS, InfoT, LegsT
from .utils_maxcounter import MaxCounterT, WF as MC_WF

TreeT = ObjT(
    "ContractionTree",
    {
        "N": Ty.Int, "info": Ty.Map(Key, InfoT), "children": Ty.Map(Key, Ty.Tuple([Key, Key])),
        "inputs": Ty.List(Ty.List(Key)), "output": Ty.List(Key), "size_dict": Ty.Map(Key, Int),
        "sliced_inds": Ty.Map(Key, Key), "sliced_inputs": Ty.Set(Int), "multiplicity": Ty.Int,
        "_flops": Ty.Int, "_write": Ty.Int, "_sizes": MaxCounterT,
        "already_optimized": Ty.Map(Key, Key), "contraction_cores": Ty.Map(Key, Key),
    },
)
RECIPES5 = ("inds", "einsum_eq", "can_dot", "tensordot_axes", "tensordot_perm")
RECIPES4 = RECIPES5[1:]
SIZES_WF = MC_WF.replace("self.", "self._sizes.")


def _uf(name, ret=Ty.IntS):
    def ext(engine, st, args, node, kw):
        key = f"uf!{name}"
        if key not in engine.specfns:
            engine.specfns[key] = (z3.Function(key, Ty.IntS, ret), [], Int, None)
        r = engine.specfns[key][0](engine.keyterm(engine.deref(st, args[-1])))
        return V(Bool if ret == Ty.BoolS else Int, [r])

    return ext


def x_len(engine, st, _a, node, kw):
    v = engine.deref(st, engine.eval(st, node.args[0]))
    if isinstance(v, V) and type(v.t) is type(Key):
        leaf = _uf("is_leaf", Ty.BoolS)(engine, st, [engine.eval(st, node.args[0])], node, {})
        return V(Int, [z3.If(leaf.term, 1, 2)])
    return None


x_len.raw = True


def _cached(field):
    """tree.get_<field>(node): the cached entry info[node][field] (present: the cache is populated)"""

    def ext(engine, st, args, node, kw):
        tree = engine.deref(st, args[0])
        info = engine.deref(st, tree.fields["info"])
        nd = engine.keyterm(engine.deref(st, args[-1]))
        off = InfoT.offsets()[field]
        rec = engine.mapval(info, nd)
        engine.oblige(st, z3.And(info.c[0][nd], rec.c[off[0]]), f"cached '{field}' of the node is populated at line {engine.line(node)}", "call-pre", node)
        val = V(off[3], rec.c[off[1]:off[2]])
        return engine.alloc(st, val) if off[3].mutable else val

    return ext


def x_none(engine, st, args, node, kw):
    return Ty.mk_none()


def x_sliceinfo(engine, st, args, node, kw):
    """SliceInfo(inner, ind, size, project): an opaque record with those attributes"""
    r = engine.fresh(st, "sliceinfo", node, Ty.IntS)
    rk = V(Key, [r])
    st.assume(_uf("si_ind")(engine, st, [rk], node, {}).term == engine.keyterm(engine.deref(st, args[1])))
    st.assume(_uf("si_size")(engine, st, [rk], node, {}).term == engine.num(args[2]))
    pj = args[3]
    isnone = _uf("si_noproject", Ty.BoolS)(engine, st, [rk], node, {}).term
    if isinstance(pj, V) and isinstance(pj.t, Ty._None):
        st.assume(isnone)
    else:
        st.assume(z3.Not(isnone))
        st.assume(_uf("si_project")(engine, st, [rk], node, {}).term == engine.num(pj))
    return rk


def x_size_attr(engine, st, args, node, kw):
    return V(Int, [_uf("si_size")(engine, st, [args[0]], node, {}).term])


def x_project_attr(engine, st, args, node, kw):
    rk = args[0]
    isnone = _uf("si_noproject", Ty.BoolS)(engine, st, [rk], node, {}).term
    return V(Ty.Opt(Int), [isnone, _uf("si_project")(engine, st, [rk], node, {}).term])


def x_ind_attr(engine, st, args, node, kw):
    return V(Key, [_uf("si_ind")(engine, st, [args[0]], node, {}).term])


def x_sorted(engine, st, _a, node, kw):
    """sorted((*old_infos, si)): some arrangement of exactly those records"""
    import ast

    arg = node.args[0]
    if not (isinstance(arg, ast.Tuple) and len(arg.elts) == 2 and isinstance(arg.elts[0], ast.Starred)):
        raise Unsupported("sorted() in another form")
    olds = engine.deref(st, engine.eval(st, arg.elts[0].value.func.value))  # tree.sliced_inds
    si = engine.keyterm(engine.deref(st, engine.eval(st, arg.elts[1])))
    out = Ty.havoc(Ty.List(Key), f"sorted@{engine.line(node)}")
    m, b = out.c
    k, q = z3.Ints("so!k so!q")
    where = z3.Function(f"so!where!{engine.new_id()}", Ty.IntS, Ty.IntS)
    st.assume(m >= 1)
    # every old record and the new one occur; nothing else does
    st.assume(z3.ForAll([k], z3.Implies(olds.c[0][k], z3.And(0 <= where(k), where(k) < m, b[where(k)] == olds.c[1][k])), patterns=[olds.c[1][k]]))
    sp = engine.fresh(st, "sipos", node, Ty.IntS)
    st.assume(z3.And(0 <= sp, sp < m, b[sp] == si))
    src = z3.Function(f"so!src!{engine.new_id()}", Ty.IntS, Ty.IntS)
    st.assume(z3.ForAll([q], z3.Implies(z3.And(0 <= q, q < m), z3.Or(b[q] == si, z3.And(olds.c[0][src(q)], olds.c[1][src(q)] == b[q]))), patterns=[b[q]]))
    return engine.alloc(st, out)


x_sorted.raw = True


def x_remove_leaf(engine, st, args, node, kw):
    """tree._remove_node(leaf): by its proved contract (core_mutators) a leaf keeps its (emptied) info entry;
    here: the entry is havoc'd, every other entry is untouched."""
    tree_ref = args[0]
    tree = engine.deref(st, tree_ref)
    iref = tree.fields["info"]
    info = engine.deref(st, iref)
    nd = engine.keyterm(engine.deref(st, args[1]))
    fresh = Ty.sdict_empty(InfoT, "cleared")
    st.heap[iref.id] = V(info.t, [info.c[0]] + [z3.Store(a, nd, c) for a, c in zip(info.c[1:], fresh.c)])
    return Ty.mk_none()


EXT = {
    "len": x_len, "ContractionTree.contract_stats": x_none, "ContractionTree.get_involved": _cached("involved"),
    "ContractionTree.get_legs": _cached("legs"), "ContractionTree.get_flops": _cached("flops"), "ContractionTree.get_size": _cached("size"),
    "SliceInfo": x_sliceinfo, "*.attr:ind": x_ind_attr, "*.attr:size": x_size_attr, "*.attr:project": x_project_attr, "sorted": x_sorted, "node_get_single_el": _uf("single_el"),
    "ContractionTree._remove_node": x_remove_leaf, "is_leaf": _uf("is_leaf", Ty.BoolS), "parent_of": _uf("parent_of"), "has_parent": _uf("has_parent", Ty.BoolS),
}
POPULATED = ("forall(keys(self.info), lambda n: implies(not is_leaf(n), 'involved' in self.info[n] and 'legs' in self.info[n]"
             " and 'flops' in self.info[n] and 'size' in self.info[n]))")

D = "old(self.size_dict[ind])"
OI = "old(self.info)[n]"
NOREC5 = " and ".join(f"not ('{k}' in self.info[n])" for k in RECIPES5)
NOREC4 = " and ".join(f"not ('{k}' in self.info[q])" for k in RECIPES4)
INVOLVES = f"(not is_leaf(n) and ind in {OI}['involved'])"
# the per-node effect on a node whose contraction involves the index
NODE_EFFECT = (
    f"keys(self.info[n]['involved']) == without_key(keys({OI}['involved']), ind)"
    f" and forall(keys(self.info[n]['involved']), lambda k: self.info[n]['involved'][k] == {OI}['involved'][k])"
    f" and self.info[n]['flops'] == {OI}['flops'] // {D}"
    f" and implies(ind in {OI}['legs'], keys(self.info[n]['legs']) == without_key(keys({OI}['legs']), ind)"
    f" and forall(keys(self.info[n]['legs']), lambda k: self.info[n]['legs'][k] == {OI}['legs'][k]) and self.info[n]['size'] == {OI}['size'] // {D})"
    f" and implies(not (ind in {OI}['legs']), self.info[n]['legs'] == {OI}['legs'] and self.info[n]['size'] == {OI}['size'])"
)
L1 = [
    "keys(self.info) == old(keys(self.info))",
    "d == " + D + " and d >= 1",
    POPULATED, SIZES_WF,
    "forall(keys(self.info), lambda n: implies(not (n in S1), self.info[n] == " + OI + "))",
    "forall(S1, lambda n: implies(" + INVOLVES + ", " + NODE_EFFECT + " and " + NOREC5 + "))",
    "forall(S1, lambda n: implies(not is_leaf(n) and not (ind in " + OI + "['involved']), self.info[n] == " + OI + "))",
    # `modified` lists exactly the processed nodes whose contraction involves the index (ghost mpos: node -> its position)
    "forall(0, len(modified), lambda a: modified[a] in S1 and modified[a] in self.info and (not is_leaf(modified[a]) and ind in old(self.info)[modified[a]]['involved']))",
    "forall(keys(mpos), lambda n: 0 <= mpos[n] and mpos[n] < len(modified) and modified[mpos[n]] == n)",
    "forall(S1, lambda n: implies(" + INVOLVES + ", n in mpos))",
]
MPOS = (
    "mapof(lambda n: False, lambda n: 0)",
    "mapof(lambda n: (n in prev(mpos)) or (n == node and len(modified) > prev(len(modified))), lambda n: prev(len(modified)) if (n == node and len(modified) > prev(len(modified))) else prev(mpos)[n])",
)
# the tree: every child has exactly one parent (parent_of), parents are intermediate nodes with cached info
TREE = ("forall(keys(self.children), lambda p: has_parent(self.children[p][0]) and parent_of(self.children[p][0]) == p"
        " and has_parent(self.children[p][1]) and parent_of(self.children[p][1]) == p)")
# what the first phase established, restated over the final caches (the second phase only drops recipe entries)
FIG_SAME = "self.info[n]['involved'] == {o}['involved'] and self.info[n]['legs'] == {o}['legs'] and self.info[n]['flops'] == {o}['flops'] and self.info[n]['size'] == {o}['size']".format(o=OI)
PH1 = [
    "keys(self.info) == old(keys(self.info))",
    "forall(keys(self.info), lambda n: implies(" + INVOLVES + ", " + NODE_EFFECT + " and " + NOREC5 + "))",
    "forall(keys(self.info), lambda n: implies(not is_leaf(n) and not (ind in " + OI + "['involved']), " + FIG_SAME + "))",
    "forall(0, len(modified), lambda a: modified[a] in self.info)",
    "forall(keys(self.info), lambda n: implies(" + INVOLVES + ", exists(0, len(modified), lambda a: modified[a] == n)))",
    "forall(keys(parents), lambda c: parents[c] == parent_of(c) and parents[c] in self.info)",
    "forall(lambda c: has_parent(c) == (c in parents))",
]
CLEARED = "forall(seen, lambda q: q in self.info and " + NOREC4 + ")"
L5 = PH1 + [
    CLEARED,
    "forall(seen, lambda q: implies(q in parents, parents[q] in seen))",
    "forall(0, t5, lambda a: implies(modified[a] in parents, parents[modified[a]] in seen))",
]
L6 = PH1 + [
    CLEARED,
    "forall(seen, lambda q: implies(q in parents, parents[q] in seen or (p is not None and unopt(p) == parents[q])))",
    "forall(0, t5, lambda a: implies(modified[a] in parents, parents[modified[a]] in seen))",
    "implies(modified[t5] in parents, parents[modified[t5]] in seen or (p is not None and unopt(p) == parents[modified[t5]]))",
    "implies(p is not None, unopt(p) in self.info)",
    "0 <= t5 and t5 < len(modified)",
]

remove_ind = Contract(
    target="cotengra.core:ContractionTree.remove_ind",
    variant="inplace",
    props=["C02", "C03", "C04", "C06"],
    self_type=TreeT,
    params={"ind": Key, "project": Ty.NoneT, "inplace": Ty.Bool},
    requires=[
        "inplace", "not (ind in self.sliced_inds)", "ind in self.size_dict and self.size_dict[ind] >= 1",
        # the record stored for a sliced index is that index's record
        "forall(keys(self.sliced_inds), lambda k: self.sliced_inds[k].ind == k)",
        POPULATED, SIZES_WF,
        "forall(keys(self.children), lambda n: n in self.info and not is_leaf(n))",
        "forall(keys(self.info), lambda n: implies(is_leaf(n), 0 <= single_el(n) and single_el(n) < len(self.inputs)))",
        TREE,
        "forall(lambda c: implies(has_parent(c), parent_of(c) in self.children and (self.children[parent_of(c)][0] == c or self.children[parent_of(c)][1] == c)))",
    ],
    returns=TreeT,
    externals=dict(EXT, single_el=_uf("single_el")),
    modifies=["self"],
    nloops=None,
    loops={
        0: Loop(seen="S0", inv=[]),
        1: Loop(seen="S1", inv=L1, ghosts={"mpos": MPOS}),
        3: Loop(seen="S3", inv=[
            "forall(keys(parents), lambda c: parents[c] == parent_of(c) and parents[c] in S3 and has_parent(c))",
            "forall(S3, lambda p: self.children[p][0] in parents and self.children[p][1] in parents)",
        ]),
        5: Loop(pos="t5", inv=L5),
        6: Loop(inv=L6),
    },
    hints={"modified": Ty.List(Key), "parents": Ty.Map(Key, Key)},
    ensures=[
        "self.multiplicity == old(self.multiplicity) * old(self.size_dict[ind])",
        "ind in self.sliced_inds",
        # its record: sliced over its whole range (C06: that many slices)
        "self.sliced_inds[ind].ind == ind and self.sliced_inds[ind].size == old(self.size_dict[ind]) and self.sliced_inds[ind].project is None",
        "keys(self.info) == old(keys(self.info))",
        # every node whose contraction involves the index: reduced index sets, divided figures, no recipe left
        "forall(keys(self.info), lambda n: implies(" + INVOLVES + ", " + NODE_EFFECT + " and " + NOREC5 + "))",
        # the others keep their cached figures
        "forall(keys(self.info), lambda n: implies(not is_leaf(n) and not (ind in " + OI + "['involved']), " + FIG_SAME + "))",
        "keys(self.contraction_cores) == empty() and keys(self.already_optimized) == empty()",
    ],
    ensures_t1=[
        # there is a set of nodes (the one the code collects) that contains the parent of every modified node,
        # is closed under taking parents, and whose members have lost every recipe that depends on a child's index order
        "forall(keys(self.info), lambda n: implies(" + INVOLVES + " and has_parent(n), parent_of(n) in seen_final))",
        "forall(seen_final, lambda q: implies(has_parent(q), parent_of(q) in seen_final))",
        "forall(seen_final, lambda q: q in self.info and " + NOREC4 + ")",
    ],
    assumptions=["inplace=True, project=None; the cached getters read the per-node cache; SliceInfo records are opaque apart from their `ind`;"
                 " sorted() returns some arrangement of exactly its elements"],
)
remove_ind.expose = ("seen",)

# projecting an index onto one value: same per-node effect, but a single slice
_ens_proj = list(remove_ind.ensures)
_ens_proj[0] = "self.multiplicity == old(self.multiplicity)"
_ens_proj[2] = "self.sliced_inds[ind].ind == ind and self.sliced_inds[ind].size == 1 and self.sliced_inds[ind].project is not None and unopt(self.sliced_inds[ind].project) == project"
remove_ind_project = Contract(
    target=remove_ind.target, variant="inplace-project", props=["C02", "C04", "C06"], self_type=TreeT,
    params={"ind": Key, "project": Ty.Int, "inplace": Ty.Bool},
    requires=list(remove_ind.requires), returns=TreeT, externals=dict(remove_ind.externals), modifies=["self"], nloops=None,
    loops=remove_ind.loops, hints=dict(remove_ind.hints), ensures=_ens_proj, ensures_t1=list(remove_ind.ensures_t1),
    assumptions=["inplace=True, project=<int>; otherwise as the slicing variant"],
)
remove_ind_project.expose = ("seen",)
CONTRACTS = [remove_ind, remove_ind_project]


def _gen(rng):
    import cotengra as ctg
    from ..scope import random_tree_ssa

    n = rng.randint(2, 6)
    if n >= 3:
        con = ctg.utils.rand_equation(n, 3, n_out=rng.randint(0, 2), n_hyper_in=rng.randint(0, 1), n_hyper_out=rng.randint(0, 1), seed=rng.randint(0, 10**6), d_min=2, d_max=4)
        inputs, output, sd = con.inputs, con.output, con.size_dict
    else:
        inputs, output, sd = [("a", "b"), ("b", "c")], ("a",), {"a": 2, "b": 3, "c": 2}
    tree = ctg.ContractionTree.from_path(inputs, output, sd, ssa_path=random_tree_ssa(n, rng))
    state = rng.choice(["plain", "sorted", "contracted", "sliced"])
    if state == "sorted":
        tree.sort_contraction_indices()
    if state in ("sorted", "contracted"):
        tree.get_contractor()  # caches every recipe
    if state == "sliced" and len(sd) > 1:
        tree.remove_ind_(rng.choice(sorted(sd)))
    # remove_ind populates the per-node caches before it changes anything: do the same for the pre-state
    tree.contract_stats()
    for nd in tree.children:
        tree.get_involved(nd)
        tree.get_legs(nd)
    cands = [ix for ix in sorted(sd) if ix not in tree.sliced_inds]
    if not cands:
        return None
    ind = rng.choice(cands)
    parent = {}
    for p_, (l, r) in tree.children.items():
        parent[l], parent[r] = p_, p_

    def ancestors(x):
        out = []
        while x in parent:
            x = parent[x]
            out.append(x)
        return out

    bind = {"is_leaf": lambda x: len(x) == 1, "single_el": lambda x: next(iter(x)), "parent_of": lambda x: parent.get(x),
            "has_parent": lambda x: x in parent, "ancestors": ancestors}
    return {"self": tree, "args": (ind, None, True), "bind": bind, "universe": list(tree.info),
            "describe": f"{inputs}->{output} sizes {sd} path {tree.get_path()} state={state} sliced={list(tree.sliced_inds)} remove {ind!r}"}


remove_ind.gen = _gen


def _gen_project(rng):
    case = _gen(rng)
    if case is None:
        return None
    ind = case["args"][0]
    d = case["self"].size_dict[ind]
    case["args"] = (ind, rng.randrange(d), True)
    case["describe"] = case["describe"].replace(" remove ", " project ") + f" onto {case['args'][1]}"
    return case


remove_ind_project.gen = _gen_project
remove_ind_project.ensures_rt = remove_ind.ensures_rt = [
    # every ancestor of a node whose contraction involves the index has lost the recipes that depend on its children's index order
    "all(k not in self.info[a] for n in self.info if (not is_leaf(n) and ind in old(self.info)[n]['involved']) for a in ancestors(n) for k in ('einsum_eq', 'can_dot', 'tensordot_axes', 'tensordot_perm'))",
]


# ------------------------------------------------------ reset_contraction_indices
KEEP4 = " and ".join(f"('{k}' in self.info[n]) == old('{k}' in self.info[n])" for k in ("legs", "involved", "size", "flops"))
SAME4 = " and ".join(f"implies('{k}' in self.info[n], self.info[n]['{k}'] == {OI}['{k}'])" for k in ("legs", "involved", "size", "flops"))
reset = Contract(
    target="cotengra.core:ContractionTree.reset_contraction_indices",
    props=["C02"],
    self_type=TreeT,
    params={},
    requires=["forall(keys(self.children), lambda n: n in self.info)"],
    modifies=["self.info", "self.contraction_cores"],
    nloops=None,
    loops={0: Loop(seen="S", inv=[
        "keys(self.info) == old(keys(self.info))",
        "forall(S, lambda n: " + NOREC5 + ")",
        "forall(keys(self.info), lambda n: " + KEEP4 + " and " + SAME4 + ")",
        "forall(keys(self.info), lambda n: implies(not (n in self.children), self.info[n] == " + OI + "))",
    ])},
    ensures=[
        "keys(self.info) == old(keys(self.info))",
        # every intermediate node forgets its explicit index order and every recipe derived from it
        "forall(keys(self.children), lambda n: " + NOREC5 + ")",
        # the cached figures stay
        "forall(keys(self.info), lambda n: " + KEEP4 + " and " + SAME4 + ")",
        "forall(keys(self.info), lambda n: implies(not (n in self.children), self.info[n] == " + OI + "))",
        "keys(self.contraction_cores) == empty()",
    ],
)
CONTRACTS.append(reset)


def _gen_reset(rng):
    case = _gen(rng)
    if case is None:
        return None
    return {"self": case["self"], "args": (), "universe": case["universe"], "describe": case["describe"].rsplit(" remove ", 1)[0]}


reset.gen = _gen_reset
reset.pre_must_hold = True
