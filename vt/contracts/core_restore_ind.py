"""C03 / C04 / C02: ContractionTree.restore_ind (unslicing / un-projecting an index), in place.

Proved (variant inplace=True, the index is currently sliced or projected):
  * the multiplicity is divided by the size RECORDED for the index when it was
    removed (SliceInfo.size: the whole range for a sliced index, 1 for a
    projected one) - together with remove_ind's proved postcondition
    (multiplicity multiplied by exactly that recorded size) this is the
    round trip 'slicing then unslicing restores the number of slices';
  * the index is no longer recorded as sliced, every other record is kept as
    it was;
  * on return the explicit index orders and every recipe derived from them are
    reset for every intermediate node and the compiled contractors are
    discarded (the last action is reset_contraction_indices, called modularly
    through its own proved contract, whose precondition 'every intermediate
    node has a cache entry' is carried through both loops as an invariant).
Abstracted (assumed contracts, derived from the proved contracts of
_remove_node / contract_nodes_pair in core_mutators, restated over opaque node
keys): _remove_node(n) keeps the cache entry of a leaf and drops the children
entry of an intermediate; contract_nodes_pair(l, r) creates a node that has a
children entry and a cache entry.  The per-node figures after the rebuild are
not proved here (C04's bounded driver compares them with a fresh tree)."""

import z3

from ..pyvc import types as Ty
from ..pyvc.contract import Contract, Loop
from ..pyvc.types import V, Int, Key, Bool
from .core_remove_ind import NOREC5, _uf, x_none, x_size_attr, x_ind_attr, x_project_attr
from .core_reconfigure import TreeT
from .core_mutators import LegsT

StepsT = Ty.List(Ty.Tuple([Key, Key, Key]))


def _is_leaf(engine, st, keyv, node):
    return _uf("is_leaf", Ty.BoolS)(engine, st, [keyv], node, {}).term


def x_node_from_single(engine, st, args, node, kw):
    """node_from_single(i): the leaf node of input i (an opaque key that is a leaf)"""
    r = V(Key, [engine.fresh(st, "leaf", node, Ty.IntS)])
    st.assume(_is_leaf(engine, st, r, node))
    return r


def x_remove_node(engine, st, args, node, kw):
    """tree._remove_node(n), from its proved contract (core_mutators): a leaf keeps an (emptied) cache entry and
    the children map is untouched; an intermediate node loses its children entry (and possibly its cache entry);
    every other entry of both maps is untouched."""
    tree = engine.deref(st, args[0])
    nd = engine.keyterm(engine.deref(st, args[1]))
    leaf = _is_leaf(engine, st, engine.deref(st, args[1]), node)
    iref, cref = tree.fields["info"], tree.fields["children"]
    info, ch = engine.deref(st, iref), engine.deref(st, cref)
    keep = engine.fresh(st, "kept", node, Ty.BoolS)
    st.assume(z3.Implies(leaf, keep))
    fresh = engine.havoc_t(st, info.t.v, "entry", node)
    st.heap[iref.id] = V(info.t, [z3.Store(info.c[0], nd, z3.And(info.c[0][nd], keep))] + [z3.Store(a, nd, c) for a, c in zip(info.c[1:], fresh.c)])
    st.heap[cref.id] = V(ch.t, [z3.If(leaf, ch.c[0], z3.Store(ch.c[0], nd, z3.BoolVal(False)))] + list(ch.c[1:]))
    for f in ("_flops", "_write"):
        tree.fields[f] = V(Int, [engine.fresh(st, f, node, Ty.IntS)])
    return Ty.mk_none()


x_remove_node.modifies = ["self.info", "self.children", "self._flops", "self._write", "self._sizes"]


def x_contract_nodes_pair(engine, st, args, node, kw):
    """tree.contract_nodes_pair(l, r), from its proved contract (core_mutators): the new parent gets a children
    entry and a cache entry, l and r have cache entries; every other entry of both maps is untouched."""
    tree = engine.deref(st, args[0])
    lk = engine.keyterm(engine.deref(st, args[1]))
    rk = engine.keyterm(engine.deref(st, args[2]))
    pk = engine.fresh(st, "parent", node, Ty.IntS)
    iref, cref = tree.fields["info"], tree.fields["children"]
    info, ch = engine.deref(st, iref), engine.deref(st, cref)
    fresh_i = engine.havoc_t(st, info.t.v, "pentry", node)
    fresh_c = engine.havoc_t(st, ch.t.v, "pchildren", node)
    ikeys = z3.Store(z3.Store(z3.Store(info.c[0], pk, z3.BoolVal(True)), lk, z3.BoolVal(True)), rk, z3.BoolVal(True))
    st.heap[iref.id] = V(info.t, [ikeys] + [z3.Store(a, pk, c) for a, c in zip(info.c[1:], fresh_i.c)])
    st.heap[cref.id] = V(ch.t, [z3.Store(ch.c[0], pk, z3.BoolVal(True))] + [z3.Store(a, pk, c) for a, c in zip(ch.c[1:], fresh_c.c)])
    for f in ("_flops", "_write"):
        tree.fields[f] = V(Int, [engine.fresh(st, f, node, Ty.IntS)])
    pv = V(Key, [pk])
    st.assume(z3.Not(_is_leaf(engine, st, pv, node)))
    return pv


x_contract_nodes_pair.modifies = ["self.info", "self.children", "self._flops", "self._write", "self._sizes"]


def x_traverse(engine, st, args, node, kw):
    """tree.traverse(): some list of (parent, left, right) triples"""
    return engine.alloc(st, engine.havoc_t(st, StepsT, "steps", node))


def x_get_legs(engine, st, args, node, kw):
    """tree.get_legs(node): some index set (the figures are not part of this contract)"""
    return engine.alloc(st, engine.havoc_t(st, LegsT, "legs", node))


CHILD_INFO = "forall(keys(self.children), lambda n: n in self.info)"
SLICED_FRAME = [
    "not (ind in self.sliced_inds)",
    "forall(keys(self.sliced_inds), lambda k: k in old(keys(self.sliced_inds)) and self.sliced_inds[k] == old(self.sliced_inds)[k])",
    "forall(old(keys(self.sliced_inds)), lambda k: implies(k != ind, k in self.sliced_inds))",
    "self.multiplicity == old(self.multiplicity) // old(self.sliced_inds[ind].size)",
]

restore_ind = Contract(
    target="cotengra.core:ContractionTree.restore_ind",
    variant="inplace",
    props=["C03", "C04", "C02"],
    self_type=TreeT,
    params={"ind": Key, "inplace": Ty.Bool},
    requires=["inplace", "ind in self.sliced_inds", "self.sliced_inds[ind].size >= 1", CHILD_INFO],
    returns=TreeT,
    externals={
        "ContractionTree.contract_stats": x_none, "node_from_single": x_node_from_single,
        "ContractionTree._remove_node": x_remove_node, "ContractionTree.contract_nodes_pair": x_contract_nodes_pair,
        "ContractionTree.traverse": x_traverse, "ContractionTree.get_legs": x_get_legs,
        "*.attr:ind": x_ind_attr, "*.attr:size": x_size_attr, "*.attr:project": x_project_attr,
        "is_leaf": _uf("is_leaf", Ty.BoolS),
    },
    modifies=["self"],
    nloops=None,
    loops={
        0: Loop(inv=[CHILD_INFO] + SLICED_FRAME),
        1: Loop(inv=[CHILD_INFO] + SLICED_FRAME),
    },
    hints={"term": Ty.List(Key), "i": Ty.Int, "p": Key, "l": Key, "r": Key},
    ensures=SLICED_FRAME + [
        # the explicit index orders and all recipes are reset for every intermediate node
        "forall(keys(self.children), lambda n: " + NOREC5 + ")",
        "keys(self.contraction_cores) == empty() and keys(self.already_optimized) == empty()",
    ],
    assumptions=["inplace=True; SliceInfo records are opaque apart from their attributes; _remove_node and contract_nodes_pair through "
                 "their proved contracts restated over opaque node keys (leaf keeps its cache entry; a new parent has children and cache "
                 "entries); traverse() and get_legs() return arbitrary values; the rebuilt per-node figures are left to the bounded driver"],
)
CONTRACTS = [restore_ind]


def _gen(rng):
    import cotengra as ctg
    from ..scope import random_tree_ssa

    n = rng.randint(2, 6)
    if n >= 3:
        con = ctg.utils.rand_equation(n, 3, n_out=rng.randint(0, 2), n_hyper_in=rng.randint(0, 1), n_hyper_out=rng.randint(0, 1), seed=rng.randint(0, 10**6), d_min=2, d_max=4)
        inputs, output, sd = con.inputs, con.output, con.size_dict
    else:
        inputs, output, sd = [("a", "b"), ("b", "c")], ("a",), {"a": 2, "b": 3, "c": 2}
    tree = ctg.ContractionTree.from_path(inputs, output, sd, ssa_path=random_tree_ssa(n, rng))
    ixs = sorted(sd)
    rng.shuffle(ixs)
    how = []
    for ix in ixs[: rng.randint(1, min(3, len(ixs)))]:
        if rng.random() < 0.5:
            v = rng.randrange(sd[ix])
            tree.remove_ind_(ix, project=v)
            how.append(f"{ix}={v}")
        else:
            tree.remove_ind_(ix)
            how.append(ix)
    state = rng.choice(["plain", "sorted", "contracted"])
    if state == "sorted":
        tree.sort_contraction_indices()
    if state in ("sorted", "contracted"):
        tree.get_contractor()
    ind = rng.choice(sorted(tree.sliced_inds))
    bind = {"is_leaf": lambda x: len(x) == 1}
    return {"self": tree, "args": (ind, True), "bind": bind, "universe": list(tree.info),
            "describe": f"{inputs}->{output} sizes {sd} path {tree.get_path()} removed {how} state={state} restore {ind!r}"}


restore_ind.gen = _gen
restore_ind.pre_must_hold = True
restore_ind.ensures_rt = [
    # composition with remove_ind's record: the number of slices is again the product of the recorded sizes
    "self.multiplicity == prod([s.size for s in self.sliced_inds.values()])",
    "self.nslices == self.multiplicity",
]
import math as _math  # noqa: E402

restore_ind.natives = {"prod": _math.prod}

# which inputs count as 'sliced' afterwards is not part of this contract: the statement that recomputes it is
# replaced by 'sliced_inputs holds an arbitrary set' (it touches nothing else - checked syntactically)
restore_ind.abstract_stmts = {
    "if all((ix not in tree.sliced_inds for ix in term)):": ["tree.sliced_inputs"],
}
