"""C07 'applying the chosen indices': ContractionTree.slice searches and slices
the SAME tree.

Data-flow contract (the tree is an object with a ghost set `removed` of the
indices sliced from it; copy(), unslice_all_(), the SliceFinder and
remove_ind_ appear through assumed contracts that say which object they act
on):
  * the SliceFinder is built on the very tree object that is returned (the
    working copy when not in place - also after `reslice` unsliced it);
  * exactly the indices the finder's search returned are removed from that tree,
    on top of what it had;
  * not in place: the original tree is left alone and a new object is returned.
Whether the search result honours the targets is SliceFinder.search/best
(proved in slicer_costs)."""

import z3

from ..pyvc import types as Ty
from ..pyvc.contract import Contract, Loop
from ..pyvc.engine import ObjT, Obj, Ref
from ..pyvc.types import V, Int, Key

TreeT = ObjT("ContractionTree", {"removed": Ty.Set(Key), "multiplicity": Ty.Int})
FinderT = ObjT("SliceFinder", {"tree": TreeT, "target_slices": Ty.Opt(Ty.Int)})


def x_copy(engine, st, args, node, kw):
    src = engine.deref(st, args[0])
    rem = engine.deref(st, src.fields["removed"])
    ob = Obj("ContractionTree", {"removed": engine.alloc(st, rem), "multiplicity": src.fields["multiplicity"]})
    i = engine.new_id()
    st.heap[i] = ob
    return Ref(i, TreeT)


def x_unslice_all(engine, st, args, node, kw):
    ref = args[0]
    ob = engine.deref(st, ref).clone()
    ob.fields["removed"] = engine.alloc(st, V(Ty.Set(Key), [z3.K(Ty.IntS, z3.BoolVal(False))]))
    ob.fields["multiplicity"] = Ty.mk_int(1)
    st.heap[ref.id] = ob
    return Ty.mk_none()


x_unslice_all.modifies = ["self"]


def x_finder(engine, st, args, node, kw):
    ts = kw.get("target_slices")
    ob = Obj("SliceFinder", {"tree": args[0], "target_slices": ts if ts is not None else Ty.mk_opt_none(Ty.Int)})
    i = engine.new_id()
    st.heap[i] = ob
    return Ref(i, FinderT)


def x_search(engine, st, args, node, kw):
    return Ty.mk_tuple([Ty.havoc(Ty.Set(Key), f"ix_sl@{engine.line(node)}"), V(Key, [engine.fresh(st, "cost", node, Ty.IntS)])])


def x_remove_ind_(engine, st, args, node, kw):
    ref = args[0]
    ob = engine.deref(st, ref).clone()
    rem = engine.deref(st, ob.fields["removed"])
    ob.fields["removed"] = engine.alloc(st, V(rem.t, [z3.Store(rem.c[0], engine.keyterm(engine.deref(st, args[1])), True)]))
    st.heap[ref.id] = ob
    return Ty.mk_none()


x_remove_ind_.modifies = ["self.removed"]

EXT = {"ContractionTree.copy": x_copy, "ContractionTree.unslice_all_": x_unslice_all, "SliceFinder": x_finder,
       "SliceFinder.search": x_search, "ContractionTree.remove_ind_": x_remove_ind_}
PARAMS = {"target_size": Ty.Opt(Ty.Int), "target_overhead": Ty.Opt(Ty.Real), "target_slices": Ty.Opt(Ty.Int), "temperature": Ty.Real,
          "minimize": Key, "allow_outer": Ty.Bool, "max_repeats": Ty.Int, "reslice": Ty.Bool, "seed": Ty.Int, "inplace": Ty.Bool}


def mk(variant, inplace):
    c = Contract(
        target="cotengra.core:ContractionTree.slice", variant=variant, props=["C07"],
        self_type=TreeT, params=dict(PARAMS),
        requires=["inplace" if inplace else "not inplace"],
        returns=TreeT, externals=EXT, properties={"ContractionTree": {"nslices": "self.multiplicity"}},
        modifies=["self"] if inplace else [],
        nloops=1, loops={0: Loop(seen="S", inv=["tree.removed == union(base_removed, S)"] + ([] if inplace else ["self.removed == old(self.removed)"]),
                                 ghosts={"base_removed": ("tree.removed", "prev(base_removed)")})},
        ghost={},
        ensures=[],
        ensures_rt=(["result is self"] if inplace else ["result is not self", "set(self.sliced_inds) == old(set(self.sliced_inds))"]) + [
            "recorded['tree'] is result",
            "set(result.sliced_inds) == ((set() if reslice else old(set(self.sliced_inds))) | set(recorded['ix_sl']))",
        ],
        ensures_t1=([] if inplace else ["fresh_ref(result)", "self.removed == old(self.removed)"]) + (["same_ref(result, self)"] if inplace else []) + [
            # the finder searched the tree that is returned ...
            "same_ref(sf_final.tree, result)",
            # ... and exactly the indices it chose were removed from it
            "forall(lambda k: (k in result.removed) == (k in ix_sl_final or k in base_removed_final))",
        ],
        assumptions=["copy() returns a new tree with the same sliced indices; unslice_all_() empties them; SliceFinder(tree, ...) searches the tree it is given;"
                     " remove_ind_(ix) slices ix from the tree it is called on (its effect on that tree is the remove_ind contract)"],
    )
    c.expose = ("sf", "ix_sl", "base_removed")
    return c


slice_copy = mk("copy", False)
slice_inplace = mk("inplace", True)
CONTRACTS = [slice_copy, slice_inplace]



def _mk_gen(inplace):
    def gen(rng):
        import cotengra as ctg
        import cotengra.slicer as slicer
        from ..scope import random_tree_ssa

        n = rng.randint(3, 6)
        con = ctg.utils.rand_equation(n, 3, n_out=rng.randint(0, 1), seed=rng.randint(0, 10**6), d_min=2, d_max=4)
        tree = ctg.ContractionTree.from_path(con.inputs, con.output, con.size_dict, ssa_path=random_tree_ssa(n, rng))
        if rng.random() < 0.6 and len(con.size_dict) > 2:
            tree.remove_ind_(rng.choice(sorted(con.size_dict)))  # already sliced
        recorded = {}
        orig = slicer.SliceFinder

        class Recording(orig):
            def __init__(self, tree_, *a, **k):
                recorded["tree"] = tree_
                super().__init__(tree_, *a, **k)

            def search(self, *a, **k):
                r = super().search(*a, **k)
                recorded["ix_sl"] = r[0]
                return r

        slicer.SliceFinder = Recording

        def cleanup():
            slicer.SliceFinder = orig

        size = tree.max_size()
        args = (max(1, size // rng.choice((2, 4))), None, None, 0.01, "flops", True, 2, rng.random() < 0.5, rng.randint(0, 99), inplace)
        return {"self": tree, "args": args, "bind": {"recorded": recorded}, "cleanup": cleanup,
                "describe": f"{con.inputs}->{con.output} sizes {con.size_dict} path {tree.get_path()} sliced={list(tree.sliced_inds)} slice(target_size={args[0]}, reslice={args[7]}, inplace={inplace})"}

    return gen


slice_copy.gen = _mk_gen(False)
slice_inplace.gen = _mk_gen(True)
for _c in (slice_copy, slice_inplace):
    _c.raises = {"RuntimeError": "True", "ValueError": "True"}  # the search may find no admissible slicing
