"""Contracts for slice numbering (C06): get_slice_strides, slice_key."""

from ..pyvc import types as Ty
from ..pyvc.contract import Contract, Loop, Lemma
from ..pyvc.engine import ObjT

SliceInfoT = Ty.Rec(
    "SliceInfo",
    {"inner": Ty.Bool, "ind": Ty.Key, "size": Ty.Int, "project": Ty.Opt(Ty.Int)},
    mutable=False,
)
SlicedIndsT = Ty.ODict(Ty.Key, SliceInfoT)

SUF = """
def suf(k):
    return 1 if k >= n - 1 else suf(k + 1) * infos[k + 1].size
"""

get_slice_strides = Contract(
    target="cotengra.core:get_slice_strides",
    props=["C06"],
    params={"sliced_inds": SlicedIndsT},
    lets={"n": "len(sliced_inds)", "infos": "sliced_inds.values()"},
    spec={"suf": SUF},
    requires=["forall(0, n, lambda k: infos[k].size >= 1)"],
    returns=Ty.List(Ty.Int),
    ensures=[
        "len(result) == n",
        # strides[k] == product of the sizes of all later sliced indices
        "forall(0, n, lambda k: result[k] == suf(k))",
    ],
    nloops=1,
    loops={
        0: Loop(
            inv=[
                "len(strides) == n",
                "nsliced == n",
                "len(slice_infos) == n",
                "forall(0, n, lambda k: slice_infos[k].size == infos[k].size)",
                "forall(0, n, lambda k: implies(k > i, strides[k] == suf(k)))",
            ]
        )
    },
)

CONTRACTS = [get_slice_strides]
