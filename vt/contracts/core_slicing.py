"""Contracts for slice numbering (C06): get_slice_strides, slice_key."""

from ..pyvc import types as Ty
from ..pyvc.contract import Contract, Loop, Lemma
from ..pyvc.engine import ObjT

SliceInfoT = Ty.Rec(
    "SliceInfo",
    {"inner": Ty.Bool, "ind": Ty.Key, "size": Ty.Int, "project": Ty.Opt(Ty.Int)},
    mutable=False,
)
SlicedIndsT = Ty.ODict(Ty.Key, SliceInfoT)

SUF = """
def suf(k):
    return 1 if k >= n - 1 else suf(k + 1) * infos[k + 1].size
"""

get_slice_strides = Contract(
    target="cotengra.core:get_slice_strides",
    props=["C06"],
    params={"sliced_inds": SlicedIndsT},
    lets={"n": "len(sliced_inds)", "infos": "list(sliced_inds.values())"},
    spec={"suf": SUF},
    requires=["forall(0, n, lambda k: infos[k].size >= 1)"],
    returns=Ty.List(Ty.Int),
    ensures=[
        "len(result) == n",
        # strides[k] == product of the sizes of all later sliced indices
        "forall(0, n, lambda k: result[k] == suf(k))",
    ],
    nloops=1,
    loops={
        0: Loop(
            inv=[
                "len(strides) == n",
                "nsliced == n",
                "len(slice_infos) == n",
                "forall(0, n, lambda k: slice_infos[k].size == infos[k].size)",
                "forall(0, n, lambda k: implies(k > i, strides[k] == suf(k)))",
            ]
        )
    },
)

CONTRACTS = [get_slice_strides]


TreeSlicingT = ObjT("ContractionTree", {"sliced_inds": SlicedIndsT})

REM = """
def rem(m):
    return i if m <= 0 else (rem(m - 1) if infos[m - 1].project is not None else rem(m - 1) % suf(m - 1))
"""
DIG = """
def dig(m):
    return unopt(infos[m].project) if infos[m].project is not None else rem(m) // suf(m)
"""
WSUM = """
def wsum(m):
    return 0 if m <= 0 else wsum(m - 1) + (0 if infos[m - 1].project is not None else dig(m - 1) * suf(m - 1))
"""

slice_key = Contract(
    target="cotengra.core:ContractionTree.slice_key",
    props=["C06"],
    self_type=TreeSlicingT,
    params={"i": Ty.Int},
    lets={
        "n": "len(self.sliced_inds)",
        "infos": "list(self.sliced_inds.values())",
        "inds": "list(self.sliced_inds.keys())",
    },
    spec={"suf": SUF, "rem": REM, "dig": DIG, "wsum": WSUM},
    requires=[
        "forall(0, n, lambda k: infos[k].size >= 1)",
        # SliceInfo invariant: a projected index has size 1
        "forall(0, n, lambda k: implies(infos[k].project is not None, infos[k].size == 1))",
        # i is a valid slice number: 0 <= i < product of all sliced sizes
        "0 <= i and i < suf(-1)",
    ],
    lemmas=[
        Lemma("suf_pos", "k", "-1", "n", "suf(k) >= 1", induction="down"),
        Lemma("rem_range", "m", "0", "n", "0 <= rem(m) and rem(m) < suf(m - 1)", induction="up"),
        # every digit is in range (or is the projected value)
        Lemma("dig_range", "m", "0", "n - 1",
              "infos[m].project is not None or (0 <= dig(m) and dig(m) < infos[m].size)", induction=None,
              via=[
                  "suf(m - 1) == suf(m) * infos[m].size",
                  "suf(m) >= 1",
                  "0 <= rem(m) and rem(m) < suf(m - 1)",
                  "implies(infos[m].project is None, dig(m) == rem(m) // suf(m))",
              ]),
        # decode(encode(i)) == i : the slice number is the mixed-radix value of its key
        Lemma("decode", "m", "0", "n", "i == wsum(m) + rem(m)", induction="up",
              via=[
                  "wsum(0) == 0 and rem(0) == i",
                  "wsum(m + 1) == wsum(m) + (0 if infos[m].project is not None else dig(m) * suf(m))",
                  "rem(m + 1) == (rem(m) if infos[m].project is not None else rem(m) % suf(m))",
                  "implies(infos[m].project is None, dig(m) == rem(m) // suf(m))",
                  "suf(m) >= 1",
              ]),
    ],
    returns=Ty.Map(Ty.Key, Ty.Int),
    hints={"key": Ty.Map(Ty.Key, Ty.Int)},
    ensures=[
        "forall(0, n, lambda k: inds[k] in result and result[inds[k]] == dig(k))",
        "keys(result) == keys(self.sliced_inds)",
        "old(i) == wsum(n)",
        "forall(0, n, lambda k: implies(infos[k].project is None, 0 <= result[inds[k]] and result[inds[k]] < infos[k].size))",
        "forall(0, n, lambda k: implies(infos[k].project is not None, result[inds[k]] == unopt(infos[k].project)))",
    ],
    nloops=1,
    loops={
        0: Loop(
            pos="m",
            inv=[
                "len(strides) == n",
                "forall(0, n, lambda k: strides[k] == suf(k))",
                "i == rem(m)",
                "forall(0, m, lambda k: inds[k] in key and key[inds[k]] == dig(k))",
                "subset(keys(key), keys(self.sliced_inds))",
            ],
        )
    },
)

CONTRACTS = [get_slice_strides, slice_key]


# ---------------------------------------------------------------- generators
def _rand_sliced_inds(rng, maxn=4):
    from cotengra.core import SliceInfo

    n = rng.randint(0, maxn)
    labels = rng.sample("abcdefgh", n)
    infos = []
    for ix in labels:
        if rng.random() < 0.3:
            infos.append(SliceInfo(rng.random() < 0.5, ix, 1, rng.randint(0, 3)))
        else:
            infos.append(SliceInfo(rng.random() < 0.5, ix, rng.randint(1, 4), None))
    infos.sort()
    return {si.ind: si for si in infos}


def _gen_strides(rng):
    return {"args": (_rand_sliced_inds(rng),)}


def _gen_slice_key(rng):
    from cotengra.core import ContractionTree

    sl = _rand_sliced_inds(rng)
    tree = object.__new__(ContractionTree)
    tree.sliced_inds = sl
    tot = 1
    for si in sl.values():
        tot *= si.size
    i = rng.randint(0, tot - 1)
    return {"self": tree, "args": (i,), "describe": f"sliced_inds={list(sl.values())} i={i}"}


get_slice_strides.gen = _gen_strides
slice_key.gen = _gen_slice_key
