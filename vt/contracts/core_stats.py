"""Contracts for the cost totals of ContractionTree (C03/C04):
contract_stats, total_flops, total_write, max_size, peak_size.

Abstraction: `self.traverse(...)` yields a fixed list TR of (parent, left,
right) node triples; `get_flops(node)` / `get_size(node)` are pure functions of
the node while these methods run (they are cached node properties).  What is
proved: the totals are the sums / maximum over exactly the traversed nodes,
multiplied by `multiplicity` where the definition says so, and the tracked
fields are left consistent with what is returned."""

import z3

from ..pyvc import types as Ty
from ..pyvc.contract import Contract, Loop
from ..pyvc.engine import ObjT, Obj, Ref
from ..pyvc.types import V, Int
from .utils_maxcounter import MaxCounterT, WF as MC_WF, CounterT

NodeT = Ty.Key
TreeT = ObjT(
    "ContractionTree",
    {
        "_track_flops": Ty.Bool, "_track_write": Ty.Bool, "_track_size": Ty.Bool,
        "_flops": Ty.Int, "_write": Ty.Int, "_sizes": MaxCounterT,
        "multiplicity": Ty.Int, "N": Ty.Int, "root": NodeT,
    },
)
SIZES_WF = MC_WF.replace("self.", "self._sizes.")


def _memo_list(name, elem_t):
    def ext(engine, st, args, node, kwargs):
        memo = engine.__dict__.setdefault("_memo_lists", {})
        if name not in memo:
            t = Ty.List(elem_t)
            v = V(t, [z3.Const(f"{name}.{j}", srt) for j, srt in enumerate(t.sorts())])
            memo[name] = v
        v = memo[name]
        st.assume(v.c[0] >= 0)
        return v

    return ext


def _uf(name, lo):
    def ext(engine, st, args, node, kwargs):
        key = f"uf!{name}"
        if key not in engine.specfns:
            engine.specfns[key] = (z3.Function(key, Ty.IntS, Ty.IntS), [], Int, None)
        f = engine.specfns[key][0]
        r = f(engine.keyterm(engine.deref(st, args[1])))
        st.assume(r >= lo)
        return V(Int, [r])

    return ext


def _new_maxcounter(engine, st, args, node, kwargs):
    if args:
        return None
    c = V(CounterT, [z3.K(Ty.IntS, z3.BoolVal(False)), z3.K(Ty.IntS, z3.IntVal(0))])
    ob = Obj("MaxCounter", {"_c": engine.alloc(st, c), "_max_element": Ty.mk_opt_none(Ty.Int)})
    i = engine.new_id()
    st.heap[i] = ob
    return Ref(i, MaxCounterT)


EXT = {
    "ContractionTree.traverse": _memo_list("TR", Ty.Tuple([NodeT, NodeT, NodeT])),
    "ContractionTree.gen_leaves": _memo_list("LV", NodeT),
    "ContractionTree.get_flops": _uf("flops", 0),
    "ContractionTree.get_size": _uf("size", 1),
    "MaxCounter": _new_maxcounter,
}
ASSUME = [
    "traverse()/gen_leaves() yield a fixed sequence and get_flops/get_size are pure (>= 0 / >= 1) functions of the node while the method runs",
    "log/dtype options left at their defaults (None)",
]
LETS = {"TR": "list(self.traverse())", "n": "len(TR)", "sizes_wf": SIZES_WF}
SUMF = "def sumF(t):\n    return 0 if t <= 0 else sumF(t - 1) + self.get_flops(TR[t - 1][0])\n"
SUMS = "def sumS(t):\n    return 0 if t <= 0 else sumS(t - 1) + self.get_size(TR[t - 1][0])\n"
SIZES_INV = "forall(lambda k: (k in self._sizes._c) == exists(0, t, lambda p: self.get_size(TR[p][0]) == k))"
SIZES_POST = "forall(lambda k: (k in self._sizes._c) == exists(0, n, lambda p: self.get_size(TR[p][0]) == k))"
common = dict(self_type=TreeT, externals=EXT, assumptions=ASSUME, lets=LETS)

contract_stats = Contract(
    target="cotengra.core:ContractionTree.contract_stats",
    props=["C03", "C04"],
    params={},
    spec={"sumF": SUMF, "sumS": SUMS},
    requires=["sizes_wf", "self.N >= 2"],
    ensures=[
        "self._track_flops and self._track_write and self._track_size",
        "sizes_wf",
        # the three figures reported are the tracked ones, scaled by the number of slices
        "result['flops'] == self.multiplicity * self._flops and result['write'] == self.multiplicity * self._write",
        "is_neginf(result['size']) == (keys(self._sizes._c) == empty())",
        "implies(not is_neginf(result['size']), unopt(result['size']) in self._sizes._c and forall(keys(self._sizes._c), lambda k: k <= unopt(result['size'])))",
        # when (re)computed: exactly the sums / the multiset over the traversed nodes
        "implies(not (old(self._track_flops) and old(self._track_write) and old(self._track_size)), self._flops == sumF(n) and self._write == sumS(n))",
        "implies(not (old(self._track_flops) and old(self._track_write) and old(self._track_size)), " + SIZES_POST + ")",
        # when everything was tracked already nothing is recomputed
        "implies(old(self._track_flops) and old(self._track_write) and old(self._track_size), self._flops == old(self._flops) and self._write == old(self._write))",
    ],
    nloops=1,
    loops={0: Loop(pos="t", inv=["self._flops == sumF(t)", "self._write == sumS(t)", "sizes_wf", SIZES_INV])},
    **common,
)

total_flops = Contract(
    target="cotengra.core:ContractionTree.total_flops",
    props=["C03", "C04"],
    params={},
    spec={"sumF": SUMF},
    ensures=[
        "self._track_flops",
        "result == self.multiplicity * self._flops",
        "implies(not old(self._track_flops), self._flops == sumF(n))",
        "implies(old(self._track_flops), self._flops == old(self._flops))",
    ],
    nloops=1,
    loops={0: Loop(pos="t", inv=["self._flops == sumF(t)"])},
    **common,
)

total_write = Contract(
    target="cotengra.core:ContractionTree.total_write",
    props=["C03", "C04"],
    params={},
    spec={"sumS": SUMS},
    ensures=[
        "self._track_write",
        "result == self.multiplicity * self._write",
        "implies(not old(self._track_write), self._write == sumS(n))",
        "implies(old(self._track_write), self._write == old(self._write))",
    ],
    nloops=1,
    loops={0: Loop(pos="t", inv=["self._write == sumS(t)"])},
    **common,
)

max_size = Contract(
    target="cotengra.core:ContractionTree.max_size",
    props=["C03", "C04"],
    params={},
    returns=Ty.Opt(Ty.Int),
    modifies=["self._sizes", "self._track_size"],
    requires=["sizes_wf", "self.N >= 2"],
    ensures=[
        "self._track_size",
        "sizes_wf",
        "is_neginf(result) == (keys(self._sizes._c) == empty())",
        "implies(not is_neginf(result), unopt(result) in self._sizes._c and forall(keys(self._sizes._c), lambda k: k <= unopt(result)))",
        "implies(not old(self._track_size), " + SIZES_POST + ")",
        # already tracked: the size multiset is only read
        "implies(old(self._track_size), forall(lambda k: (k in self._sizes._c) == old(k in self._sizes._c)))",
    ],
    nloops=1,
    loops={0: Loop(pos="t", inv=["sizes_wf", SIZES_INV])},
    **common,
)

LIVE = "def live(t):\n    return sum(self.get_size(node) for node in self.gen_leaves()) if t <= 0 else live(t - 1) + self.get_size(TR[t - 1][0]) - self.get_size(TR[t - 1][1]) - self.get_size(TR[t - 1][2])\n"
PK = "def pk(t):\n    return live(0) if t <= 0 else max(pk(t - 1), live(t - 1) + self.get_size(TR[t - 1][0]))\n"
peak_size = Contract(
    target="cotengra.core:ContractionTree.peak_size",
    props=["C03"],
    params={},
    spec={"live": LIVE, "pk": PK},
    lets={"TR": "list(self.traverse(order=None))", "n": "len(TR)"},
    ensures=[
        # peak = max over steps of (live tensors before the step + the new intermediate)
        "result == pk(n)",
    ],
    nloops=1,
    loops={0: Loop(pos="t", inv=["tot_size == live(t)", "peak == pk(t)"])},
    self_type=TreeT, externals=EXT, assumptions=ASSUME,
)

CONTRACTS = [contract_stats, total_flops, total_write, max_size, peak_size]


def _tree(rng):
    import cotengra as ctg
    from ..scope import random_tree_ssa

    n = rng.randint(2, 6)
    con = ctg.utils.rand_equation(n, 3, n_out=rng.randint(0, 2), n_hyper_in=(rng.randint(0, 1) if n >= 3 else 0), seed=rng.randint(0, 10**6))
    tree = ctg.ContractionTree.from_path(con.inputs, con.output, con.size_dict, ssa_path=random_tree_ssa(n, rng))
    if rng.random() < 0.5:
        cands = [ix for ix in con.size_dict]
        if cands:
            tree.remove_ind_(rng.choice(cands))
            # forget the tracked totals so that the recompute path is taken
            tree._track_flops = tree._track_write = tree._track_size = False
    if rng.random() < 0.3:
        tree.contract_stats()
    if not hasattr(tree, "_sizes"):
        from cotengra.utils import MaxCounter

        tree._sizes = MaxCounter()
        tree._flops = tree._write = 0
    return tree


def _gen(rng):
    t = _tree(rng)
    return {"self": t, "args": (), "universe": range(0, 400), "describe": f"{t.inputs}->{t.output} path {t.get_path()} sliced {list(t.sliced_inds)}"}


for c in CONTRACTS:
    c.gen = _gen
