"""Effect-trace contract for the on-disk cache writer (C15):
DiskDict.__setitem__ executed over a ghost file system.

Ghost state  fs : path -> (st, val)   st in {0 Absent, 1 Partial, 2 Complete}
Effects (assumed contracts of the OS / stdlib, listed as assumptions):
  open(p, 'wb+')        fs[p] := Partial            (truncate / create)
  pickle.dump(v, f)     fs[path(f)] stays Partial for every number of bytes
                        actually on disk (buffered writes), value pending v
  close (with-exit)     fs[path(f)] := Complete(v)
  os.replace(a, b)      fs[b] := fs[a]; fs[a] := Absent     (atomic)
  mkdir                 no file content changes
A crash may happen after ANY effect (and inside the write): the obligation
generated after every effect is
  Recoverable(fs) := forall p. is_entry(p) -> fs[p].st != Partial
where is_entry(p) holds exactly for the names a reader looks up
(root.joinpath(*key)); temporary names are assumed not to be entry names."""

import z3

from ..pyvc import types as Ty
from ..pyvc.contract import Contract, Loop
from ..pyvc.engine import ObjT, Obj, Ref, PyConst, Unsupported
from ..pyvc.types import V, Int, Bool, Key

FileT = Ty.Rec("file", {"st": Ty.Int, "val": Ty.Key}, mutable=False)
FsT = Ty.Map(Ty.Key, FileT)
FsT.default = V(FileT, [z3.IntVal(0), z3.IntVal(0)])
DiskT = ObjT("DiskDict", {"_mem_cache": Ty.Map(Ty.Key, Ty.Key), "_directory": Ty.Opt(Ty.Key), "_path": Ty.Key})
RECOVERABLE = "forall(lambda p: implies(is_entry(p), fs[p].st != 1))"


def _fn(engine, name, n, ret=Ty.IntS):
    key = f"uf!{name}{n}"
    if key not in engine.specfns:
        engine.specfns[key] = (z3.Function(key, *([Ty.IntS] * n), ret), [], Int, None)
    return engine.specfns[key][0]


def _is_entry(engine):
    return _fn(engine, "is_entry", 1, Ty.BoolS)


def _crash_point(engine, st, what, node):
    """obligation: the file system is recoverable if the process dies here"""
    fsv = engine.deref(st, st.vars["fs"])
    p = z3.Int("cp!p")
    ise = _is_entry(engine)
    st_arr = fsv.c[1]
    dom = fsv.c[0]
    state = z3.If(dom[p], st_arr[p], 0)
    engine.oblige(st, z3.ForAll([p], z3.Implies(ise(p), state != 1)),
                  f"crash right after `{what}` (line {engine.line(node)}) leaves every entry name absent or complete", "crash-point", node)


def _set_file(engine, st, path, state, val):
    ref = st.vars["fs"]
    fsv = st.heap[ref.id]
    st.heap[ref.id] = V(fsv.t, [z3.Store(fsv.c[0], path, True), z3.Store(fsv.c[1], path, state), z3.Store(fsv.c[2], path, val)])


def _get_file(engine, st, path):
    fsv = engine.deref(st, st.vars["fs"])
    return z3.If(fsv.c[0][path], fsv.c[1][path], 0), z3.If(fsv.c[0][path], fsv.c[2][path], 0)


def x_joinpath(engine, st, args, node, kw):
    ts = [engine.keyterm(engine.deref(st, a)) for a in args]
    f = _fn(engine, "join", len(ts))
    r = f(*ts)
    st.assume(_is_entry(engine)(r))  # names built from keys are what readers look up
    return V(Key, [r])


def x_parent(engine, st, args, node, kw):
    return V(Key, [_fn(engine, "parent", 1)(engine.keyterm(args[0]))])


def x_name(engine, st, args, node, kw):
    return V(Key, [_fn(engine, "name", 1)(engine.keyterm(args[0]))])


def x_with_name(engine, st, args, node, kw):
    base = engine.keyterm(engine.deref(st, args[0]))
    r = engine.fresh(st, "tmpname", node, Ty.IntS)
    # ASSUMED: a temporary name ('<entry>.<pid>.<tid>.tmp') is never an entry name
    st.assume(z3.Not(_is_entry(engine)(r)))
    st.assume(r != base)
    return V(Key, [r])


def x_mkdir(engine, st, args, node, kw):
    _crash_point(engine, st, "mkdir", node)
    return Ty.mk_none()


def x_int(engine, st, args, node, kw):
    return V(Int, [engine.fresh(st, "sysint", node, Ty.IntS)])


def x_open(engine, st, args, node, kw):
    path = engine.keyterm(engine.deref(st, args[0]))
    mode = args[1].val if len(args) > 1 and isinstance(args[1], PyConst) else "r"
    ob = Obj("file", {"path": V(Key, [path]), "pending": V(Key, [z3.IntVal(0)])})
    i = engine.new_id()
    st.heap[i] = ob
    if "w" in mode:
        _set_file(engine, st, path, z3.IntVal(1), z3.IntVal(0))
        _crash_point(engine, st, f"open(<path>, {mode!r})", node)
    return Ref(i, ObjT("file", {}))


def x_dump(engine, st, args, node, kw):
    v = engine.keyterm(engine.deref(st, args[0]))
    f = engine.deref(st, args[1])
    path = f.fields["path"].term
    _set_file(engine, st, path, z3.IntVal(1), v)  # any prefix of the pickle may be on disk
    f2 = f.clone()
    f2.fields["pending"] = V(Key, [v])
    st.heap[args[1].id] = f2
    _crash_point(engine, st, "pickle.dump (any number of bytes written)", node)
    return Ty.mk_none()


def x_exit(engine, st, args, node, kw):
    f = engine.deref(st, args[0])
    if isinstance(f, Obj) and f.cls == "file":
        path = f.fields["path"].term
        stt, val = _get_file(engine, st, path)
        # flush + close: a file opened for writing becomes complete with its pending value
        _set_file(engine, st, path, z3.If(stt == 1, 2, stt), z3.If(stt == 1, f.fields["pending"].term, val))
        _crash_point(engine, st, "close", node)
    return Ty.mk_none()


def x_replace(engine, st, args, node, kw):
    src = engine.keyterm(engine.deref(st, args[0]))
    dst = engine.keyterm(engine.deref(st, args[1]))
    stt, val = _get_file(engine, st, src)
    _set_file(engine, st, dst, stt, val)
    _set_file(engine, st, src, z3.IntVal(0), z3.IntVal(0))
    _crash_point(engine, st, "os.replace(tmp, entry)", node)
    return Ty.mk_none()


def x_is_entry(engine, st, args, node, kw):
    return V(Bool, [_is_entry(engine)(engine.keyterm(engine.deref(st, args[0])))])


EXT = {
    "*.joinpath": x_joinpath, "*.attr:parent": x_parent, "*.attr:name": x_name, "*.with_name": x_with_name,
    "*.mkdir": x_mkdir, "os.getpid": x_int, "threading.get_ident": x_int, "open": x_open,
    "pickle.dump": x_dump, "__exit__": x_exit, "os.replace": x_replace, "is_entry": x_is_entry,
}
ASSUME = [
    "file-system model: open('wb+') truncates/creates, buffered writes leave any prefix on disk until close, os.replace is atomic (POSIX rename), mkdir changes no file content",
    "a reader only looks up names of the form root.joinpath(*key); a temporary name '<entry>.<pid>.<tid>.tmp' is never such a name (entry names are hex digests)",
    "a strict prefix of a pickle stream does not unpickle (checked bounded by the crash-injection driver)",
]


def mk(variant, ktype, fname_expr):
    return Contract(
        target="cotengra.utils:DiskDict.__setitem__", variant=variant, props=["C15", "C14"],
        self_type=DiskT, params={"k": ktype, "v": Ty.Key},
        ghost={"fs": (FsT, "None")},
        externals=EXT, assumptions=ASSUME,
        lets={"FN": fname_expr},
        requires=["self._directory is not None", RECOVERABLE],
        ensures=[
            RECOVERABLE,
            # the entry is stored completely, with the new value
            "fs[FN].st == 2 and fs[FN].val == v",
            # entries stored before are untouched (frame)
            "forall(lambda p: implies(is_entry(p) and p != FN, fs[p] == old(fs[p])))",
            # ... and it is held in memory under the key it was stored with (read-your-write: C14)
            "old(k) in self._mem_cache and self._mem_cache[old(k)] == v",
        ],
    )


set_flat = mk("flat-key", Ty.Key, "self._path.joinpath(old(k))")
set_split = mk("split-key", Ty.Tuple([Ty.Key, Ty.Key]), "self._path.joinpath(k[0], k[1])")

CONTRACTS = [set_flat, set_split]


# ------------------------------------------------------------------ reader
def x_exists(engine, st, args, node, kw):
    path = engine.keyterm(engine.deref(st, args[0]))
    stt, _ = _get_file(engine, st, path)
    return V(Bool, [stt != 0])


def x_open_any(engine, st, args, node, kw):
    mode = args[1].val if len(args) > 1 and isinstance(args[1], PyConst) else "r"
    if "w" in mode:
        return x_open(engine, st, args, node, kw)
    from ..pyvc.engine import NeedSplit, RaiseSignal

    path = engine.keyterm(engine.deref(st, args[0]))
    stt, _ = _get_file(engine, st, path)
    absent = stt == 0
    d = st.decided(absent)
    if d is None:
        raise NeedSplit(absent)
    if d:
        raise RaiseSignal("FileNotFoundError")
    ob = Obj("file", {"path": V(Key, [path]), "pending": V(Key, [z3.IntVal(0)])})
    i = engine.new_id()
    st.heap[i] = ob
    return Ref(i, ObjT("file", {}))


def x_load(engine, st, args, node, kw):
    """pickle.load: the stored value of a complete file; EOFError/UnpicklingError
    on a partial one (assumed: a strict prefix of a pickle never unpickles)."""
    from ..pyvc.engine import NeedSplit, RaiseSignal

    f = engine.deref(st, args[0])
    path = f.fields["path"].term
    stt, val = _get_file(engine, st, path)
    complete = stt == 2
    d = st.decided(complete)
    if d is None:
        raise NeedSplit(complete)
    if not d:
        raise RaiseSignal("EOFError")
    return V(Key, [val])


def x_noop(engine, st, args, node, kw):
    return Ty.mk_none()


DiskRT = ObjT("DiskDict", {"_mem_cache": Ty.Map(Ty.Key, Ty.Key), "_directory": Ty.Opt(Ty.Key), "_path": Ty.Key, "max_retries": Ty.Int, "retry_delay": Ty.Real})
EXT_R = dict(EXT)
EXT_R.update({"*.exists": x_exists, "open": x_open_any, "pickle.load": x_load, "time.sleep": x_noop})


def mk_get(variant, ktype, fname_expr, memkey):
    return Contract(
        target="cotengra.utils:DiskDict.__getitem__", variant=variant, props=["C15", "C14"],
        self_type=DiskRT, params={"k": ktype},
        ghost={"fs": (FsT, "None")},
        externals=EXT_R, assumptions=ASSUME,
        lets={"FN": fname_expr},
        requires=["self._directory is not None", "self.max_retries >= 1", RECOVERABLE,
                  "forall(lambda p: 0 <= fs[p].st and fs[p].st <= 2)"],
        returns=Ty.Key,
        # a reader never sees a partial entry: it gets the in-memory value, the complete
        # stored value, or 'missing' (KeyError) - no read error is possible
        raises={"KeyError": f"not ({memkey} in old(self._mem_cache)) and old(fs[FN].st) == 0"},
        modifies=["self._mem_cache"],
        nloops=1,
        # every attempt on a complete file returns: the loop never reaches a second attempt
        loops={0: Loop(pos="att", inv=["att == 0", RECOVERABLE, "fs[FN].st == 2", f"not ({memkey} in old(self._mem_cache))"])},
        ensures=[
            f"implies({memkey} in old(self._mem_cache), result == old(self._mem_cache[{memkey}]))",
            f"implies(not ({memkey} in old(self._mem_cache)), fs[FN].st == 2 and result == fs[FN].val)",
            RECOVERABLE,
        ],
    )


get_flat = mk_get("flat-key", Ty.Key, "self._path.joinpath(old(k))", "old(k)")
CONTRACTS.append(get_flat)


# ------------------------------------------------------------------ presence
def mk_contains(variant, ktype, fname_expr, memkey):
    return Contract(
        target="cotengra.utils:DiskDict.__contains__", variant=variant, props=["C15", "C14"],
        self_type=DiskRT, params={"k": ktype},
        ghost={"fs": (FsT, "None")},
        externals=EXT_R, assumptions=ASSUME,
        lets={"FN": fname_expr},
        requires=["forall(lambda p: 0 <= fs[p].st and fs[p].st <= 2)"],
        returns=Ty.Bool,
        ensures=[
            # present iff held in memory or a file with the entry's name exists
            f"result == (({memkey} in self._mem_cache) or (self._directory is not None and fs[FN].st != 0))",
            # reading does not write
            "forall(lambda p: fs[p] == old(fs[p]))",
        ],
    )


contains_flat = mk_contains("flat-key", Ty.Key, "self._path.joinpath(old(k))", "old(k)")
CONTRACTS.append(contains_flat)

SplitK = Ty.Tuple([Ty.Key, Ty.Key])
get_split = mk_get("split-key", SplitK, "self._path.joinpath(old(k)[0], old(k)[1])", "old(k)")
contains_split = mk_contains("split-key", SplitK, "self._path.joinpath(old(k)[0], old(k)[1])", "old(k)")
CONTRACTS += [get_split, contains_split]


# --------------------------------------------------- native view of the ghost
# The run-time monitor evaluates the same clauses on a REAL DiskDict over a real
# directory: `fs` is then a lazy view of that directory (absent / partial /
# complete per file), snapshotted by deepcopy for old(...).
class _FileRec:
    def __init__(self, st, val=None):
        self.st, self.val = st, val

    def __eq__(self, other):
        return isinstance(other, _FileRec) and (self.st, self.val) == (other.st, other.val)

    def __repr__(self):
        return f"File(st={self.st}, val={self.val!r})"


class _FsView:
    def __init__(self, root, frozen=None):
        self.root, self.frozen = root, frozen

    def files(self):
        import pathlib

        return [p for p in pathlib.Path(self.root).rglob("*") if p.is_file()]

    def read(self, p):
        import pickle

        try:
            with open(p, "rb") as f:
                return _FileRec(2, pickle.load(f))
        except FileNotFoundError:
            return _FileRec(0)
        except IsADirectoryError:
            return _FileRec(0)
        except Exception:  # noqa: BLE001 - a strict prefix of a pickle / garbage
            return _FileRec(1)

    def __getitem__(self, p):
        if self.frozen is not None:
            return self.frozen.get(str(p), _FileRec(0))
        return self.read(p)

    def __deepcopy__(self, memo):
        return _FsView(self.root, {str(p): self.read(p) for p in self.files()})


class _PathUniverse:
    """candidate entry names + whatever exists under the directory right now"""

    def __init__(self, root, names):
        self.root, self.names = root, names

    def __iter__(self):
        import pathlib

        seen = []
        for p in list(self.names) + [q for q in pathlib.Path(self.root).rglob("*") if q.is_file()]:
            if str(p) not in seen:
                seen.append(str(p))
                yield pathlib.Path(p)


def _is_entry_native(p):
    return not str(p).endswith(".tmp")


def _mk_gen(kind, split):
    def gen(rng):
        import pathlib
        import pickle
        import shutil
        import tempfile
        from cotengra.utils import DiskDict

        root = tempfile.mkdtemp(prefix="vt-diskdict-")
        keys = [("ab", "cdef01"), ("ab", "cdef02"), ("zz", "000000")] if split else ["abcdef01", "abcdef02", "zz000000"]
        path_of = (lambda k: pathlib.Path(root).joinpath(*k)) if split else (lambda k: pathlib.Path(root) / k)
        # some entries already stored by an earlier process (complete files)
        stored = {}
        for k in keys:
            if rng.random() < 0.5:
                path_of(k).parent.mkdir(parents=True, exist_ok=True)
                stored[k] = {"path": [(0, 1)], "score": rng.random()}
                with open(path_of(k), "wb") as f:
                    pickle.dump(stored[k], f)
        if rng.random() < 0.3:
            # a stale temporary file left by a killed writer (never an entry name)
            path_of(keys[0]).parent.mkdir(parents=True, exist_ok=True)
            with open(str(path_of(keys[0])) + ".999.1.tmp", "wb") as f:
                f.write(b"\x80\x04partial")
        d = DiskDict(root)
        k = rng.choice(keys)
        if k in stored and rng.random() < 0.5:
            d._mem_cache[k] = stored[k]  # also held in memory
            if rng.random() < 0.5:
                # ... and meanwhile overwritten on disk by another process sharing the directory
                with open(path_of(k), "wb") as f:
                    pickle.dump({"path": [(9, 9)], "score": -1.0}, f)
        case = {"self": d, "ghost": {"fs": _FsView(root)}, "universe": _PathUniverse(root, [path_of(x) for x in keys]),
                "cleanup": lambda: shutil.rmtree(root, ignore_errors=True)}
        if kind == "set":
            case["args"] = (k, {"path": [(1, 2)], "score": 1.5})
        else:
            case["args"] = (k,)
        case["describe"] = f"{kind} key={k!r} stored on disk={sorted(map(str, stored))} in memory={list(d._mem_cache)}"
        return case

    return gen


for _c, _kind, _split in ((set_flat, "set", False), (set_split, "set", True), (get_flat, "get", False), (get_split, "get", True),
                          (contains_flat, "contains", False), (contains_split, "contains", True)):
    _c.gen = _mk_gen(_kind, _split)
    _c.natives = {"is_entry": _is_entry_native}
