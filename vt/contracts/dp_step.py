"""C09: the inductive step of the exhaustive dynamic programme
ContractionProcessor.optimize_optimal_connected.

For every candidate pair of sub-solutions the loop looks at, at the end of that
iteration (however it ends - the three `continue`s included) one of these holds:
  * the two subgraphs overlap,
  * the pair is an outer product and outer products are being skipped,
  * the pair's cost is at least the current cap (it will be reconsidered when the cap doubles; `>=` rather
    than the code's `>` because the optimality argument needs no more, and a sieve that is strict one way
    or the other is equally correct),
  * the table of size-m solutions holds, for the union, an entry whose score is at most
    the pair's cost.
and the table only ever improves (no entry disappears, no stored score goes up).
So no admissible pair is ever dropped: with the proved sieve lemma (cost >= both
children's scores, con_cost) this is the step of the optimality induction; the
induction itself is not mechanised.

Abstracted (arbitrary values after a frame check): how the pairs are enumerated, the
sorted merge of the two leg lists, the bookkeeping of paths, the final replay of the
path.  Bit masks are uninterpreted; the step-cost function is an arbitrary function of
the two subgraphs that is at least both children's scores."""

import z3

from ..pyvc import types as Ty
from ..pyvc.contract import Contract, Loop
from ..pyvc.engine import ObjT, PyConst
from ..pyvc.types import V, Int, Key

LegsL = Ty.List(Ty.Tuple([Ty.Int, Ty.Int]))
PathL = Ty.List(Ty.Tuple([Ty.Int, Ty.Int]))
EntryT = Ty.Tuple([LegsL, Ty.Int, PathL])
TableT = Ty.Map(Ty.Int, EntryT)
ItemT = Ty.Tuple([Ty.Int, EntryT])
PairT = Ty.Tuple([ItemT, ItemT])
ProcT = ObjT("ContractionProcessor", {"nodes": Ty.Map(Ty.Int, LegsL), "appearances": Ty.List(Ty.Int), "sizes": Ty.List(Ty.Int), "edges": Ty.Map(Ty.Int, Ty.Set(Ty.Int)),
                                      "ssa": Ty.Int, "ssa_path": Ty.List(Ty.Tuple([Ty.Int, Ty.Int])), "flops": Ty.Int})


def cost_fn(*a):  # placeholder callable: the value parse_minimize_for_optimal returns
    raise NotImplementedError


def x_parse(engine, st, args, node, kw):
    return PyConst(cost_fn)


def _costuf(engine):
    if "uf!paircost" not in engine.specfns:
        engine.specfns["uf!paircost"] = (z3.Function("uf!paircost", Ty.IntS, Ty.IntS, Ty.IntS), [], Int, None)
    return engine.specfns["uf!paircost"][0]


def x_cost(engine, st, args, node, kw):
    """the step cost of contracting the two sub-solutions at hand: a function of the two subgraphs that is
    at least both children's scores (the sieve lemma, proved for all six objectives in con_cost)"""
    si, sj = engine.num(st.vars["subgraph_i"]), engine.num(st.vars["subgraph_j"])
    c = _costuf(engine)(si, sj)
    st.assume(z3.And(c >= engine.num(args[3]), c >= engine.num(args[4])))
    return V(Int, [c])


def x_paircost(engine, st, args, node, kw):
    return V(Int, [_costuf(engine)(engine.num(args[0]), engine.num(args[1]))])


# (the loop targets are re-bound to the next pair when the iteration ends: prev(x) is this iteration's pair)
SI, SJ = "prev(subgraph_i)", "prev(subgraph_j)"
STEP = (f"bitand({SI}, {SJ}) != 0 or ifbound('skip_because_outer', False) or paircost({SI}, {SJ}) >= cost_cap"
        f" or (bitor({SI}, {SJ}) in contractions_m and contractions_m[bitor({SI}, {SJ})][1] <= paircost({SI}, {SJ}))")
# the table of size-m solutions only ever improves: no entry disappears, no score goes up
MONO = "forall(keys(prev(contractions_m)), lambda g: g in contractions_m and contractions_m[g][1] <= prev(contractions_m)[g][1])"

dp = Contract(
    target="cotengra.pathfinders.path_basic:ContractionProcessor.optimize_optimal_connected",
    props=["C09"],
    self_type=ProcT,
    params={"where": Ty.List(Ty.Int), "minimize": Key, "cost_cap": Ty.Int, "search_outer": Ty.Bool},
    requires=["len(where) >= 1", "forall(0, len(where), lambda p: where[p] in self.nodes)"],
    externals={"parse_minimize_for_optimal": x_parse, "cost_fn": x_cost, "paircost": x_paircost,
               "bitand": lambda e, st, a, n, k: V(Int, [e.specfns.setdefault("bitand", (z3.Function("bitand", Ty.IntS, Ty.IntS, Ty.IntS), [], Int, None))[0](e.num(a[0]), e.num(a[1]))]),
               "bitor": lambda e, st, a, n, k: V(Int, [e.specfns.setdefault("bitor", (z3.Function("bitor", Ty.IntS, Ty.IntS, Ty.IntS), [], Int, None))[0](e.num(a[0]), e.num(a[1]))])},
    hints={"contractions": Ty.List(TableT), "termmap": Ty.Map(Ty.Int, Ty.Int), "pairs": Ty.List(PairT), "new_legs": LegsL, "new_path": PathL,
           "ip": Ty.Int, "jp": Ty.Int, "skip_because_outer": Ty.Bool, "iix": Ty.Int, "ic": Ty.Int, "jix": Ty.Int, "jc": Ty.Int,
           "i": Ty.Int, "node": Ty.Int, "ilegs": LegsL, "isubgraph": Ty.Int, "iscore": Ty.Int, "ipath": PathL,
           "bitpath": PathL, "subgraph_i": Ty.Int, "subgraph_j": Ty.Int, "j": Ty.Int, "k": Ty.Int, "_": Ty.Int},
    nloops=None,
    loops={
        0: Loop(pos="t0", inv=["len(contractions) == nterms + 1 and nterms >= 1"]),
        1: Loop(inv=["len(contractions) == nterms + 1 and nterms >= 1"]),
        2: Loop(pos="t2", inv=["len(contractions) == nterms + 1 and nterms >= 1"]),
        3: Loop(pos="t3", inv=["len(contractions) == nterms + 1 and nterms >= 1 and 2 <= m and m <= nterms"]),
        4: Loop(pos="t4", inv=["len(contractions) == nterms + 1 and nterms >= 1 and 2 <= m and m <= nterms"], step=[STEP, MONO]),
    },
    ensures=[],
    assumptions=["pair enumeration, the sorted merge of the leg lists, path bookkeeping and the final replay are abstracted; bit masks are uninterpreted;"
                 " the step cost is an arbitrary function of the two subgraphs that is >= both children's scores (sieve lemma, proved in con_cost)"],
)
dp.abstract_stmts = {
    "pairs = itertools.product(": ["pairs"],
    "pairs = itertools.combinations(": ["pairs"],
    "while ip < ni and jp < nj:": ["ip", "jp", "new_legs", "skip_because_outer", "iix", "ic", "jix", "jc"],
    "new_legs.extend(": ["new_legs"],
    "new_path = (*ipath": ["new_path"],
    "(_, _, bitpath), = ": ["_", "bitpath"],
    "((_, _, bitpath),) = ": ["_", "bitpath"],
    "for subgraph_i, subgraph_j in bitpath:": ["subgraph_i", "subgraph_j", "i", "j", "k", "termmap", "self.nodes", "self.edges", "self.ssa", "self.ssa_path", "self.flops"],
}
CONTRACTS = [dp]
