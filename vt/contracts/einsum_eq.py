"""C01 ('in the declared axis order') / C11: the per-node einsum equation that
ContractionTree.get_einsum_eq hands to the pairwise einsum is a FAITHFUL
renaming of the node's index strings: two positions of 'L,R->P' carry the same
symbol in the equation iff they carry the same index in the tree, the
punctuation is where it belongs and no index is renamed to punctuation.  (With
that, einsum(eq, left, right) computes the contraction the tree means, for any
number of indices - the 52 plain letters are not enough for large networks.)

Strings are modelled as lists of code points (ord/chr are the identity).
Assumed contracts (listed in the evidence):
  * get_inds(node) is some string per node; every index of the parent occurs
    on one of the children (precondition, checked natively by the monitor on
    real trees);
  * utils.unique yields each distinct element of its argument exactly once
    (it is `dict.fromkeys`);
  * str.translate(mapping) replaces exactly the characters that are keys;
  * utils.get_symbol(i) == chr(cp(i)) - that is the PROVED postcondition of the
    get_symbol contract (misc_small); injectivity of cp is re-proved here as a
    lemma."""

import z3

from ..pyvc import types as Ty
from ..pyvc.contract import Contract, Lemma
from ..pyvc.engine import ObjT, Unsupported
from ..pyvc.types import V, Int, Key
from .misc_small import BASE, CP

StrT = Ty.List(Key)
TreeT = ObjT("ContractionTree", {"children": Ty.Map(Key, Ty.Tuple([Key, Key]))})


def _inds(engine, st, node_term):
    ln = engine.specfns.setdefault("uf!inds_len", (z3.Function("uf!inds_len", Ty.IntS, Ty.IntS), [], Int, None))[0]
    arr = engine.specfns.setdefault("uf!inds_arr", (z3.Function("uf!inds_arr", Ty.IntS, z3.ArraySort(Ty.IntS, Ty.IntS)), [], Int, None))[0]
    st.assume(ln(node_term) >= 0)
    return V(StrT, [ln(node_term), arr(node_term)])


def x_get_inds(engine, st, args, node, kw):
    return engine.alloc(st, _inds(engine, st, engine.keyterm(engine.deref(st, args[-1]))))


def x_map(engine, st, _args, node, kw):
    """map(self.get_inds, (a, b, c)) -> the tuple of the three index strings"""
    import ast

    f, seq = node.args
    if not (isinstance(f, ast.Attribute) and f.attr == "get_inds" and isinstance(seq, ast.Tuple)):
        raise Unsupported("map() of something else than self.get_inds over a tuple")
    return Ty.mk_tuple([_inds(engine, st, engine.keyterm(engine.deref(st, engine.eval(st, e)))) for e in seq.elts])


x_map.raw = True


def x_chain(engine, st, args, node, kw):
    a, b = (engine.deref(st, x) for x in args)
    q = z3.Int(f"ch!{node.lineno}.{node.col_offset}")
    v = V(StrT, [a.c[0] + b.c[0], z3.Lambda([q], z3.If(q < a.c[0], a.c[1][q], b.c[1][q - a.c[0]]))], py=("chain", [a, b]))
    return engine.alloc(st, v)


def x_unique(engine, st, args, node, kw):
    """utils.unique == order-preserving de-duplication (dict.fromkeys).  The
    facts are stated per chained piece so that they are keyed on `piece[p]`."""
    src = engine.deref(st, args[0])
    pieces = src.py[1] if isinstance(src.py, tuple) and src.py[0] == "chain" else [src]
    n = src.c[0]
    u = Ty.havoc(StrT, f"unique@{engine.line(node)}")
    m, b = u.c
    p, q = z3.Ints("un!p un!q")
    st.assume(z3.And(0 <= m, m <= n))
    st.assume(z3.ForAll([p, q], z3.Implies(z3.And(0 <= p, p < q, q < m), b[p] != b[q])))
    origin = []
    for pc in pieces:
        ln, a = pc.c
        if not (z3.is_const(a) or (z3.is_app(a) and a.decl().kind() == z3.Z3_OP_UNINTERPRETED)):
            nm = z3.Const(f"un!src!{engine.new_id()}", a.sort())
            st.assume(z3.ForAll([p], nm[p] == z3.simplify(a[p])))
            a = nm
        upos = z3.Function(f"un!upos!{engine.new_id()}", Ty.IntS, Ty.IntS)  # where an element of the source ends up
        spos = z3.Function(f"un!spos!{engine.new_id()}", Ty.IntS, Ty.IntS)  # where an element of the result came from
        st.assume(z3.ForAll([p], z3.Implies(z3.And(0 <= p, p < ln), z3.And(0 <= upos(p), upos(p) < m, b[upos(p)] == a[p])), patterns=[a[p]]))
        origin.append(z3.And(0 <= spos(q), spos(q) < ln, a[spos(q)] == b[q]))
    st.assume(z3.ForAll([q], z3.Implies(z3.And(0 <= q, q < m), z3.Or(*origin)), patterns=[b[q]]))
    return engine.alloc(st, u)


def x_get_symbol(engine, st, args, node, kw):
    cp = engine.specfns["cp"][0]
    return V(Key, [cp(engine.num(args[0]))])


def x_translate(engine, st, args, node, kw):
    s, mp = engine.deref(st, args[0]), engine.deref(st, args[1])
    q = z3.Int(f"tr!{node.lineno}.{node.col_offset}")
    ch = s.c[1][q]
    return engine.alloc(st, V(StrT, [s.c[0], z3.Lambda([q], z3.If(mp.c[0][ch], mp.c[1][ch], ch))]))


def x_isascii(engine, st, args, node, kw):
    c = engine.keyterm(engine.deref(st, args[0]))
    return Ty.mk_bool(z3.And(0 <= c, c < 128))


L, R, P = "self.get_inds(self.children[node][0])", "self.get_inds(self.children[node][1])", "self.get_inds(node)"
OFF = {"L": "0", "R": "len(L) + 1", "P": "len(L) + len(R) + 3"}


def _same(a, b):
    return (f"forall(0, len({a}), lambda p: forall(0, len({b}), lambda q: "
            f"(result[{OFF[a]} + p] == result[{OFF[b]} + q]) == ({a}[p] == {b}[q])))")


def _nopunct(a):
    return f"forall(0, len({a}), lambda p: ord(result[{OFF[a]} + p]) != 44 and ord(result[{OFF[a]} + p]) != 45 and ord(result[{OFF[a]} + p]) != 62)"


get_einsum_eq = Contract(
    target="cotengra.core:ContractionTree.get_einsum_eq",
    props=["C01", "C11"],
    self_type=TreeT,
    params={"node": Key},
    lets={"BASE": f"'{BASE}'", "L": L, "R": R, "P": P},
    spec={"cp": CP},
    lemmas=[
        Lemma("injective", "a", "0", "10000000", "forall(0, 10000000, lambda b: implies(a < b, cp(a) != cp(b)))", induction=None, assume=False),
        Lemma("letters_or_beyond", "a", "0", "10000000", "cp(a) >= 65", induction=None, assume=False),
    ],
    requires=[
        "node in self.children",
        "len(L) + len(R) < 10000000",
        # an index is never one of the punctuation characters of an einsum equation
        "forall(0, len(L), lambda p: ord(L[p]) != 44 and ord(L[p]) != 45 and ord(L[p]) != 62)",
        "forall(0, len(R), lambda p: ord(R[p]) != 44 and ord(R[p]) != 45 and ord(R[p]) != 62)",
        # every index of the parent lives on one of the children
        "forall(0, len(P), lambda p: exists(0, len(L), lambda q: L[q] == P[p]) or exists(0, len(R), lambda q: R[q] == P[p]))",
    ],
    returns=StrT,
    externals={
        "ContractionTree.get_inds": x_get_inds, "map": x_map, "itertools.chain": x_chain, "unique": x_unique,
        "get_symbol": x_get_symbol, "*.translate": x_translate, "*.isascii": x_isascii,
    },
    ensures=[
        "len(result) == len(L) + len(R) + len(P) + 3",
        "ord(result[len(L)]) == 44 and ord(result[len(L) + len(R) + 1]) == 45 and ord(result[len(L) + len(R) + 2]) == 62",
        _same("L", "L"), _same("L", "R"), _same("L", "P"), _same("R", "R"), _same("R", "P"), _same("P", "P"),
        _nopunct("L"), _nopunct("R"), _nopunct("P"),
    ],
    assumptions=[
        "get_inds(node) returns one fixed string per node (pure); utils.unique == dict.fromkeys order-preserving de-duplication; str.translate replaces exactly the mapped characters",
        "strings are lists of code points; get_symbol(i) == chr(cp(i)) is the proved postcondition of the get_symbol contract",
    ],
)
get_einsum_eq.natives = {"BASE": BASE}

CONTRACTS = [get_einsum_eq]


def _gen(rng):
    """Real two-tensor-per-node trees whose index alphabet mixes plain letters with
    the extended symbols get_symbol produces beyond 52 indices."""
    import cotengra as ctg

    pool = list("abcdefgXYZ") + [ctg.utils.get_symbol(i) for i in (52, 53, 54, 55, 60, 200)] + list("hijk")
    n = rng.randint(2, 4)
    k = rng.randint(2, 7)
    alpha = rng.sample(pool, k)
    inputs = [tuple(rng.sample(alpha, rng.randint(1, min(4, k)))) for _ in range(n)]
    used = sorted({ix for t in inputs for ix in t}, key=alpha.index)
    out = tuple(rng.sample(used, rng.randint(0, min(3, len(used)))))
    sd = {ix: rng.randint(2, 3) for ix in used}
    from ..scope import random_tree_ssa

    tree = ctg.ContractionTree.from_path(inputs, out, sd, ssa_path=random_tree_ssa(n, rng))
    if rng.random() < 0.5:
        tree.sort_contraction_indices()
    if rng.random() < 0.3 and tree.size_dict:
        tree.remove_ind_(rng.choice(sorted(tree.size_dict)))
    node = rng.choice(list(tree.children))
    return {"self": tree, "args": (node,), "describe": f"inputs={inputs} output={out} node={sorted(node)}"}


get_einsum_eq.gen = _gen
get_einsum_eq.pre_must_hold = True  # inputs are real trees built through the public API
