"""C12: pieces of the einsum front end.

utils.find_output_from_inputs(inputs): the implicit output of an equation
without '->' in cotengra's own convention - exactly the indices that occur once
over all terms (each listed once).  Counting is stated with the column-count
theory: tot(k, t) = occurrences of k in the first t terms."""

from ..pyvc import types as Ty
from ..pyvc.contract import Contract, Loop
from ..pyvc.types import Key

TermsT = Ty.List(Ty.List(Key))
TOT = "def tot(k, t):\n    return 0 if t <= 0 else tot(k, t - 1) + count_in(inputs[t - 1], k, len(inputs[t - 1]))\n"
OnceT = Ty.Map(Key, Ty.NoneT)  # the order of the listing is not part of this contract

find_output = Contract(
    target="cotengra.utils:find_output_from_inputs",
    props=["C12"],
    params={"inputs": TermsT},
    spec={"tot": TOT},
    returns=Ty.List(Key),
    hints={"once": OnceT},
    nloops=2,
    loops={
        0: Loop(pos="t", inv=[
            "forall(lambda k: tot(k, t) >= 0)",
            "forall(lambda k: (k in appeared) == (tot(k, t) >= 1))",
            "forall(lambda k: (k in once) == (tot(k, t) == 1))",
        ]),
        1: Loop(pos="u", inv=[
            "forall(lambda k: tot(k, t) >= 0)",
            "forall(lambda k: (k in appeared) == (tot(k, t) + count_in(term, k, u) >= 1))",
            "forall(lambda k: (k in once) == (tot(k, t) + count_in(term, k, u) == 1))",
        ]),
    },
    ensures=[
        # exactly the indices that occur once over all terms ...
        "forall(0, len(result), lambda p: tot(result[p], len(inputs)) == 1)",
        "forall(lambda k: implies(tot(k, len(inputs)) == 1, exists(0, len(result), lambda p: result[p] == k)))",
        # ... each listed once
        "forall(0, len(result), lambda p: forall(0, len(result), lambda q: implies(p < q, result[p] != result[q])))",
    ],
    assumptions=["index labels are hashable values compared by equality"],
)
CONTRACTS = [find_output]


def _gen(rng):
    labels = ["a", "b", "c", "d", 1, 2, (3, 4)]
    inputs = [tuple(rng.choice(labels) for _ in range(rng.randint(0, 4))) for _ in range(rng.randint(0, 4))]
    return {"args": (inputs,), "universe": labels, "describe": f"inputs={inputs}"}


find_output.gen = _gen
