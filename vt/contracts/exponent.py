"""Contracts for the exponent-stripping algebra (C19), over mathematical
reals: add_maybe_exponent_stripped.  10**x is an uninterpreted function with
10**(a+b) == 10**a * 10**b, 10**0 == 1, 10**a > 0 (floats treated as reals:
this proves the algebra, not the absence of overflow).  Arrays are abstracted
by one real entry (the operations are elementwise)."""

from ..pyvc import types as Ty
from ..pyvc.contract import Contract

R = Ty.Real
P = Ty.Tuple([Ty.Real, Ty.Real])
ASSUME = ["machine floats treated as mathematical reals; 10**x uninterpreted with the exponent laws; arrays abstracted by a single real entry (elementwise operations)"]

plain = Contract(
    target="cotengra.core:add_maybe_exponent_stripped", variant="plain+plain", props=["C19"],
    params={"x": R, "y": R}, returns=R, ensures=["result == x + y"], assumptions=ASSUME,
)
tt = Contract(
    target="cotengra.core:add_maybe_exponent_stripped", variant="pair+pair", props=["C19"],
    params={"x": P, "y": P}, returns=P,
    ensures=["close(result[0] * 10 ** result[1], x[0] * 10 ** x[1] + y[0] * 10 ** y[1])",
             "result[1] >= x[1] and result[1] >= y[1]"],
    assumptions=ASSUME,
)
tp = Contract(
    target="cotengra.core:add_maybe_exponent_stripped", variant="pair+plain", props=["C19"],
    params={"x": P, "y": R}, returns=P,
    ensures=["close(result[0] * 10 ** result[1], x[0] * 10 ** x[1] + y)"], assumptions=ASSUME,
)
pt = Contract(
    target="cotengra.core:add_maybe_exponent_stripped", variant="plain+pair", props=["C19"],
    params={"x": R, "y": P}, returns=P,
    ensures=["close(result[0] * 10 ** result[1], x + y[0] * 10 ** y[1])"], assumptions=ASSUME,
)
CONTRACTS = [plain, tt, tp, pt]
for _c in CONTRACTS:
    _c.split_minmax = True


def _val(rng, pair):
    m = float(rng.choice([-3, -1, 1, 2, 5]))
    if pair:
        return (m, float(rng.randint(-3, 3)))
    return m


def _mk(px, py):
    def gen(rng):
        x, y = _val(rng, px), _val(rng, py)
        return {"args": (x, y), "describe": f"x={x} y={y}"}

    return gen


plain.gen, tt.gen, tp.gen, pt.gen = _mk(False, False), _mk(True, True), _mk(True, False), _mk(False, True)
