"""C01: the schedule extract_contractions builds from a tree.

cotengra.contract:extract_contractions(tree, order, prefer_einsum), for a tree
without single-term preprocessing: the k-th entry is the k-th step (p, l, r) of
tree.traverse(order) - same nodes, same order, children in the same order - and
carries the recipe OF THAT PARENT by the method the entry names: the einsum
equation get_einsum_eq(p) and no permutation, or - only where tensordot can do the
step - get_tensordot_axes(p) with get_tensordot_perm(p).  Which of the two is
chosen when both would do is not pinned (a performance matter).

With the traversal contract (children before parents, no step twice: traversal.py),
the recipe contracts (einsum_eq.py, tensordot_recipe.py) and the execution
contract (contractor_protocol.py) this closes the chain tree -> recipes ->
schedule -> execution for C01; the chain itself (an induction over the tree) is
not mechanised.

Assumed: tree.traverse(order) yields one fixed sequence per call; get_einsum_eq,
get_can_dot, get_tensordot_axes, get_tensordot_perm are functions of the node
(each has its own contract).  The variant with single-term preprocessing steps
(`tree.preprocessing` non-empty) concatenates two generators of differently
shaped tuples and is outside the prover's subset: it is covered by the bounded
driver and by the monitored precondition of contractor_protocol only."""

import z3

from ..pyvc import types as Ty
from ..pyvc.contract import Contract
from ..pyvc.engine import ObjT
from ..pyvc.types import V, Int, Key

PermT = Ty.Opt(Ty.List(Int))
TravT = Ty.List(Ty.Tuple([Key, Key, Key]))
TreeT = ObjT("ContractionTree", {"preprocessing": Ty.Map(Int, Key)})
StepT = Ty.Tuple([Key, Key, Key, Ty.Bool, Key, PermT])


def _uf(engine, name, *sorts):
    if name not in engine.specfns:
        engine.specfns[name] = (z3.Function(name, *sorts), [], Int, None)
    return engine.specfns[name][0]


def x_traverse(engine, st, args, node, kw):
    # one fixed sequence (the traversal contract says which)
    if not hasattr(engine, "_trav"):
        v = Ty.havoc(TravT, "trav")
        for f in Ty.wf(v, "trav"):
            st.assume(f)
        engine._trav = v
    return engine.alloc(st, engine._trav)


def x_eq(engine, st, args, node, kw):
    return V(Key, [_uf(engine, "uf!einsum_eq", Ty.IntS, Ty.IntS)(engine.keyterm(engine.deref(st, args[-1])))])


def x_can_dot(engine, st, args, node, kw):
    return Ty.mk_bool(_uf(engine, "uf!can_dot", Ty.IntS, Ty.BoolS)(engine.keyterm(engine.deref(st, args[-1]))))


def x_axes(engine, st, args, node, kw):
    return V(Key, [_uf(engine, "uf!tdot_axes", Ty.IntS, Ty.IntS)(engine.keyterm(engine.deref(st, args[-1])))])


def x_perm(engine, st, args, node, kw):
    k = engine.keyterm(engine.deref(st, args[-1]))
    return V(PermT, [_uf(engine, "uf!perm_none", Ty.IntS, Ty.BoolS)(k), _uf(engine, "uf!perm_len", Ty.IntS, Ty.IntS)(k),
                     _uf(engine, "uf!perm_arr", Ty.IntS, z3.ArraySort(Ty.IntS, Ty.IntS))(k)])


TR = "tree.traverse(order)"
P = f"{TR}[k][0]"
extract = Contract(
    target="cotengra.contract:extract_contractions",
    variant="no-preprocessing",
    props=["C01"],
    params={"tree": TreeT, "order": Key, "prefer_einsum": Ty.Bool},
    requires=["keys(tree.preprocessing) == empty()"],
    returns=Ty.List(StepT),
    externals={"ContractionTree.traverse": x_traverse, "ContractionTree.get_einsum_eq": x_eq, "ContractionTree.get_can_dot": x_can_dot,
               "ContractionTree.get_tensordot_axes": x_axes, "ContractionTree.get_tensordot_perm": x_perm},
    hints={"contractions": Ty.List(StepT)},
    ensures_t1=[
        f"len(result) == len({TR})",
        # same steps, same order, children in the same order
        f"forall(0, len(result), lambda k: result[k][0] == {TR}[k][0] and result[k][1] == {TR}[k][1] and result[k][2] == {TR}[k][2])",
        # tensordot only where it can do the step (WHICH of the two is chosen when both can is a performance
        # matter, not part of the value property: deliberately not pinned)
        f"forall(0, len(result), lambda k: implies(result[k][3], tree.get_can_dot({P})))",
        # ... each with the recipe of its own parent
        f"forall(0, len(result), lambda k: implies(result[k][3], result[k][4] == tree.get_tensordot_axes({P}) and result[k][5] == tree.get_tensordot_perm({P})))",
        f"forall(0, len(result), lambda k: implies(not result[k][3], result[k][4] == tree.get_einsum_eq({P}) and result[k][5] is None))",
    ],
    assumptions=["tree.traverse(order) yields one fixed sequence; get_einsum_eq / get_can_dot / get_tensordot_axes / get_tensordot_perm are functions of the node (own contracts)"],
)
CONTRACTS = [extract]


def _consistent(result, tree, order):
    """every entry is the traversal step at its position with the recipe of its own parent, by the method it names"""
    steps = list(tree.traverse(order=order))
    if len(result) != len(steps):
        return False
    for (p, l, r, tdot, arg, perm), (p0, l0, r0) in zip(result, steps):
        if (p, l, r) != (p0, l0, r0):
            return False
        if tdot:
            if not tree.get_can_dot(p) or arg != tree.get_tensordot_axes(p) or perm != tree.get_tensordot_perm(p):
                return False
        elif arg != tree.get_einsum_eq(p) or perm is not None:
            return False
    return True


extract.natives = {"consistent": _consistent}
extract.ensures_rt = ["consistent(result, tree, order)"]


def _gen(rng):
    import cotengra as ctg
    from ..scope import random_tree_ssa

    n = rng.randint(2, 6)
    if n >= 3:
        con = ctg.utils.rand_equation(n, 3, n_out=rng.randint(0, 2), n_hyper_in=rng.randint(0, 1), n_hyper_out=rng.randint(0, 1), seed=rng.randint(0, 10**6))
        inputs, output, sd = con.inputs, con.output, con.size_dict
    else:
        inputs, output, sd = [("a", "b", "c"), ("c", "b", "d")], ("d", "a"), {"a": 2, "b": 2, "c": 3, "d": 2}
    tree = ctg.ContractionTree.from_path(inputs, output, sd, ssa_path=random_tree_ssa(len(inputs), rng))
    if tree.preprocessing:
        return None
    order = rng.choice([None, "dfs", "surface_order"])
    pe = rng.random() < 0.4
    return {"args": (tree, order, pe), "describe": f"inputs={inputs} output={output} order={order} prefer_einsum={pe}"}


extract.gen = _gen
