"""Contract for the trial score wrapper of the hyper-optimizer (C08):
ComputeScore.__call__ captures failing trials.

The wrapped trial function is an external that may return a trial dict, raise
BadTrial, or raise any other exception (three nondeterministic outcomes).
Obligation: unless on_trial_error == 'raise', no exception escapes; a failed
trial yields score == inf (so it can never win the arg-min) and carries no
tree; every returned trial has a score and a time."""

import z3

from ..pyvc import types as Ty
from ..pyvc.contract import Contract
from ..pyvc.engine import ObjT, NeedSplit, RaiseSignal, PyConst
from ..pyvc.types import V, Real, Key

TrialT = Ty.SDict({"tree": Ty.Key, "score": Ty.Real, "flops": Ty.Real, "write": Ty.Real, "size": Ty.Real, "time": Ty.Real})
RngT = ObjT("Random", {})
SelfT = ObjT(
    "ComputeScore",
    {"score_compression": Ty.Real, "score_smudge": Ty.Real, "on_trial_error": Ty.Key, "rng": RngT, "_fn_failed": Ty.Bool},
)


def _fn(engine, st, args, node, kw):
    """self.fn(...): returns a trial with a tree, or raises."""
    a = z3.Bool(f"fn_bad@{engine.line(node)}")
    b = z3.Bool(f"fn_exc@{engine.line(node)}")
    da = st.decided(a)
    if da is None:
        raise NeedSplit(a)
    selfref = args[0]
    if da:
        _mark(engine, st, selfref)
        raise RaiseSignal("BadTrial")
    db = st.decided(b)
    if db is None:
        raise NeedSplit(b)
    if db:
        _mark(engine, st, selfref)
        raise RaiseSignal("ValueError")
    t = Ty.sdict_empty(TrialT, "trial")
    comps = list(t.c)
    comps[TrialT.offsets()["tree"][0]] = z3.BoolVal(True)
    return engine.alloc(st, V(TrialT, comps))


def _mark(engine, st, selfref):
    ob = engine.deref(st, selfref).clone()
    ob.fields["_fn_failed"] = Ty.mk_bool(True)
    st.heap[selfref.id] = ob


def _real(engine, st, args, node, kw):
    return V(Real, [engine.fresh(st, "extreal", node, Ty.RealS)])


def _none(engine, st, args, node, kw):
    return Ty.mk_none()


compute_score = Contract(
    target="cotengra.hyperoptimizers.hyper:ComputeScore.__call__",
    props=["C08"],
    self_type=SelfT,
    params={"*ok": True},
    hints={"trial": TrialT},
    externals={
        "ComputeScore.fn": _fn, "ComputeScore.score_fn": _real, "Random.gauss": _real,
        "time.time": _real, "warnings.warn": _none,
    },
    requires=["not self._fn_failed"],
    raises={"BadTrial": "False", "ValueError": "self.on_trial_error == 'raise'"},
    ensures=[
        "'score' in result and 'time' in result",
        # a failing trial is given an infinite score and has no tree
        "implies(self._fn_failed, result['score'] == float('inf') and not ('tree' in result))",
        "implies(self._fn_failed, result['flops'] == float('inf') and result['write'] == float('inf') and result['size'] == float('inf'))",
        "implies(not self._fn_failed, 'tree' in result)",
    ],
    assumptions=["the wrapped trial function either returns a trial dict holding a tree, raises BadTrial, or raises another exception (modelled as ValueError); score_fn, rng.gauss, time.time are arbitrary reals"],
)

CONTRACTS = [compute_score]


# --------------------------------------------------------- _maybe_report_result
SettingT = Ty.SDict({"method": Ty.Key, "params": Ty.Key})
RL = Ty.List(Ty.Real)
KL = Ty.List(Ty.Key)
HyperT = ObjT(
    "HyperOptimizer",
    {
        "best_score": Ty.Real, "max_training_steps": Ty.Opt(Ty.Int),
        "method_choices": KL, "param_choices": KL, "costs_flops": RL, "costs_write": RL, "costs_size": RL,
        "scores": RL, "times": RL,
    },
)


def grew(lst, val):
    return (f"len(self.{lst}) == old(len(self.{lst})) + 1 and self.{lst}[len(self.{lst}) - 1] == {val}"
            f" and forall(0, old(len(self.{lst})), lambda p: self.{lst}[p] == old(self.{lst})[p])")


report = Contract(
    target="cotengra.hyperoptimizers.hyper:HyperOptimizer._maybe_report_result",
    props=["C08"],
    self_type=HyperT,
    params={"setting": SettingT, "trial": TrialT},
    externals={"call:self._optimizer['report_result']": _none},
    requires=[
        "'score' in trial and 'flops' in trial and 'write' in trial and 'size' in trial and 'time' in trial",
        "'method' in setting and 'params' in setting",
        # the record lists are aligned on entry
        "len(self.method_choices) == len(self.scores) and len(self.param_choices) == len(self.scores) and len(self.costs_flops) == len(self.scores)"
        " and len(self.costs_write) == len(self.scores) and len(self.costs_size) == len(self.scores) and len(self.times) == len(self.scores)",
    ],
    modifies=["self.best_score", "self.method_choices", "self.param_choices", "self.costs_flops", "self.costs_write", "self.costs_size", "self.scores", "self.times"],
    ensures=[
        # exactly one record per trial, appended to every list together: the last
        # method/params entry belongs to the trial just reported
        grew("method_choices", "setting['method']"), grew("param_choices", "setting['params']"),
        grew("costs_flops", "trial['flops']"), grew("costs_write", "trial['write']"), grew("costs_size", "trial['size']"),
        grew("scores", "trial['score']"), grew("times", "trial['time']"),
        "self.best_score == min(old(self.best_score), trial['score'])",
    ],
    assumptions=["the optimizer library's report_result callback does not touch the record lists"],
)
CONTRACTS.append(report)
