"""Contract for the trial score wrapper of the hyper-optimizer (C08):
ComputeScore.__call__ captures failing trials.

The wrapped trial function is an external that may return a trial dict, raise
BadTrial, or raise any other exception (three nondeterministic outcomes).
Obligation: unless on_trial_error == 'raise', no exception escapes; a failed
trial yields score == inf (so it can never win the arg-min) and carries no
tree; every returned trial has a score and a time."""

import z3

from ..pyvc import types as Ty
from ..pyvc.contract import Contract
from ..pyvc.engine import ObjT, NeedSplit, RaiseSignal, PyConst
from ..pyvc.types import V, Real, Key

TrialT = Ty.SDict({"tree": Ty.Key, "score": Ty.Real, "flops": Ty.Real, "write": Ty.Real, "size": Ty.Real, "time": Ty.Real})
RngT = ObjT("Random", {})
SelfT = ObjT(
    "ComputeScore",
    {"score_compression": Ty.Real, "score_smudge": Ty.Real, "on_trial_error": Ty.Key, "rng": RngT, "_fn_failed": Ty.Bool},
)


def _fn(engine, st, args, node, kw):
    """self.fn(...): returns a trial with a tree, or raises."""
    a = z3.Bool(f"fn_bad@{engine.line(node)}")
    b = z3.Bool(f"fn_exc@{engine.line(node)}")
    da = st.decided(a)
    if da is None:
        raise NeedSplit(a)
    selfref = args[0]
    if da:
        _mark(engine, st, selfref)
        raise RaiseSignal("BadTrial")
    db = st.decided(b)
    if db is None:
        raise NeedSplit(b)
    if db:
        _mark(engine, st, selfref)
        raise RaiseSignal("ValueError")
    t = Ty.sdict_empty(TrialT, "trial")
    comps = list(t.c)
    comps[TrialT.offsets()["tree"][0]] = z3.BoolVal(True)
    return engine.alloc(st, V(TrialT, comps))


def _mark(engine, st, selfref):
    ob = engine.deref(st, selfref).clone()
    ob.fields["_fn_failed"] = Ty.mk_bool(True)
    st.heap[selfref.id] = ob


def _real(engine, st, args, node, kw):
    return V(Real, [engine.fresh(st, "extreal", node, Ty.RealS)])


def _none(engine, st, args, node, kw):
    return Ty.mk_none()


compute_score = Contract(
    target="cotengra.hyperoptimizers.hyper:ComputeScore.__call__",
    props=["C08"],
    self_type=SelfT,
    params={"*ok": True},
    hints={"trial": TrialT},
    externals={
        "ComputeScore.fn": _fn, "ComputeScore.score_fn": _real, "Random.gauss": _real,
        "time.time": _real, "warnings.warn": _none,
    },
    requires=["not self._fn_failed"],
    raises={"BadTrial": "False", "ValueError": "self.on_trial_error == 'raise'"},
    ensures=[
        "'score' in result and 'time' in result",
        # a failing trial is given an infinite score and has no tree
        "implies(self._fn_failed, result['score'] == float('inf') and not ('tree' in result))",
        "implies(self._fn_failed, result['flops'] == float('inf') and result['write'] == float('inf') and result['size'] == float('inf'))",
        "implies(not self._fn_failed, 'tree' in result)",
    ],
    assumptions=["the wrapped trial function either returns a trial dict holding a tree, raises BadTrial, or raises another exception (modelled as ValueError); score_fn, rng.gauss, time.time are arbitrary reals"],
)

CONTRACTS = [compute_score]


# --------------------------------------------------------- _maybe_report_result
SettingT = Ty.SDict({"method": Ty.Key, "params": Ty.Key})
RL = Ty.List(Ty.Real)
KL = Ty.List(Ty.Key)
HyperT = ObjT(
    "HyperOptimizer",
    {
        "best_score": Ty.Real, "max_training_steps": Ty.Opt(Ty.Int),
        "method_choices": KL, "param_choices": KL, "costs_flops": RL, "costs_write": RL, "costs_size": RL,
        "scores": RL, "times": RL,
    },
)


def grew(lst, val):
    return (f"len(self.{lst}) == old(len(self.{lst})) + 1 and self.{lst}[len(self.{lst}) - 1] == {val}"
            f" and forall(0, old(len(self.{lst})), lambda p: self.{lst}[p] == old(self.{lst})[p])")


report = Contract(
    target="cotengra.hyperoptimizers.hyper:HyperOptimizer._maybe_report_result",
    props=["C08"],
    self_type=HyperT,
    params={"setting": SettingT, "trial": TrialT},
    externals={"call:self._optimizer['report_result']": _none},
    requires=[
        "'score' in trial and 'flops' in trial and 'write' in trial and 'size' in trial and 'time' in trial",
        "'method' in setting and 'params' in setting",
        # the record lists are aligned on entry
        "len(self.method_choices) == len(self.scores) and len(self.param_choices) == len(self.scores) and len(self.costs_flops) == len(self.scores)"
        " and len(self.costs_write) == len(self.scores) and len(self.costs_size) == len(self.scores) and len(self.times) == len(self.scores)",
    ],
    modifies=["self.best_score", "self.method_choices", "self.param_choices", "self.costs_flops", "self.costs_write", "self.costs_size", "self.scores", "self.times"],
    ensures=[
        # exactly one record per trial, appended to every list together: the last
        # method/params entry belongs to the trial just reported
        grew("method_choices", "setting['method']"), grew("param_choices", "setting['params']"),
        grew("costs_flops", "trial['flops']"), grew("costs_write", "trial['write']"), grew("costs_size", "trial['size']"),
        grew("scores", "trial['score']"), grew("times", "trial['time']"),
        "self.best_score == min(old(self.best_score), trial['score'])",
    ],
    assumptions=["the optimizer library's report_result callback does not touch the record lists"],
)
CONTRACTS.append(report)


# ------------------------------------------------- _get_and_report_next_future
# C08 under any completion order of the futures: one call hands exactly one
# finished future's result to the caller, reports exactly that result (once) and
# removes exactly that future; results of other finished futures stay queued.
PairT = Ty.Tuple([Ty.Key, Ty.Key])  # (setting, future)
FutSelfT = ObjT("HyperOptimizer", {"_futures": Ty.List(PairT), "reported": Ty.List(PairT)})


def _done(engine, st, args, node, kw):
    """future.done(): any answer, at any time (the schedule is arbitrary)."""
    b = engine.fresh(st, "done", node, Ty.BoolS)
    d = st.decided(b)
    if d is None:
        raise NeedSplit(b)
    return Ty.mk_bool(bool(d))


def _result(engine, st, args, node, kw):
    f = engine.keyterm(engine.deref(st, args[0]))
    key = "uf!future_result"
    if key not in engine.specfns:
        engine.specfns[key] = (z3.Function(key, Ty.IntS, Ty.IntS), [], Ty.Int, None)
    return V(Key, [engine.specfns[key][0](f)])


def _report(engine, st, args, node, kw):
    """self._maybe_report_result(setting, trial): recorded in the ghost list `reported`."""
    selfref = args[0]
    ob = engine.deref(st, selfref).clone()
    rep = engine.deref(st, ob.fields["reported"])
    pair = Ty.mk_tuple([engine.unbox_value(st, args[1]), engine.unbox_value(st, args[2])])
    new = V(rep.t, [rep.c[0] + 1] + [z3.Store(a, rep.c[0], c) for a, c in zip(rep.c[1:], pair.c)])
    if isinstance(ob.fields["reported"], type(selfref)):
        st.heap[ob.fields["reported"].id] = new
    else:
        ob.fields["reported"] = new
        st.heap[selfref.id] = ob
    return Ty.mk_none()


UNCHANGED = ("len(self._futures) == old(len(self._futures)) and forall(0, len(self._futures), lambda j: self._futures[j] == old(self._futures)[j])"
             " and len(self.reported) == old(len(self.reported)) and forall(0, len(self.reported), lambda j: self.reported[j] == old(self.reported)[j])")
from ..pyvc.contract import Loop  # noqa: E402

next_future = Contract(
    target="cotengra.hyperoptimizers.hyper:HyperOptimizer._get_and_report_next_future",
    props=["C08"],
    self_type=FutSelfT,
    params={},
    returns=Ty.Key,
    externals={"*.done": _done, "*.result": _result, "HyperOptimizer._maybe_report_result": _report, "time.sleep": _none},
    modifies=["self._futures", "self.reported"],
    nloops=2,
    loops={0: Loop(inv=[UNCHANGED]), 1: Loop(pos="t", inv=[UNCHANGED])},
    ensures=[
        "len(self._futures) == old(len(self._futures)) - 1",
        "len(self.reported) == old(len(self.reported)) + 1",
        "forall(0, old(len(self.reported)), lambda j: self.reported[j] == old(self.reported)[j])",
        # the future that was removed is the one whose result is returned and reported, with its own setting
        "exists(0, old(len(self._futures)), lambda i: result == old(self._futures)[i][1].result()"
        " and self.reported[len(self.reported) - 1] == (old(self._futures)[i][0], result)"
        " and forall(0, len(self._futures), lambda j: self._futures[j] == (old(self._futures)[j] if j < i else old(self._futures)[j + 1])))",
    ],
    assumptions=["future.done() may answer anything at any time; future.result() is a fixed value per future; termination of the polling loop is not proved",
                 "_maybe_report_result is represented by a ghost list of (setting, trial) pairs"],
)
CONTRACTS.append(next_future)


class _Fut:
    def __init__(self, name, done_at):
        self.name, self.done_at, self.polls = name, done_at, 0

    def done(self):
        self.polls += 1
        return self.polls >= self.done_at

    def result(self):
        return "trial-of-" + self.name

    def __repr__(self):
        return f"Fut({self.name})"

    def __eq__(self, other):  # the pre-state snapshot holds copies
        return isinstance(other, _Fut) and other.name == self.name

    def __hash__(self):
        return hash(self.name)


def _gen_next(rng):
    from cotengra.hyperoptimizers.hyper import HyperOptimizer

    opt = object.__new__(HyperOptimizer)
    n = rng.randint(1, 4)
    # several futures are typically finished at the same scan
    opt._futures = [(f"setting{i}", _Fut(str(i), rng.choice((1, 1, 1, 2, 3)))) for i in range(n)]
    opt.reported = []
    opt._maybe_report_result = lambda setting, trial: opt.reported.append((setting, trial))
    return {"self": opt, "args": (), "describe": f"futures finishing at poll {[f.done_at for _s, f in opt._futures]}"}


next_future.gen = _gen_next


# ------------------------------------------------------------------- _search
# C08: after the search, `best` is an arg-min over the previous best and every
# trial that was consumed (tie-breaking among equal scores is not specified); every trial the
# generator yields is consumed (no time limit in this variant).
BestT = Ty.SDict({"tree": Ty.Key, "score": Ty.Real, "flops": Ty.Real, "write": Ty.Real, "size": Ty.Real, "time": Ty.Real,
                  "params": Ty.Map(Ty.Key, Ty.Key)})
SearchT = ObjT(
    "HyperOptimizer",
    {
        "max_time": Ty.NoneT, "_repeats_start": Ty.Int, "scores": RL, "max_repeats": Ty.Int, "_pool": Ty.Opt(Ty.Key), "progbar": Ty.Bool,
        "best": BestT, "trials_since_best": Ty.Int, "param_choices": KL, "method_choices": KL,
    },
)


def _setup(engine, st, args, node, kw):
    return Ty.mk_tuple([V(Key, [engine.fresh(st, "trial_fn", node, Ty.IntS)]), V(Key, [engine.fresh(st, "trial_args", node, Ty.IntS)])])


def _gen_results(engine, st, args, node, kw):
    """the generator of trials: the ghost sequence TR (any length, any scores)"""
    return st.vars["TR"]


def _dict_of(engine, st, args, node, kw):
    return engine.alloc(st, Ty.havoc(Ty.Map(Ty.Key, Ty.Key), f"dict@{engine.line(node)}"))


TRL = Ty.List(BestT)
search = Contract(
    target="cotengra.hyperoptimizers.hyper:HyperOptimizer._search",
    variant="no-time-limit",
    props=["C08"],
    self_type=SearchT,
    params={"inputs": Ty.Key, "output": Ty.Key, "size_dict": Ty.Key},
    ghost={"TR": (TRL, "None")},
    hints={"trial": BestT, "trials": TRL},
    externals={
        "HyperOptimizer.setup": _setup, "HyperOptimizer._gen_results": _gen_results, "HyperOptimizer._gen_results_parallel": _gen_results,
        "HyperOptimizer._maybe_cancel_futures": _none, "dict": _dict_of,
    },
    requires=[
        "not self.progbar",
        "'score' in self.best",
        "forall(0, len(TR), lambda k: 'score' in TR[k])",
        # the generator reports a trial (appending its setting) before yielding it
        "len(self.param_choices) >= 1 and len(self.method_choices) >= 1",
        "self.trials_since_best >= 0",
    ],
    modifies=["self.best", "self.trials_since_best"],
    nloops=1,
    loops={
        0: Loop(
            pos="t",
            inv=[
                "'score' in self.best",
                "self.best['score'] <= old(self.best['score'])",
                "forall(0, t, lambda k: self.best['score'] <= TR[k]['score'])",
                # the winner is the previous best or one of the consumed trials (which one among equals is not part of the property)
                "(bi == -1 and self.best['score'] == old(self.best['score']) and (('tree' in self.best) == old('tree' in self.best) and implies('tree' in self.best, self.best['tree'] == old(self.best['tree']))))"
                " or (0 <= bi and bi < t and self.best['score'] == TR[bi]['score'] and (('tree' in self.best) == ('tree' in TR[bi]) and implies('tree' in self.best, self.best['tree'] == TR[bi]['tree']))"
                ")",
                "self.trials_since_best >= 0",
            ],
            # bi follows the decision the code took (it resets trials_since_best exactly when it replaces best)
            ghosts={"bi": ("-1", "(t - 1) if self.trials_since_best == 0 else prev(bi)")},
        )
    },
    ensures=[
        "'score' in self.best",
        "self.best['score'] <= old(self.best['score'])",
        "forall(0, len(TR), lambda k: self.best['score'] <= TR[k]['score'])",
        "(self.best['score'] == old(self.best['score']) and (('tree' in self.best) == old('tree' in self.best) and implies('tree' in self.best, self.best['tree'] == old(self.best['tree']))))"
        " or exists(0, len(TR), lambda b: self.best['score'] == TR[b]['score'] and (('tree' in self.best) == ('tree' in TR[b]) and implies('tree' in self.best, self.best['tree'] == TR[b]['tree'])))",
    ],
    assumptions=["variant max_time=None, progbar=False; the trial generator (sequential or parallel) is represented by an arbitrary finite sequence of trial records; "
                 "`self.best = trial` stores the record by value (the later `best['params'] = ...` also lands in the trial dict in CPython: aliasing not modelled)"],
)
CONTRACTS.append(search)


def _gen_search(rng):
    from cotengra.hyperoptimizers.hyper import HyperOptimizer

    opt = object.__new__(HyperOptimizer)
    n = rng.randint(0, 6)
    scores = [rng.choice((1.0, 2.0, 2.0, 3.0, 5.0, float("inf"))) for _ in range(n)]
    TR = [{"score": s, "tree": f"tree{k}", "flops": s, "write": s, "size": s, "time": 0.0} if s < float("inf") else {"score": s, "flops": s, "write": s, "size": s, "time": 0.0}
          for k, s in enumerate(scores)]
    opt.max_time, opt._repeats_start, opt.scores, opt.max_repeats, opt._pool, opt.progbar = None, 0, [], n, rng.choice((None, "pool")), False
    b = rng.choice((float("inf"), 2.0, 4.0))
    opt.best = {"score": b, "tree": "old-tree"} if b < float("inf") else {"score": b}
    opt.trials_since_best = 0
    opt.param_choices, opt.method_choices = [{"p": 1}], ["greedy"]
    import copy

    snapshot = copy.deepcopy(TR)
    opt.setup = lambda *a: ("fn", "args")
    opt._gen_results = lambda *a: iter(TR)
    opt._gen_results_parallel = lambda *a: iter(TR)
    opt._maybe_cancel_futures = lambda: None
    return {"self": opt, "args": ("in", "out", "sd"), "ghost": {"TR": snapshot}, "describe": f"best={b} trial scores={scores}"}


search.gen = _gen_search


# ------------------------------------------------------------- trial wrappers
# C08 'reports that trial's true costs': the wrappers that post-process a trial's tree in place (slice,
# anneal, reconfigure) record, after the post-processing, the figures of the tree AS IT IS THEN; the
# figures before are kept under original_* (only if not recorded yet).
WrapT = Ty.SDict({"tree": Ty.Key, "flops": Ty.Int, "write": Ty.Int, "size": Ty.Int,
                  "original_flops": Ty.Int, "original_write": Ty.Int, "original_size": Ty.Int, "score": Ty.Real, "time": Ty.Real})
StatsT = Ty.SDict({"flops": Ty.Int, "write": Ty.Int, "size": Ty.Int})


def _ver(engine, st, tree_term):
    """current 'version' of a tree (changes whenever it is restructured in place)"""
    m = st.vars.get("__treever__")
    if m is None:
        m = V(Ty.Map(Ty.Key, Ty.Int), [z3.K(Ty.IntS, z3.BoolVal(True)), z3.Const("treever0", z3.ArraySort(Ty.IntS, Ty.IntS))])
        st.vars["__treever__"] = m
    return m.c[1][tree_term]


def x_stats(engine, st, args, node, kw):
    t = engine.keyterm(engine.deref(st, args[0]))
    v = _ver(engine, st, t)
    comps = []
    for name_ in ("flops", "write", "size"):
        f = engine.specfns.setdefault(f"uf!stat_{name_}", (z3.Function(f"uf!stat_{name_}", Ty.IntS, Ty.IntS, Ty.IntS), [], Ty.Int, None))[0]
        comps += [z3.BoolVal(True), f(t, v)]
    return engine.alloc(st, V(StatsT, comps))


def x_restructure(engine, st, args, node, kw):
    t = engine.keyterm(engine.deref(st, args[0]))
    _ver(engine, st, t)
    m = st.vars["__treever__"]
    st.vars["__treever__"] = V(m.t, [m.c[0], z3.Store(m.c[1], t, engine.fresh(st, "newver", node, Ty.IntS))])
    return Ty.mk_none()


def x_stat_now(which):
    def ext(engine, st, args, node, kw):
        t = engine.keyterm(engine.deref(st, args[0]))
        f = engine.specfns.setdefault(f"uf!stat_{which}", (z3.Function(f"uf!stat_{which}", Ty.IntS, Ty.IntS, Ty.IntS), [], Ty.Int, None))[0]
        return V(Ty.Int, [f(t, _ver(engine, st, t))])

    return ext


def x_trial_fn(engine, st, args, node, kw):
    t = Ty.sdict_empty(WrapT, "trial")
    comps = list(t.c)
    comps[WrapT.offsets()["tree"][0]] = z3.BoolVal(True)
    # an inner wrapper may already have recorded original_* : presence is arbitrary
    for nm in ("original_flops", "original_write", "original_size"):
        comps[WrapT.offsets()[nm][0]] = engine.fresh(st, f"has_{nm}", node, Ty.BoolS)
    return engine.alloc(st, V(WrapT, comps))


WRAP_EXT = {
    "SlicedTrialFn.trial_fn": x_trial_fn, "SimulatedAnnealingTrialFn.trial_fn": x_trial_fn, "ReconfTrialFn.trial_fn": x_trial_fn, "SlicedReconfTrialFn.trial_fn": x_trial_fn, "*.contract_stats": x_stats, "*.slice_": x_restructure, "*.simulated_anneal_": x_restructure,
    "*.subtree_reconfigure_": x_restructure, "*.subtree_reconfigure_forest_": x_restructure, "*.slice_and_reconfigure_": x_restructure,
    "*.slice_and_reconfigure_forest_": x_restructure, "*.attr:already_optimized": lambda engine, st, args, node, kw: engine.alloc(st, V(Ty.Set(Ty.Key), [z3.K(Ty.IntS, z3.BoolVal(False))])),
    "flops_now": x_stat_now("flops"), "write_now": x_stat_now("write"), "size_now": x_stat_now("size"),
}
WRAP_ENS = [
    "'tree' in result and 'flops' in result and 'write' in result and 'size' in result",
    # the figures recorded are those of the tree in its final state
    "result['flops'] == flops_now(result['tree']) and result['write'] == write_now(result['tree']) and result['size'] == size_now(result['tree'])",
    "'original_flops' in result and 'original_write' in result and 'original_size' in result",
]


def mk_wrap(cls, fields):
    return Contract(
        target=f"cotengra.hyperoptimizers.hyper:{cls}.__call__", props=["C08"],
        self_type=ObjT(cls, fields), params={"*ok": True}, returns=WrapT, hints={"trial": WrapT},
        externals=WRAP_EXT, ensures=WRAP_ENS,
        assumptions=["the wrapped trial function returns a trial dict holding a tree; contract_stats() reports the figures of the tree as it is when called;"
                     " slice_/simulated_anneal_/subtree_reconfigure_/... restructure that tree in place (its figures afterwards are arbitrary)"],
    )


OptsT = Ty.Key
wrap_sliced = mk_wrap("SlicedTrialFn", {"opts": OptsT})
wrap_anneal = mk_wrap("SimulatedAnnealingTrialFn", {"opts": OptsT})
wrap_reconf = mk_wrap("ReconfTrialFn", {"opts": OptsT, "forested": Ty.Bool, "parallel": Ty.Bool})
wrap_sliced_reconf = mk_wrap("SlicedReconfTrialFn", {"opts": OptsT, "forested": Ty.Bool, "parallel": Ty.Bool})
CONTRACTS += [wrap_sliced, wrap_anneal, wrap_reconf, wrap_sliced_reconf]


def _rebuilt_stats(tree):
    """figures of a tree recomputed from scratch (same path, same sliced indices)"""
    import cotengra as ctg

    t2 = ctg.ContractionTree.from_path(tree.inputs, tree.output, tree.size_dict, path=tree.get_path())
    for ix, si in tree.sliced_inds.items():
        t2.remove_ind_(ix, project=si.project)
    return t2.contract_stats()


def _mk_wrap_gen(cls_name):
    def gen(rng):
        import cotengra as ctg
        import cotengra.hyperoptimizers.hyper as H
        from ..scope import random_tree_ssa

        n = rng.randint(4, 7)
        con = ctg.utils.rand_equation(n, 3, n_out=rng.randint(0, 2), seed=rng.randint(0, 10**6), d_min=2, d_max=4)

        def trial_fn(*a, **k):
            tree = ctg.ContractionTree.from_path(con.inputs, con.output, con.size_dict, ssa_path=random_tree_ssa(n, rng))
            return {"tree": tree, "flops": -1, "write": -1, "size": -1}

        cls = getattr(H, cls_name)
        if cls_name == "SlicedTrialFn":
            w = cls(trial_fn, target_size=max(1, 2 ** rng.randint(1, 4)), seed=rng.randint(0, 99))
        elif cls_name == "SimulatedAnnealingTrialFn":
            w = cls(trial_fn, tsteps=2, numiter=3, seed=rng.randint(0, 99))
        elif cls_name == "ReconfTrialFn":
            w = cls(trial_fn, forested=False, subtree_size=4, maxiter=3)
        else:
            w = cls(trial_fn, forested=False, target_size=max(2, 2 ** rng.randint(2, 5)), max_repeats=2)
        return {"self": w, "args": (), "bind": {"flops_now": lambda t: _rebuilt_stats(t)["flops"], "write_now": lambda t: _rebuilt_stats(t)["write"],
                                                 "size_now": lambda t: _rebuilt_stats(t)["size"]},
                "describe": f"{cls_name} on {con.inputs}->{con.output} sizes {con.size_dict}"}

    return gen


wrap_sliced.gen = _mk_wrap_gen("SlicedTrialFn")
wrap_anneal.gen = _mk_wrap_gen("SimulatedAnnealingTrialFn")
wrap_reconf.gen = _mk_wrap_gen("ReconfTrialFn")
wrap_sliced_reconf.gen = _mk_wrap_gen("SlicedReconfTrialFn")
