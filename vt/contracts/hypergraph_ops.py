"""C18 (hypergraph rule) / C20: HyperGraph.remove_node, add_node, next_node and contract.

State: nodes : node -> tuple of edges,  edges : edge -> tuple of nodes.
Representation invariant used (ordinary networks: no index repeated on a node):
  L  e occurs on nodes[i]  <=>  i occurs on edges[e]        (both maps describe the same incidence)
  D  no tuple repeats an element
contract(i, j): the new node carries exactly the indices of i or j that are
still incident to some OTHER node or are output indices - the rule the tree
states as 'count below the global count' and the processor as 'count !=
appearances'.

Membership in a tuple is written  occurs(t, x)  == exists p: t[p] == x."""

import z3

from ..pyvc import types as Ty
from ..pyvc.contract import Contract, Loop
from ..pyvc.engine import ObjT
from ..pyvc.types import V, Int, Key
from .einsum_eq import x_unique

TupT = Ty.List(Key)
HgT = ObjT("HyperGraph", {"nodes": Ty.Map(Key, TupT), "edges": Ty.Map(Key, TupT), "output": TupT, "node_counter": Ty.Int})

DIST = "forall(0, len({t}), lambda d1: forall(0, len({t}), lambda d2: implies(d1 < d2, {t}[d1] != {t}[d2])))"
# L: the two maps describe the same incidence relation
LINK_NE = "forall(keys(self.nodes), lambda n: forall(0, len(self.nodes[n]), lambda p: self.nodes[n][p] in self.edges and exists(0, len(self.edges[self.nodes[n][p]]), lambda o940_1: self.edges[self.nodes[n][p]][o940_1] == n)))"
LINK_EN = "forall(keys(self.edges), lambda e: forall(0, len(self.edges[e]), lambda p: self.edges[e][p] in self.nodes and exists(0, len(self.nodes[self.edges[e][p]]), lambda o351_3: self.nodes[self.edges[e][p]][o351_3] == e)))"
LINK = LINK_NE + " and " + LINK_EN
NODUP = ("forall(keys(self.nodes), lambda n: " + DIST.format(t="self.nodes[n]") + ")"
         " and forall(keys(self.edges), lambda e: " + DIST.format(t="self.edges[e]") + ")")
NONEMPTY = "forall(keys(self.edges), lambda e: len(self.edges[e]) >= 1)"
WF = [LINK_NE, LINK_EN, NODUP, NONEMPTY]

next_node = Contract(
    target="cotengra.hypergraph:HyperGraph.next_node",
    props=["C18", "C20"],
    self_type=HgT, params={}, returns=Ty.Int,
    modifies=["self.node_counter"],
    nloops=1, loops={0: Loop(inv=["self.node_counter > old(self.node_counter)"])},
    ensures=["not (result in self.nodes)", "result == self.node_counter and result > old(self.node_counter)"],
    assumptions=["termination of the search for a free identifier is not proved"],
)

OLD_E = "old(self.edges)"


def fwd(e, guard="True"):
    """every node listed for edge e now is a node other than i that was listed before"""
    return (f"implies({guard} and {e} in self.edges, forall(0, len(self.edges[{e}]), lambda a1: self.edges[{e}][a1] != i"
            f" and exists(0, len({OLD_E}[{e}]), lambda q1: {OLD_E}[{e}][q1] == self.edges[{e}][a1])))")


def bwd(e, guard="True"):
    """every node other than i that was listed for edge e is still listed (so the edge still exists)"""
    return (f"implies({guard}, forall(0, len({OLD_E}[{e}]), lambda q2: implies({OLD_E}[{e}][q2] != i, {e} in self.edges"
            f" and exists(0, len(self.edges[{e}]), lambda a2: self.edges[{e}][a2] == {OLD_E}[{e}][q2]))))")


remove_node = Contract(
    target="cotengra.hypergraph:HyperGraph.remove_node",
    props=["C18", "C20"],
    self_type=HgT, params={"i": Key},
    requires=["i in self.nodes"] + WF,
    returns=TupT,
    modifies=["self.nodes", "self.edges"],
    nloops=1,
    loops={
        0: Loop(
            pos="t",
            inv=[
                "keys(self.nodes) == without_key(old(keys(self.nodes)), i)",
                "forall(keys(self.nodes), lambda n: self.nodes[n] == old(self.nodes)[n])",
                "forall(keys(self.edges), lambda e: e in old(self.edges))",
                # edges not yet processed are untouched
                "forall(keys(old(self.edges)), lambda e: implies(not exists(0, t, lambda p: inds[p] == e), e in self.edges and self.edges[e] == old(self.edges)[e]))",
                # processed ones have lost node i (and vanish when nothing is left)
                "forall(0, t, lambda p: " + fwd("inds[p]") + ")",
                "forall(0, t, lambda p: " + bwd("inds[p]") + ")",
                "forall(0, t, lambda p: implies(inds[p] in self.edges, " + DIST.format(t="self.edges[inds[p]]") + " and len(self.edges[inds[p]]) >= 1))",
            ],
        )
    },
    hints={"inds": TupT, "e_nodes": TupT},
    ensures=[
        "len(result) == len(old(self.nodes)[i]) and forall(0, len(result), lambda p: result[p] == old(self.nodes)[i][p])",
        "keys(self.nodes) == without_key(old(keys(self.nodes)), i)",
        "forall(keys(self.nodes), lambda n: self.nodes[n] == old(self.nodes)[n])",
        # node i disappears from every edge; an edge left without nodes disappears; nothing else changes
        "forall(keys(self.edges), lambda e: e in old(self.edges))",
        "forall(keys(old(self.edges)), lambda e: " + fwd("e") + ")",
        "forall(keys(old(self.edges)), lambda e: " + bwd("e") + ")",
        NODUP, NONEMPTY, LINK_NE, LINK_EN,
        # (consequence, stated for callers) an edge survives iff it has another node
        "forall(keys(old(self.edges)), lambda e: (e in self.edges) == exists(0, len(old(self.edges)[e]), lambda q3: old(self.edges)[e][q3] != i))",
    ],
    assumptions=["ordinary network: no index repeated on a node"],
)


def app_fwd(e):
    """the nodes listed for e now are the ones listed before, plus the new node"""
    return (f"forall(0, len(self.edges[{e}]), lambda a1: self.edges[{e}][a1] == node or (old({e} in self.edges)"
            f" and exists(0, len({OLD_E}[{e}]), lambda q1: {OLD_E}[{e}][q1] == self.edges[{e}][a1])))")


def app_bwd(e):
    return f"implies(old({e} in self.edges), forall(0, len({OLD_E}[{e}]), lambda q2: exists(0, len(self.edges[{e}]), lambda a2: self.edges[{e}][a2] == {OLD_E}[{e}][q2])))"


def app_new(e):
    # the new node is appended (last position)
    return f"len(self.edges[{e}]) >= 1 and self.edges[{e}][len(self.edges[{e}]) - 1] == node"


add_node = Contract(
    target="cotengra.hypergraph:HyperGraph.add_node",
    props=["C18", "C20"],
    self_type=HgT, params={"inds": TupT, "node": Key},
    requires=["not (node in self.nodes)", DIST.format(t="inds"),
              # the new identifier is not mentioned by any edge yet
              "forall(keys(self.edges), lambda e: forall(0, len(self.edges[e]), lambda p: self.edges[e][p] != node))"] + WF,
    returns=Key,
    modifies=["self.nodes", "self.edges"],
    nloops=1,
    loops={
        0: Loop(
            pos="t",
            inv=[
                "keys(self.nodes) == with_key(old(keys(self.nodes)), node) and self.nodes[node] == inds",
                "forall(old(keys(self.nodes)), lambda n: self.nodes[n] == old(self.nodes)[n])",
                "forall(keys(old(self.edges)), lambda e: e in self.edges)",
                "forall(keys(self.edges), lambda e: e in old(self.edges) or exists(0, t, lambda p: inds[p] == e))",
                "forall(keys(self.edges), lambda e: implies(not exists(0, t, lambda p: inds[p] == e), self.edges[e] == old(self.edges)[e]))",
                "forall(0, t, lambda p: inds[p] in self.edges and " + app_fwd("inds[p]") + ")",
                "forall(0, t, lambda p: " + app_bwd("inds[p]") + ")",
                "forall(0, t, lambda p: " + app_new("inds[p]") + ")",
                "forall(0, t, lambda p: " + DIST.format(t="self.edges[inds[p]]") + ")",
            ],
        )
    },
    ensures=[
        "result == node",
        "keys(self.nodes) == with_key(old(keys(self.nodes)), node)",
        "len(self.nodes[node]) == len(inds) and forall(0, len(inds), lambda p: self.nodes[node][p] == inds[p])",
        "forall(old(keys(self.nodes)), lambda n: self.nodes[n] == old(self.nodes)[n])",
        # the new node is appended to each of its edges (created if need be); other edges are untouched
        "forall(keys(old(self.edges)), lambda e: e in self.edges)",
        "forall(0, len(inds), lambda p: inds[p] in self.edges and " + app_fwd("inds[p]") + ")",
        "forall(0, len(inds), lambda p: " + app_bwd("inds[p]") + ")",
        "forall(0, len(inds), lambda p: " + app_new("inds[p]") + ")",
        "forall(keys(self.edges), lambda e: implies(not exists(0, len(inds), lambda p: inds[p] == e), e in old(self.edges) and self.edges[e] == old(self.edges)[e]))",
        NODUP, NONEMPTY, LINK_NE, LINK_EN,
    ],
    assumptions=["explicit node identifier (the None variant first calls next_node, which is under contract)"],
)

ON_I, ON_J = "old(self.nodes)[i]", "old(self.nodes)[j]"


def elsewhere(x):
    """index x is still incident to a node other than i and j (in the state before the call)"""
    return f"({x} in old(self.edges) and exists(0, len(old(self.edges)[{x}]), lambda w: old(self.edges)[{x}][w] != i and old(self.edges)[{x}][w] != j))"


def in_output(x):
    return f"exists(0, len(self.output), lambda w2: self.output[w2] == {x})"


contract = Contract(
    target="cotengra.hypergraph:HyperGraph.contract",
    variant="given-id",
    props=["C18", "C20"],
    self_type=HgT, params={"i": Key, "j": Key, "node": Key},
    requires=["i in self.nodes and j in self.nodes and i != j", "not (node in self.nodes) or node == i or node == j",
              "forall(keys(self.edges), lambda e: forall(0, len(self.edges[e]), lambda p: self.edges[e][p] != node or node == i or node == j))"] + WF,
    returns=Key,
    externals={"unique": x_unique},
    modifies=["self.nodes", "self.edges"],
    ensures=[
        "result == node and node in self.nodes",
        "forall(keys(self.nodes), lambda n: n == node or (n in old(self.nodes) and n != i and n != j))",
        "forall(keys(old(self.nodes)), lambda n: implies(n != i and n != j and n != node, n in self.nodes and self.nodes[n] == old(self.nodes)[n]))",
        # THE RULE: the new node carries exactly the indices of i or j that are still needed elsewhere
        # (incident to another node) or are output indices; each once
        "forall(0, len(self.nodes[node]), lambda a: (exists(0, len(" + ON_I + "), lambda u: " + ON_I + "[u] == self.nodes[node][a]) or exists(0, len(" + ON_J + "), lambda u2: " + ON_J + "[u2] == self.nodes[node][a]))"
        " and (" + elsewhere("self.nodes[node][a]") + " or " + in_output("self.nodes[node][a]") + "))",
        "forall(0, len(" + ON_I + "), lambda u: implies(" + elsewhere(ON_I + "[u]") + " or " + in_output(ON_I + "[u]") + ", exists(0, len(self.nodes[node]), lambda a: self.nodes[node][a] == " + ON_I + "[u])))",
        "forall(0, len(" + ON_J + "), lambda u: implies(" + elsewhere(ON_J + "[u]") + " or " + in_output(ON_J + "[u]") + ", exists(0, len(self.nodes[node]), lambda a: self.nodes[node][a] == " + ON_J + "[u])))",
        DIST.format(t="self.nodes[node]"),
    ],
    assumptions=["explicit identifier for the new node; utils.unique == order-preserving de-duplication; ordinary network"],
)
CONTRACTS = [next_node, remove_node, add_node, contract]


# ---------------------------------------------------------------- generators
def _hg(rng):
    import cotengra as ctg

    n = rng.randint(2, 6)
    if n >= 3:
        con = ctg.utils.rand_equation(n, 3, n_out=rng.randint(0, 2), n_hyper_in=rng.randint(0, 1), n_hyper_out=rng.randint(0, 1), seed=rng.randint(0, 10**6))
        inputs, output, sd = con.inputs, con.output, con.size_dict
    else:
        inputs, output, sd = [("a", "b"), ("b", "c")], ("a",), {"a": 2, "b": 3, "c": 2}
    hg = ctg.get_hypergraph(inputs, output, sd)
    # a few contractions so that non-trivial states are reached
    for _ in range(rng.randint(0, max(0, len(hg.nodes) - 2))):
        i, j = rng.sample(sorted(hg.nodes), 2)
        hg.contract(i, j)
    return hg, f"{inputs}->{output}"


def _gen_remove(rng):
    hg, d = _hg(rng)
    i = rng.choice(sorted(hg.nodes))
    return {"self": hg, "args": (i,), "universe": list(hg.edges) + list(hg.nodes) + [-5], "describe": f"{d} nodes={hg.nodes} remove {i}"}


def _gen_add(rng):
    hg, d = _hg(rng)
    pool = sorted(hg.edges) + ["new1", "new2"]
    inds = tuple(rng.sample(pool, rng.randint(0, min(3, len(pool)))))
    node = max(hg.nodes) + rng.randint(1, 3)
    return {"self": hg, "args": (inds, node), "universe": list(hg.edges) + ["new1", "new2"] + list(hg.nodes) + [node], "describe": f"{d} nodes={hg.nodes} add {inds} as {node}"}


def _gen_contract(rng):
    hg, d = _hg(rng)
    if len(hg.nodes) < 2:
        return None
    i, j = rng.sample(sorted(hg.nodes), 2)
    node = rng.choice([max(hg.nodes) + 1, max(hg.nodes) + 7, i, j])
    return {"self": hg, "args": (i, j, node), "universe": list(hg.edges) + list(hg.nodes) + [node], "describe": f"{d} nodes={hg.nodes} output={hg.output} contract {i},{j}->{node}"}


def _gen_next(rng):
    hg, d = _hg(rng)
    return {"self": hg, "args": (), "describe": f"{d} nodes={sorted(hg.nodes)} counter={hg.node_counter}"}


next_node.gen, remove_node.gen, add_node.gen, contract.gen = _gen_next, _gen_remove, _gen_add, _gen_contract
for _c in (remove_node, add_node, contract):
    _c.pre_must_hold = True  # real hypergraphs of ordinary networks reached through the public API

# proof tasks are split over several processes (scheduling only)
remove_node.shards, add_node.shards, contract.shards = 3, 4, 4


# ---------------------------------------------------- neighborhood_compress_cost
# C20 'nothing truncated => nothing charged': if no bond (set of edges) exceeds the cap, the estimated
# compression cost of a neighbourhood is zero.  The construction of the incidence groups and the cost
# formula for an over-sized bond are abstracted (any groups, any cost): the statement holds regardless.
def x_edges_size(engine, st, args, node, kw):
    """self.edges_size(es): a fixed size per set of edges"""
    from ..pyvc.calls import domain_of

    es = engine.deref(st, args[-1])
    sid = engine.keyterm(V(Ty.Set(Key), [domain_of(engine, es)]))
    key = "uf!bond_size"
    if key not in engine.specfns:
        engine.specfns[key] = (z3.Function(key, Ty.IntS, Ty.IntS), [], Int, None)
    return V(Int, [engine.specfns[key][0](sid)])


def x_bond_size(engine, st, args, node, kw):
    key = "uf!bond_size"
    if key not in engine.specfns:
        engine.specfns[key] = (z3.Function(key, Ty.IntS, Ty.IntS), [], Int, None)
    return V(Int, [engine.specfns[key][0](engine.num(args[-1]))])


compress_cost = Contract(
    target="cotengra.hypergraph:HyperGraph.neighborhood_compress_cost",
    props=["C20"],
    self_type=HgT, params={"chi": Ty.Int, "nodes": TupT},
    requires=["forall(lambda s: bond_size(s) <= chi)"],
    returns=Ty.Int,
    externals={"HyperGraph.edges_size": x_edges_size, "bond_size": x_bond_size},
    hints={"region_edges": Ty.Set(Key), "incidences": Ty.Map(Key, TupT), "C": Ty.Int, "da": Ty.Int, "db": Ty.Int, "outer_edges": TupT,
           "e": Key, "e_nodes": Key, "node": Key},
    nloops=None,
    loops={1: Loop(seen="S", inv=["C == 0"])},
    raises={"ValueError": "False"},
    ensures=["result == 0"],
    assumptions=["the grouping of the neighbourhood's edges by incident nodes and the cost charged for an over-sized bond are abstracted "
                 "(arbitrary groups, arbitrary cost); a bond's size is a function of its set of edges"],
)
compress_cost.abstract_stmts = {
    "region_edges = {": ["region_edges"],
    "for e in region_edges:": ["incidences", "e", "e_nodes"],
    "for node in e_nodes:": ["C", "da", "db", "outer_edges", "node"],
}
CONTRACTS.append(compress_cost)


def _gen_cost(rng):
    hg, d = _hg(rng)
    if len(hg.nodes) < 2:
        return None
    i, j = rng.sample(sorted(hg.nodes), 2)
    # the bonds of the neighbourhood, grouped independently of the code under contract
    region = {e for n in (i, j) for e in hg.nodes[n]}
    groups = {}
    for e in region:
        if e not in hg.output:
            groups.setdefault(frozenset(hg.edges[e]), []).append(e)
    groups.pop(frozenset((i, j)), None)

    def size(es):
        p = 1
        for e in es:
            p *= hg.size_dict[e]
        return p

    sizes = [size(es) for es in groups.values()] or [1]
    chi = max(sizes) + rng.choice((0, 0, 1, 5))  # often exactly the largest bond: nothing is truncated there
    universe = [frozenset(es) for es in groups.values()]
    return {"self": hg, "args": (chi, (i, j)), "universe": universe, "bind": {"bond_size": lambda s: size(s)},
            "describe": f"{d} nodes={hg.nodes} sizes={hg.size_dict} output={hg.output} region=({i},{j}) bonds={sorted(sizes)} chi={chi}"}


compress_cost.gen = _gen_cost


# ------------------------------------------------------------------ compress
# C20 'bond merging capped at chi': whatever groups of parallel edges are merged, an edge's size afterwards
# is its old size or min(size of some bond, chi) - never above the cap unless it was before, and exactly the
# bond's size whenever that does not exceed the cap (nothing truncated).
HgSizeT = ObjT("HyperGraph", dict(HgT.fields, size_dict=Ty.Map(Key, Ty.Int)))
compress = Contract(
    target="cotengra.hypergraph:HyperGraph.compress",
    props=["C20"],
    self_type=HgSizeT, params={"chi": Ty.Int, "edges": Ty.NoneT},
    returns=Ty.NoneT,
    externals={"HyperGraph.edges_size": x_edges_size, "bond_size": x_bond_size},
    hints={"incidences": Ty.Map(Key, TupT), "e": Key, "nodes": Key, "es_del": TupT},
    modifies=["self.size_dict", "self.nodes", "self.edges"],
    nloops=None,
    loops={1: Loop(seen="S", inv=[
        "forall(keys(old(self.size_dict)), lambda x: x in self.size_dict)",
        "forall(keys(self.size_dict), lambda x: (x in old(self.size_dict) and self.size_dict[x] == old(self.size_dict)[x])"
        " or exists(lambda s: self.size_dict[x] == min(bond_size(s), chi)))",
    ])},
    ensures=[
        "forall(keys(old(self.size_dict)), lambda x: x in self.size_dict)",
        "forall(keys(self.size_dict), lambda x: (x in old(self.size_dict) and self.size_dict[x] == old(self.size_dict)[x])"
        " or exists(lambda s: self.size_dict[x] == min(bond_size(s), chi)))",
    ],
    assumptions=["the grouping of parallel edges and the removal of the merged edges are abstracted (arbitrary groups; remove_edge changes nodes/edges only);"
                 " a bond's size is a function of its set of edges"],
)
compress.abstract_stmts = {
    "incidences = collections.defaultdict": ["incidences"],
    "for e in unique(edges):": ["incidences", "e", "nodes"],
    "for e in es_del:": ["e", "self.nodes", "self.edges"],
}
CONTRACTS.append(compress)


def _gen_compress(rng):
    hg, d = _hg(rng)
    groups = {}
    for e, ns in hg.edges.items():
        if e not in hg.output:
            groups.setdefault(frozenset(ns), []).append(e)
    sizes0 = dict(hg.size_dict)

    def size(es):
        p = 1
        for e in es:
            p *= sizes0[e]
        return p

    bonds = [frozenset(es) for es in groups.values() if len(es) > 1]
    top = max([size(b) for b in bonds] or [2])
    chi = rng.choice((1, 2, 3, top, top, top + 1, 10**6))
    return {"self": hg, "args": (chi, None), "universe": bonds or [frozenset()], "bind": {"bond_size": lambda s: size(s)},
            "describe": f"{d} edges={hg.edges} sizes={sizes0} output={hg.output} chi={chi}"}


compress.gen = _gen_compress
