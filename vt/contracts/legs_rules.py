"""Contracts for the 'which index survives a contraction' rules
(C01, C03, C04, C18): core.legs_union / legs_without and the annealing move
evaluator compute_contracted_info.

Common spec (DESIGN C18): for leg maps A, B and appearance counts app,
  tot(k)   = A.get(k,0) + B.get(k,0)
  kept     = {k in keys(A) | keys(B) : tot(k) < app[k]}     (value tot(k))
  cost     = product of size[k] over keys(A) | keys(B)
  size     = product of size[k] over kept
Products are stated in the bag abstraction prodset(S, size_dict).
"""

from ..pyvc import types as Ty
from ..pyvc.contract import Contract, Loop, Lemma

LegsT = Ty.Map(Ty.Key, Ty.Int)
SizeT = Ty.Map(Ty.Key, Ty.Int)

legs_union = Contract(
    target="cotengra.core:legs_union",
    props=["C01", "C03", "C18"],
    params={"legs_seq": Ty.Tuple([LegsT, LegsT])},
    lets={"A": "legs_seq[0]", "B": "legs_seq[1]"},
    returns=LegsT,
    ensures=[
        "keys(result) == union(keys(A), keys(B))",
        "forall(lambda k: get(result, k, 0) == get(A, k, 0) + get(B, k, 0))",
    ],
    loops={
        1: Loop(
            seen="seen",
            inv=[
                "keys(new_legs) == union(keys(A), seen)",
                "forall(lambda k: get(new_legs, k, 0) == get(A, k, 0) + (get(B, k, 0) if k in seen else 0))",
            ],
        )
    },
    nloops=2,
    assumptions=["legs_seq has exactly two elements (the binary-tree call sites); other arities are covered by the bounded monitor"],
)

legs_without = Contract(
    target="cotengra.core:legs_without",
    props=["C02", "C04"],
    params={"legs": LegsT, "ind": Ty.Key},
    returns=LegsT,
    ensures=[
        "keys(result) == without_key(keys(legs), ind)",
        "forall(keys(result), lambda k: result[k] == legs[k])",
        "keys(legs) == old(keys(legs))",
        "forall(keys(legs), lambda k: legs[k] == old(legs[k]))",
    ],
)

INFO_LETS = {
    "ALL": "union(keys(legsa), keys(legsb))",
}

compute_contracted_info = Contract(
    target="cotengra.pathfinders.path_simulated_annealing:compute_contracted_info",
    props=["C04", "C18", "C02", "C03"],
    params={"legsa": LegsT, "legsb": LegsT, "appearances": LegsT, "size_dict": SizeT},
    lets=INFO_LETS,
    hints={"legsab": LegsT},
    requires=[
        "subset(keys(legsa), keys(size_dict)) and subset(keys(legsb), keys(size_dict))",
        "subset(keys(legsa), keys(appearances)) and subset(keys(legsb), keys(appearances))",
        "forall(lambda k: size_dict[k] >= 1)",
    ],
    returns=Ty.Tuple([LegsT, Ty.Int, Ty.Int]),
    ensures=[
        # surviving legs: exactly the indices whose combined count is below the global count
        "forall(lambda k: (k in result[0]) == ((k in legsa or k in legsb) and get(legsa, k, 0) + get(legsb, k, 0) < appearances[k]))",
        "forall(keys(result[0]), lambda k: result[0][k] == get(legsa, k, 0) + get(legsb, k, 0))",
        # cost: every involved index once; size: every surviving index once
        "result[1] == prodset(ALL, size_dict)",
        "result[2] == prodset(keys(result[0]), size_dict)",
    ],
    nloops=2,
    loops={
        0: Loop(
            seen="sa",
            inv=[
                "cost == prodset(sa, size_dict)",
                "size == prodset(keys(legsab), size_dict)",
                "forall(lambda k: (k in legsab) == (k in sa and get(legsa, k, 0) + get(legsb, k, 0) < appearances[k]))",
                "forall(keys(legsab), lambda k: legsab[k] == get(legsa, k, 0) + get(legsb, k, 0))",
            ],
        ),
        1: Loop(
            seen="sb",
            inv=[
                "cost == prodset(union(keys(legsa), minus(sb, keys(legsa))), size_dict)",
                "size == prodset(keys(legsab), size_dict)",
                "forall(lambda k: (k in legsab) == ((k in legsa or k in sb) and get(legsa, k, 0) + get(legsb, k, 0) < appearances[k]))",
                "forall(keys(legsab), lambda k: legsab[k] == get(legsa, k, 0) + get(legsb, k, 0))",
            ],
        ),
    },
)

compute_contracted_info.prefer_hints = True
CONTRACTS = [legs_union, legs_without, compute_contracted_info]

_U = "abcdefg"


def _rand_legs(rng, lo=0, hi=4):
    n = rng.randint(lo, hi)
    return {k: rng.randint(1, 3) for k in rng.sample(_U, n)}


def _gen_union(rng):
    a, b = _rand_legs(rng), _rand_legs(rng)
    return {"args": ((a, b),), "universe": _U, "describe": f"legs_seq=({a}, {b})"}


def _gen_without(rng):
    a = _rand_legs(rng)
    ind = rng.choice(_U)
    return {"args": (a, ind), "universe": _U, "describe": f"legs={a} ind={ind}"}


def _gen_info(rng):
    a, b = _rand_legs(rng), _rand_legs(rng)
    app = {k: a.get(k, 0) + b.get(k, 0) + rng.randint(0, 2) for k in _U}
    sd = {k: rng.choice([2, 3, 5, 7, 11, 13, 17])  for k in _U}
    return {"args": (a, b, app, sd), "universe": _U, "describe": f"a={a} b={b} app={app} sizes={sd}"}


legs_union.gen = _gen_union
legs_without.gen = _gen_without
compute_contracted_info.gen = _gen_info
