"""Small pure helpers: utils.get_symbol (C12/C13: distinct labels get distinct
symbols, never a surrogate) and utils.get_rng (C17: the single entry point for
random generators)."""

import z3

from ..pyvc import types as Ty
from ..pyvc.contract import Contract, Lemma
from ..pyvc.engine import ObjT, Obj, Ref, PyConst
from ..pyvc.types import V, Int, Key

BASE = "abcdefghijklmnopqrstuvwxyzABCDEFGHIJKLMNOPQRSTUVWXYZ"
CP = "def cp(i):\n    return ord(BASE[i]) if i < 52 else (i + 140 if i + 140 < 55296 else i + 140 + 2048)\n"

get_symbol = Contract(
    target="cotengra.utils:get_symbol",
    props=["C12", "C13"],
    params={"i": Ty.Int},
    lets={"BASE": f"'{BASE}'"},
    spec={"cp": CP},
    requires=["0 <= i"],
    returns=Ty.Key,
    lemmas=[
        # distinct numbers get distinct symbols (over a range far beyond any network)
        Lemma("injective", "a", "0", "10000000", "forall(0, 10000000, lambda b: implies(a < b, cp(a) != cp(b)))", induction=None, assume=False),
        Lemma("no_surrogate", "a", "0", "10000000", "not (55296 <= cp(a) and cp(a) <= 57343)", induction=None, assume=False),
    ],
    ensures=[
        "ord(result) == cp(old(i))",
        "not (55296 <= ord(result) and ord(result) <= 57343)",
        "implies(old(i) < 52, ord(result) == ord(BASE[old(i)]))",
    ],
)
get_symbol.natives = {"BASE": BASE}

CONTRACTS = [get_symbol]


def _gen_sym(rng):
    i = rng.choice([rng.randint(0, 60), rng.randint(0, 3000), rng.randint(55000, 60000), rng.randint(0, 10**6)])
    return {"args": (i,), "describe": f"i={i}"}


get_symbol.gen = _gen_sym


# ------------------------------------------------------------------ get_rng
RandomT = ObjT("Random", {"seed": Ty.Int})


def _new_random(engine, st, args, node, kwargs):
    ob = Obj("Random", {"seed": args[0] if args else Ty.mk_int(0)})
    i = engine.new_id()
    st.heap[i] = ob
    return Ref(i, RandomT)


RNG_ASSUME = ["random.Random(seed) is a fresh generator whose stream is a function of seed alone (stdlib contract)"]
rng_none = Contract(
    target="cotengra.utils:get_rng", variant="seed=None", props=["C17"], params={"seed": Ty.NoneT},
    ensures=["result is random"], assumptions=RNG_ASSUME,
)
rng_int = Contract(
    target="cotengra.utils:get_rng", variant="seed=int", props=["C17"], params={"seed": Ty.Int},
    externals={"random.Random": _new_random},
    # an integer seed never reaches the global generator: a fresh private one is returned
    ensures=["not (result is random)", "fresh_ref(result)"],
    ensures_t1=["result.seed == seed"],
    ensures_rt=["isinstance(result, random.Random) and result.random() == random.Random(seed).random()"],
    assumptions=RNG_ASSUME,
)
rng_obj = Contract(
    target="cotengra.utils:get_rng", variant="seed=Random", props=["C17"], params={"seed": RandomT},
    ensures=["same_ref(result, seed)"], assumptions=RNG_ASSUME,
)
import random as _random

for _c in (rng_none, rng_int, rng_obj):
    _c.natives = {"random": _random}
rng_none.gen = lambda rng: {"args": (None,), "describe": "seed=None"}
rng_int.gen = lambda rng: {"args": (rng.randint(0, 10**6),), "describe": "int seed"}
rng_obj.gen = lambda rng: {"args": (_random.Random(rng.randint(0, 99)),), "describe": "Random instance"}
CONTRACTS += [rng_none, rng_int, rng_obj]
