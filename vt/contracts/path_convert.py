"""Contracts for the linear <-> SSA path converters (C10), pairwise steps.

Both functions keep a list `ids` of the SSA ids currently alive, in the order
of the 'recycled' linear positions.  Invariant (both): `ids` is strictly
increasing and every id is below the next fresh id `ssa`.  Iteration contracts
(two-state): linear_to_ssa emits the ids found at the two given positions and
removes those positions; ssa_to_linear emits the (sorted) positions at which
the two given ids are found and removes them; both append the fresh id.

Round-trip lemma (C10, 'exact inverse pair'): on the same `ids`, because `ids`
is strictly increasing a value occurs at exactly one position, so the
positions ssa_to_linear finds for (ids[c1], ids[c0]) are {c0, c1} and both
iterations leave the same `ids`; by induction over the steps
ssa_to_linear(linear_to_ssa(p, N), N) == [sorted(c) for c in p] and conversely.
"""

from ..pyvc import types as Ty
from ..pyvc.contract import Contract, Loop

PathT = Ty.List(Ty.Tuple([Ty.Int, Ty.Int]))
INC = "forall(0, len(ids), lambda p: forall(0, len(ids), lambda q: implies(p < q, ids[p] < ids[q])))"
BOUND = "forall(0, len(ids), lambda p: 0 <= ids[p] and ids[p] < ssa)"

# removal of positions lo < hi from prev(ids), then append of the fresh id
REMOVED = (
    "forall(0, len(ids) - 1, lambda p: ids[p] == (prev(ids)[p] if p < {lo} else (prev(ids)[p + 1] if p < {hi} - 1 else prev(ids)[p + 2])))"
)

LO = "min(path[t - 1][0], path[t - 1][1])"
HI = "max(path[t - 1][0], path[t - 1][1])"

linear_to_ssa = Contract(
    target="cotengra.pathfinders.path_basic:linear_to_ssa",
    props=["C10", "C05"],
    params={"path": PathT, "N": Ty.Int},
    requires=[
        "N >= 1 and len(path) <= N - 1",
        # every position exists at that step and the two positions differ
        "forall(0, len(path), lambda t: 0 <= path[t][0] and path[t][0] < N - t and 0 <= path[t][1] and path[t][1] < N - t and path[t][0] != path[t][1])",
    ],
    returns=PathT,
    ensures=[
        "len(result) == len(path)",
        # SSA ids are valid: defined before use, the two ids of a step differ
        "forall(0, len(result), lambda t: 0 <= result[t][0] and result[t][0] < N + t and 0 <= result[t][1] and result[t][1] < N + t and result[t][0] != result[t][1])",
    ],
    nloops=1,
    loops={
        0: Loop(
            pos="t",
            inv=[
                "ssa == N + t",
                "len(ids) == N - t",
                "len(ssa_path) == t",
                INC, BOUND,
                "forall(0, t, lambda u: 0 <= ssa_path[u][0] and ssa_path[u][0] < N + u and 0 <= ssa_path[u][1] and ssa_path[u][1] < N + u and ssa_path[u][0] != ssa_path[u][1])",
            ],
            step=[
                # emits the ids at the larger, then the smaller position
                f"ssa_path[t - 1] == (prev(ids)[{HI}], prev(ids)[{LO}])",
                "len(ids) == prev(len(ids)) - 1 and ids[len(ids) - 1] == prev(ssa)",
                REMOVED.format(lo=LO, hi=HI),
            ],
        )
    },
    hints={"ssa_path": PathT},
    assumptions=["pairwise contractions only (arity-2 steps); other arities are covered by the bounded monitor"],
)

S0 = "ssa_path[t - 1][0]"
S1 = "ssa_path[t - 1][1]"
ssa_to_linear = Contract(
    target="cotengra.pathfinders.path_basic:ssa_to_linear",
    props=["C10", "C05"],
    params={"ssa_path": PathT, "N": Ty.Int},
    # ghost: the trace of live-id lists is determined by the code; the
    # precondition is stated step-wise through the loop invariant instead
    requires=[
        "N >= 1 and len(ssa_path) <= N - 1",
        "forall(0, len(ssa_path), lambda t: 0 <= ssa_path[t][0] and ssa_path[t][0] < N + t and 0 <= ssa_path[t][1] and ssa_path[t][1] < N + t and ssa_path[t][0] != ssa_path[t][1])",
        # single assignment: an id is consumed at most once
        "forall(0, len(ssa_path), lambda t: forall(0, len(ssa_path), lambda u: implies(t < u, ssa_path[t][0] != ssa_path[u][0] and ssa_path[t][0] != ssa_path[u][1] and ssa_path[t][1] != ssa_path[u][0] and ssa_path[t][1] != ssa_path[u][1])))",
    ],
    returns=Ty.List(Ty.List(Ty.Int)),
    nloops=2,
    loops={
        0: Loop(
            pos="t",
            inv=[
                "ssa == N + t",
                "len(ids) == N - t",
                "len(path) == t",
                INC, BOUND,
                # ghost `where`: position of every live id (ids is injective)
                "forall(keys(where), lambda x: 0 <= where[x] and where[x] < len(ids) and ids[where[x]] == x)",
                # an id is alive iff it was created and has not been consumed yet
                "forall(lambda x: (x in where) == (0 <= x and x < ssa and forall(0, t, lambda u: ssa_path[u][0] != x and ssa_path[u][1] != x)))",
            ],
            ghosts={
                "where": (
                    "mapof(lambda x: 0 <= x and x < N, lambda x: x)",
                    "mapof(lambda x: (x in prev(where) and x != ssa_path[t - 1][0] and x != ssa_path[t - 1][1]) or x == prev(ssa),"
                    " lambda x: (len(ids) - 1) if x == prev(ssa) else (prev(where)[x] - (1 if prev(where)[x] > con[0] else 0) - (1 if prev(where)[x] > con[1] else 0)))",
                )
            },
            step=[
                # (stepping stones) both consumed ids were alive, at the ghost positions
                f"{S0} in prev(where) and {S1} in prev(where)",
                f"prev(ids)[prev(where)[{S0}]] == {S0} and prev(ids)[prev(where)[{S1}]] == {S1}",
                f"prev(where)[{S0}] != prev(where)[{S1}]",
                f"(con[0] == prev(where)[{S0}] and con[1] == prev(where)[{S1}]) or (con[0] == prev(where)[{S1}] and con[1] == prev(where)[{S0}])",
                # the emitted positions are where the two ids were found, sorted
                "len(con) == 2 and con[0] < con[1]",
                f"(prev(ids)[con[0]] == {S0} and prev(ids)[con[1]] == {S1}) or (prev(ids)[con[0]] == {S1} and prev(ids)[con[1]] == {S0})",
                "len(ids) == prev(len(ids)) - 1 and ids[len(ids) - 1] == prev(ssa)",
                REMOVED.format(lo="con[0]", hi="con[1]"),
            ],
        )
    },
    hints={"path": Ty.List(Ty.List(Ty.Int))},
    assumptions=["pairwise contractions only (arity-2 steps)", "bisect.bisect_left satisfies its documented contract on sorted lists"],
)

CONTRACTS = [linear_to_ssa, ssa_to_linear]


def _rand_linear(rng):
    n = rng.randint(1, 7)
    steps = rng.randint(0, n - 1)
    path = []
    for t in range(steps):
        i, j = rng.sample(range(n - t), 2)
        path.append((i, j))
    return path, n


def _gen_l2s(rng):
    path, n = _rand_linear(rng)
    return {"args": (path, n), "describe": f"path={path} N={n}"}


def _gen_s2l(rng):
    # a valid SSA path built independently of the code under contract
    n = rng.randint(1, 7)
    alive = list(range(n))
    ssa, nxt = [], n
    for _ in range(rng.randint(0, n - 1)):
        a, b = rng.sample(alive, 2)
        alive.remove(a)
        alive.remove(b)
        alive.append(nxt)
        nxt += 1
        ssa.append((a, b))
    return {"args": (ssa, n), "universe": range(-1, 16), "describe": f"ssa_path={ssa} N={n}"}


linear_to_ssa.gen = _gen_l2s
ssa_to_linear.gen = _gen_s2l
