"""Contracts for the linear <-> SSA path converters (C10), pairwise steps.

Both functions keep a list `ids` of the SSA ids currently alive, in the order
of the 'recycled' linear positions.  Invariant (both): `ids` is strictly
increasing and every id is below the next fresh id `ssa`.  Iteration contracts
(two-state): linear_to_ssa emits the ids found at the two given positions and
removes those positions; ssa_to_linear emits the (sorted) positions at which
the two given ids are found and removes them; both append the fresh id.

Round-trip lemma (C10, 'exact inverse pair'): on the same `ids`, because `ids`
is strictly increasing a value occurs at exactly one position, so the
positions ssa_to_linear finds for (ids[c1], ids[c0]) are {c0, c1} and both
iterations leave the same `ids`; by induction over the steps
ssa_to_linear(linear_to_ssa(p, N), N) == [sorted(c) for c in p] and conversely.
"""

from ..pyvc import types as Ty
from ..pyvc.contract import Contract, Loop

PathT = Ty.List(Ty.Tuple([Ty.Int, Ty.Int]))
INC = "forall(0, len(ids), lambda p: forall(0, len(ids), lambda q: implies(p < q, ids[p] < ids[q])))"
BOUND = "forall(0, len(ids), lambda p: 0 <= ids[p] and ids[p] < ssa)"

# removal of positions lo < hi from prev(ids), then append of the fresh id
REMOVED = (
    "forall(0, len(ids) - 1, lambda p: ids[p] == (prev(ids)[p] if p < {lo} else (prev(ids)[p + 1] if p < {hi} - 1 else prev(ids)[p + 2])))"
)

LO = "min(path[t - 1][0], path[t - 1][1])"
HI = "max(path[t - 1][0], path[t - 1][1])"

linear_to_ssa = Contract(
    target="cotengra.pathfinders.path_basic:linear_to_ssa",
    props=["C10", "C05"],
    params={"path": PathT, "N": Ty.Int},
    requires=[
        "N >= 1 and len(path) <= N - 1",
        # every position exists at that step and the two positions differ
        "forall(0, len(path), lambda t: 0 <= path[t][0] and path[t][0] < N - t and 0 <= path[t][1] and path[t][1] < N - t and path[t][0] != path[t][1])",
    ],
    returns=PathT,
    ensures=[
        "len(result) == len(path)",
        # SSA ids are valid: defined before use, the two ids of a step differ
        "forall(0, len(result), lambda t: 0 <= result[t][0] and result[t][0] < N + t and 0 <= result[t][1] and result[t][1] < N + t and result[t][0] != result[t][1])",
    ],
    nloops=1,
    loops={
        0: Loop(
            pos="t",
            inv=[
                "ssa == N + t",
                "len(ids) == N - t",
                "len(ssa_path) == t",
                INC, BOUND,
                "forall(0, t, lambda u: 0 <= ssa_path[u][0] and ssa_path[u][0] < N + u and 0 <= ssa_path[u][1] and ssa_path[u][1] < N + u and ssa_path[u][0] != ssa_path[u][1])",
            ],
            step=[
                # emits the ids at the larger, then the smaller position
                f"ssa_path[t - 1] == (prev(ids)[{HI}], prev(ids)[{LO}])",
                "len(ids) == prev(len(ids)) - 1 and ids[len(ids) - 1] == prev(ssa)",
                REMOVED.format(lo=LO, hi=HI),
            ],
        )
    },
    hints={"ssa_path": PathT},
    assumptions=["pairwise contractions only (arity-2 steps); other arities are covered by the bounded monitor"],
)

S0 = "ssa_path[t - 1][0]"
S1 = "ssa_path[t - 1][1]"
ssa_to_linear = Contract(
    target="cotengra.pathfinders.path_basic:ssa_to_linear",
    props=["C10", "C05"],
    params={"ssa_path": PathT, "N": Ty.Int},
    # ghost: the trace of live-id lists is determined by the code; the
    # precondition is stated step-wise through the loop invariant instead
    requires=[
        "N >= 1 and len(ssa_path) <= N - 1",
        "forall(0, len(ssa_path), lambda t: 0 <= ssa_path[t][0] and ssa_path[t][0] < N + t and 0 <= ssa_path[t][1] and ssa_path[t][1] < N + t and ssa_path[t][0] != ssa_path[t][1])",
        # single assignment: an id is consumed at most once
        "forall(0, len(ssa_path), lambda t: forall(0, len(ssa_path), lambda u: implies(t < u, ssa_path[t][0] != ssa_path[u][0] and ssa_path[t][0] != ssa_path[u][1] and ssa_path[t][1] != ssa_path[u][0] and ssa_path[t][1] != ssa_path[u][1])))",
    ],
    returns=Ty.List(Ty.List(Ty.Int)),
    nloops=2,
    loops={
        0: Loop(
            pos="t",
            inv=[
                "ssa == N + t",
                "len(ids) == N - t",
                "len(path) == t",
                INC, BOUND,
                # ghost `where`: position of every live id (ids is injective)
                "forall(keys(where), lambda x: 0 <= where[x] and where[x] < len(ids) and ids[where[x]] == x)",
                # an id is alive iff it was created and has not been consumed yet
                "forall(lambda x: (x in where) == (0 <= x and x < ssa and forall(0, t, lambda u: ssa_path[u][0] != x and ssa_path[u][1] != x)))",
            ],
            ghosts={
                "where": (
                    "mapof(lambda x: 0 <= x and x < N, lambda x: x)",
                    "mapof(lambda x: (x in prev(where) and x != ssa_path[t - 1][0] and x != ssa_path[t - 1][1]) or x == prev(ssa),"
                    " lambda x: (len(ids) - 1) if x == prev(ssa) else (prev(where)[x] - (1 if prev(where)[x] > con[0] else 0) - (1 if prev(where)[x] > con[1] else 0)))",
                )
            },
            # stepping stones (proved, then used): the two bisections find the
            # ghost positions, which differ, so after sorting con[0] < con[1]
            cuts={
                0: ["ssa_path[t][0] in where and ssa_path[t][1] in where",
                    "ids[where[ssa_path[t][0]]] == ssa_path[t][0] and ids[where[ssa_path[t][1]]] == ssa_path[t][1]",
                    "where[ssa_path[t][0]] != where[ssa_path[t][1]]"],
                1: ["len(con) == 2 and con[0] == where[ssa_path[t][0]] and con[1] == where[ssa_path[t][1]]"],
                2: ["len(con) == 2 and 0 <= con[0] and con[0] < con[1] and con[1] < len(ids)"],
            },
            step=[
                # (stepping stones) both consumed ids were alive, at the ghost positions
                f"{S0} in prev(where) and {S1} in prev(where)",
                f"prev(ids)[prev(where)[{S0}]] == {S0} and prev(ids)[prev(where)[{S1}]] == {S1}",
                f"prev(where)[{S0}] != prev(where)[{S1}]",
                f"(con[0] == prev(where)[{S0}] and con[1] == prev(where)[{S1}]) or (con[0] == prev(where)[{S1}] and con[1] == prev(where)[{S0}])",
                # the emitted positions are where the two ids were found, sorted
                "len(con) == 2 and con[0] < con[1]",
                f"(prev(ids)[con[0]] == {S0} and prev(ids)[con[1]] == {S1}) or (prev(ids)[con[0]] == {S1} and prev(ids)[con[1]] == {S0})",
                "len(ids) == prev(len(ids)) - 1 and ids[len(ids) - 1] == prev(ssa)",
                REMOVED.format(lo="con[0]", hi="con[1]"),
            ],
        )
    },
    hints={"path": Ty.List(Ty.List(Ty.Int))},
    assumptions=["pairwise contractions only (arity-2 steps)", "bisect.bisect_left satisfies its documented contract on sorted lists"],
)

CONTRACTS = [linear_to_ssa, ssa_to_linear]


def _rand_linear(rng):
    n = rng.randint(1, 7)
    steps = rng.randint(0, n - 1)
    path = []
    for t in range(steps):
        i, j = rng.sample(range(n - t), 2)
        path.append((i, j))
    return path, n


def _gen_l2s(rng):
    path, n = _rand_linear(rng)
    return {"args": (path, n), "describe": f"path={path} N={n}"}


def _gen_s2l(rng):
    # a valid SSA path built independently of the code under contract
    n = rng.randint(1, 7)
    alive = list(range(n))
    ssa, nxt = [], n
    for _ in range(rng.randint(0, n - 1)):
        a, b = rng.sample(alive, 2)
        alive.remove(a)
        alive.remove(b)
        alive.append(nxt)
        nxt += 1
        ssa.append((a, b))
    return {"args": (ssa, n), "universe": range(-1, 16), "describe": f"ssa_path={ssa} N={n}"}


linear_to_ssa.gen = _gen_l2s
ssa_to_linear.gen = _gen_s2l


# ----------------------------------------------------------- tree -> linear path
import z3 as _z3

from ..pyvc.engine import ObjT as _ObjT
from ..pyvc.types import V as _V

NodeK = Ty.Key
TreePT = _ObjT("ContractionTree", {"N": Ty.Int})
NidT = Ty.Map(Ty.Key, Ty.Int)


def _memo_list(name, elem_t):
    def ext(engine, st, args, node, kwargs):
        memo = engine.__dict__.setdefault("_memo_lists", {})
        if name not in memo:
            t = Ty.List(elem_t)
            memo[name] = _V(t, [_z3.Const(f"{name}.{j}", srt) for j, srt in enumerate(t.sorts())])
        st.assume(memo[name].c[0] >= 0)
        return memo[name]

    return ext


def _dict_zip_leaves(engine, st, args, node, kwargs):
    """dict(zip(self.gen_leaves(), ssas)) with ssas == list(range(N)): leaf p -> p."""
    lv = engine.external(st, "ContractionTree.gen_leaves", [st.vars["self"]], node)
    ssas = engine.deref(st, st.vars["ssas"])
    k = _z3.Int("dz!k")
    p = _z3.Int("dz!p")
    n = _z3.If(lv.c[0] < ssas.c[0], lv.c[0], ssas.c[0])
    dom = _z3.Lambda([k], _z3.Exists([p], _z3.And(0 <= p, p < n, lv.c[1][p] == k)))
    # value: the position of the leaf (well defined because the leaves are distinct: precondition)
    pos = _z3.Function("dz!pos", Ty.IntS, Ty.IntS)
    st.assume(_z3.ForAll([p], _z3.Implies(_z3.And(0 <= p, p < n), pos(lv.c[1][p]) == ssas.c[1][p])))
    return engine.alloc(st, _V(NidT, [dom, _z3.Lambda([k], pos(k))]))


_dict_zip_leaves.raw = True

L = "TR[t - 1][1]"
R = "TR[t - 1][2]"
get_path = Contract(
    target="cotengra.core:ContractionTree.get_path",
    props=["C10", "C05"],
    self_type=TreePT,
    params={},
    ghost={"nid": (NidT, "{**{nd: i for i, nd in enumerate(LV)}, **{TR[t][0]: self.N + t for t in range(len(TR))}}")},
    lets={"TR": "list(self.traverse(order=None))", "LV": "list(self.gen_leaves())", "n": "len(TR)", "N": "self.N"},
    externals={
        "ContractionTree.traverse": _memo_list("TRP", Ty.Tuple([NodeK, NodeK, NodeK])),
        "ContractionTree.gen_leaves": _memo_list("LVP", NodeK),
        "dict": _dict_zip_leaves,
    },
    requires=[
        "N >= 1 and len(LV) == N and n <= N - 1",
        # nid: every node's SSA id (leaf p -> p, t-th parent -> N + t); node keys are distinct
        "forall(0, N, lambda p: LV[p] in nid and nid[LV[p]] == p)",
        "forall(0, n, lambda t: TR[t][0] in nid and nid[TR[t][0]] == N + t)",
        "forall(0, N, lambda p: forall(0, N, lambda q: implies(p < q, LV[p] != LV[q])))",
        # bottom-up order: both children exist before their parent and differ
        "forall(0, n, lambda t: TR[t][1] in nid and TR[t][2] in nid and nid[TR[t][1]] < N + t and nid[TR[t][2]] < N + t and 0 <= nid[TR[t][1]] and 0 <= nid[TR[t][2]] and nid[TR[t][1]] != nid[TR[t][2]])",
        # a node is contracted at most once
        "forall(0, n, lambda t: forall(0, n, lambda u: implies(t < u, nid[TR[t][1]] != nid[TR[u][1]] and nid[TR[t][1]] != nid[TR[u][2]] and nid[TR[t][2]] != nid[TR[u][1]] and nid[TR[t][2]] != nid[TR[u][2]])))",
        # distinct nodes have distinct ids (the id map is injective on the nodes used)
        "forall(keys(nid), lambda x: forall(keys(nid), lambda y: implies(nid[x] == nid[y], x == y)))",
    ],
    returns=PathT,
    hints={"path": PathT},
    ensures=[
        "len(result) == n",
        # every emitted step references two different positions that exist at that step
        # (which of the two positions comes first is immaterial to a path)
        "forall(0, n, lambda t: 0 <= result[t][0] and result[t][0] < N - t and 0 <= result[t][1] and result[t][1] < N - t and result[t][0] != result[t][1])",
    ],
    nloops=1,
    loops={
        0: Loop(
            pos="t",
            inv=[
                "ssa == N + t", "len(ssas) == N - t", "len(path) == t",
                "forall(0, len(ssas), lambda p: forall(0, len(ssas), lambda q: implies(p < q, ssas[p] < ssas[q])))",
                "forall(0, len(ssas), lambda p: 0 <= ssas[p] and ssas[p] < ssa)",
                "forall(0, t, lambda u: 0 <= path[u][0] and path[u][0] < path[u][1] and path[u][1] < N - u)",
                # the node -> id map built so far agrees with nid on exactly the nodes created so far
                "forall(keys(nid), lambda x: implies(0 <= nid[x] and nid[x] < ssa, x in node_to_ssa and node_to_ssa[x] == nid[x]))",
                "forall(keys(where), lambda x: 0 <= where[x] and where[x] < len(ssas) and ssas[where[x]] == x)",
                f"forall(lambda x: (x in where) == (0 <= x and x < ssa and forall(0, t, lambda u: nid[TR[u][1]] != x and nid[TR[u][2]] != x)))",
            ],
            ghosts={
                "where": (
                    "mapof(lambda x: 0 <= x and x < N, lambda x: x)",
                    f"mapof(lambda x: (x in prev(where) and x != nid[{L}] and x != nid[{R}]) or x == prev(ssa),"
                    " lambda x: (len(ssas) - 1) if x == prev(ssa) else (prev(where)[x] - (1 if prev(where)[x] > i else 0) - (1 if prev(where)[x] > j else 0)))",
                )
            },
            cuts={
                2: ["lssa == nid[TR[t][1]] and rssa == nid[TR[t][2]]",
                    "lssa in where and rssa in where",
                    "ssas[where[lssa]] == lssa and ssas[where[rssa]] == rssa",
                    "where[lssa] != where[rssa]"],
                3: ["(i == where[lssa] and j == where[rssa]) or (i == where[rssa] and j == where[lssa])",
                    "i < j and j < len(ssas)"],
            },
            step=[
                f"lssa == nid[{L}] and rssa == nid[{R}]",
                f"nid[{L}] in prev(where) and nid[{R}] in prev(where)",
                f"prev(ssas)[prev(where)[nid[{L}]]] == nid[{L}] and prev(ssas)[prev(where)[nid[{R}]]] == nid[{R}]",
                f"prev(where)[nid[{L}]] != prev(where)[nid[{R}]]",
                f"(i == prev(where)[nid[{L}]] and j == prev(where)[nid[{R}]]) or (i == prev(where)[nid[{R}]] and j == prev(where)[nid[{L}]])",
                "i < j",
                "len(ssas) == prev(len(ssas)) - 1 and ssas[len(ssas) - 1] == prev(ssa)",
                "forall(0, len(ssas) - 1, lambda p: ssas[p] == (prev(ssas)[p] if p < i else (prev(ssas)[p + 1] if p < j - 1 else prev(ssas)[p + 2])))",
            ],
        )
    },
    assumptions=["traverse() yields a fixed sequence of (parent, left, right) triples in a bottom-up order (checked for the real traversals by the bounded driver); order=None"],
)
CONTRACTS.append(get_path)


def _gen_get_path(rng):
    import cotengra as ctg
    from ..scope import random_tree_ssa

    n = rng.randint(1, 6)
    con = ctg.utils.rand_equation(max(n, 2), 3, seed=rng.randint(0, 10**6)) if n > 1 else None
    if n == 1:
        tree = ctg.ContractionTree([("a",)], ("a",), {"a": 2})
    else:
        tree = ctg.ContractionTree.from_path(con.inputs, con.output, con.size_dict, ssa_path=random_tree_ssa(n, rng))
    return {"self": tree, "args": (), "universe": list(tree.info) + list(range(-1, 14)), "describe": f"tree children {[(sorted(p), sorted(l), sorted(r)) for p, (l, r) in tree.children.items()]}"}


get_path.gen = _gen_get_path


def _dict_zip_leaves_range(engine, st, args, node, kwargs):
    """dict(zip(self.gen_leaves(), range(self.N))): leaf p -> p."""
    lv = engine.external(st, "ContractionTree.gen_leaves", [st.vars["self"]], node)
    N = engine.num(engine.deref(st, st.vars["self"]).fields["N"])
    k, p = _z3.Int("dz!k"), _z3.Int("dz!p")
    n = _z3.If(lv.c[0] < N, lv.c[0], N)
    dom = _z3.Lambda([k], _z3.Exists([p], _z3.And(0 <= p, p < n, lv.c[1][p] == k)))
    pos = _z3.Function("dz!posr", Ty.IntS, Ty.IntS)
    st.assume(_z3.ForAll([p], _z3.Implies(_z3.And(0 <= p, p < n), pos(lv.c[1][p]) == p)))
    return engine.alloc(st, _V(NidT, [dom, _z3.Lambda([k], pos(k))]))


_dict_zip_leaves_range.raw = True

get_ssa_path = Contract(
    target="cotengra.core:ContractionTree.get_ssa_path",
    props=["C10", "C05"],
    self_type=TreePT,
    params={},
    ghost=get_path.ghost,
    lets=get_path.lets,
    externals={**get_path.externals, "dict": _dict_zip_leaves_range},
    requires=get_path.requires,
    returns=PathT,
    hints={"ssa_path": PathT},
    ensures=[
        "len(result) == n",
        # step t contracts exactly the ids of the two children, smaller id first;
        # the t-th parent gets id N + t (so children are listed before parents)
        # each step names the ids of the two children (in either order)
        "forall(0, n, lambda t: (result[t][0] == nid[TR[t][1]] and result[t][1] == nid[TR[t][2]]) or (result[t][0] == nid[TR[t][2]] and result[t][1] == nid[TR[t][1]]))",
        "forall(0, n, lambda t: 0 <= result[t][0] and result[t][0] < N + t and 0 <= result[t][1] and result[t][1] < N + t and result[t][0] != result[t][1])",
    ],
    nloops=1,
    loops={
        0: Loop(
            pos="t",
            inv=[
                "len(ssa_path) == t",
                "forall(0, t, lambda u: ssa_path[u][0] == min(nid[TR[u][1]], nid[TR[u][2]]) and ssa_path[u][1] == max(nid[TR[u][1]], nid[TR[u][2]]))",
                "forall(keys(nid), lambda x: implies(0 <= nid[x] and nid[x] < N + t, x in pos and pos[x] == nid[x]))",
            ],
        )
    },
    assumptions=get_path.assumptions,
)
get_ssa_path.gen = _gen_get_path
CONTRACTS.append(get_ssa_path)
