"""Contracts for the lightweight processor's leg arithmetic (C18, C05, C09):
path_basic.compute_contracted / compute_size / compute_flops.

Legs are lists of (index id, count), strictly increasing in the id.  Ghost
views gi, gj map an id to its count in ilegs / jlegs.  Common step spec:
an index survives iff its combined count differs from appearances[id]; the
precondition 'already simplified' (count != appearances for every entry) is
what makes the single-sided branches agree with that rule, and it is
re-established by the postcondition (so it is inductive along a path)."""

from ..pyvc import types as Ty
from ..pyvc.contract import Contract, Loop

LegsL = Ty.List(Ty.Tuple([Ty.Int, Ty.Int]))
IntL = Ty.List(Ty.Int)
ViewT = Ty.Map(Ty.Int, Ty.Int)


def sorted_(name):
    return f"forall(0, len({name}), lambda p: forall(0, len({name}), lambda q: implies(p < q, {name}[p][0] < {name}[q][0])))"


def view(lst, g):
    return (f"forall(0, len({lst}), lambda p: {lst}[p][0] in {g} and {g}[{lst}[p][0]] == {lst}[p][1])")


def simplified(lst):
    return f"forall(0, len({lst}), lambda p: 0 <= {lst}[p][0] and {lst}[p][0] < len(appearances) and {lst}[p][1] != appearances[{lst}[p][0]])"


def sound(lst, hi="len(%s)"):
    n = hi % lst if "%s" in hi else hi
    return (f"forall(0, {n}, lambda r: ({lst}[r][0] in gi or {lst}[r][0] in gj)"
            f" and {lst}[r][1] == get(gi, {lst}[r][0], 0) + get(gj, {lst}[r][0], 0)"
            f" and {lst}[r][1] != appearances[{lst}[r][0]]"
            f" and 0 <= {lst}[r][0] and {lst}[r][0] < len(appearances))")


compute_contracted = Contract(
    target="cotengra.pathfinders.path_basic:compute_contracted",
    props=["C18", "C05", "C09"],
    params={"ilegs": LegsL, "jlegs": LegsL, "appearances": IntL},
    ghost={"gi": (ViewT, "dict(ilegs)"), "gj": (ViewT, "dict(jlegs)")},
    requires=[
        sorted_("ilegs"), sorted_("jlegs"),
        view("ilegs", "gi"), view("jlegs", "gj"),
        # the views contain nothing else
        "forall(keys(gi), lambda x: exists(0, len(ilegs), lambda p: ilegs[p][0] == x))",
        "forall(keys(gj), lambda x: exists(0, len(jlegs), lambda p: jlegs[p][0] == x))",
        simplified("ilegs"), simplified("jlegs"),
    ],
    returns=LegsL,
    hints={"new_legs": LegsL},
    ensures=[
        sorted_("result"),
        # every emitted leg is an index of i or j with the combined count, and it survives
        sound("result"),
    ],
    ensures_rt=[
        # completeness (existential over positions: monitor only)
        "dict(result) == {x: gi.get(x, 0) + gj.get(x, 0) for x in set(gi) | set(gj) if gi.get(x, 0) + gj.get(x, 0) != appearances[x]}",
    ],
    nloops=1,
    loops={
        0: Loop(
            inv=[
                "ni == len(ilegs) and nj == len(jlegs)",
                "0 <= ip and ip <= ni and 0 <= jp and jp <= nj",
                sorted_("new_legs"),
                sound("new_legs"),
                # everything emitted so far is below both heads
                "forall(0, len(new_legs), lambda r: implies(ip < ni, new_legs[r][0] < ilegs[ip][0]) and implies(jp < nj, new_legs[r][0] < jlegs[jp][0]))",
                # cross invariant: consumed entries of one list are below the head of the other
                "forall(0, ip, lambda p: implies(jp < nj, ilegs[p][0] < jlegs[jp][0]))",
                "forall(0, jp, lambda q: implies(ip < ni, jlegs[q][0] < ilegs[ip][0]))",
            ]
        )
    },
)

LPROD = "def lp(p):\n    return 1 if p <= 0 else lp(p - 1) * sizes[legs[p - 1][0]]\n"
compute_size = Contract(
    target="cotengra.pathfinders.path_basic:compute_size",
    props=["C18"],
    params={"legs": LegsL, "sizes": IntL},
    spec={"lp": LPROD},
    requires=["forall(0, len(legs), lambda p: 0 <= legs[p][0] and legs[p][0] < len(sizes))"],
    returns=Ty.Int,
    # product of the dimension of every listed index
    ensures=["result == lp(len(legs))"],
    nloops=1,
    loops={0: Loop(pos="t", inv=["size == lp(t)"])},
)

LPI = "def lpi(p):\n    return 1 if p <= 0 else lpi(p - 1) * sizes[ilegs[p - 1][0]]\n"
LPJ = "def lpj(q):\n    return 1 if q <= 0 else lpj(q - 1) * (1 if jlegs[q - 1][0] in gi else sizes[jlegs[q - 1][0]])\n"
compute_flops = Contract(
    target="cotengra.pathfinders.path_basic:compute_flops",
    props=["C18"],
    params={"ilegs": LegsL, "jlegs": LegsL, "sizes": IntL},
    ghost={"gi": (ViewT, "dict(ilegs)")},
    spec={"lpi": LPI, "lpj": LPJ},
    requires=[
        "forall(0, len(ilegs), lambda p: 0 <= ilegs[p][0] and ilegs[p][0] < len(sizes))",
        "forall(0, len(jlegs), lambda p: 0 <= jlegs[p][0] and jlegs[p][0] < len(sizes))",
        view("ilegs", "gi"),
        "forall(keys(gi), lambda x: exists(0, len(ilegs), lambda p: ilegs[p][0] == x))",
    ],
    returns=Ty.Int,
    # every index of i once, and every index of j that is not on i once
    ensures=["result == lpi(len(ilegs)) * lpj(len(jlegs))"],
    nloops=2,
    loops={
        0: Loop(pos="t", inv=["flops == lpi(t)", "forall(lambda x: (x in seen) == exists(0, t, lambda p: ilegs[p][0] == x))"]),
        1: Loop(pos="u", inv=["flops == lpi(len(ilegs)) * lpj(u)", "forall(lambda x: (x in seen) == (x in gi))"]),
    },
)

CONTRACTS = [compute_contracted, compute_size, compute_flops]


def _legs(rng, nix, app):
    ixs = sorted(rng.sample(range(nix), rng.randint(0, nix)))
    return [(ix, rng.randint(1, max(1, app[ix] - 1))) for ix in ixs]


def _gen_cc(rng):
    nix = rng.randint(1, 6)
    app = [rng.randint(2, 5) for _ in range(nix)]
    i, j = _legs(rng, nix, app), _legs(rng, nix, app)
    # keep only inputs that satisfy 'already simplified'
    i = [(x, c) for x, c in i if c != app[x]]
    j = [(x, c) for x, c in j if c != app[x]]
    return {"args": (i, j, app), "universe": range(-1, nix + 1), "describe": f"ilegs={i} jlegs={j} appearances={app}"}


def _gen_size(rng):
    nix = rng.randint(1, 6)
    sizes = [rng.choice([1, 2, 3, 5]) for _ in range(nix)]
    return {"args": (_legs(rng, nix, [3] * nix), sizes), "describe": "random legs"}


def _gen_flops(rng):
    nix = rng.randint(1, 6)
    sizes = [rng.choice([1, 2, 3, 5]) for _ in range(nix)]
    return {"args": (_legs(rng, nix, [3] * nix), _legs(rng, nix, [3] * nix), sizes), "universe": range(-1, nix + 1), "describe": "random legs"}


compute_contracted.gen = _gen_cc
compute_size.gen = _gen_size
compute_flops.gen = _gen_flops
