"""C05: the node bookkeeping of the lightweight ContractionProcessor (behind
greedy / optimal / random-greedy) and the completion step every one of those
pathfinders ends with.

  pop_node(i)            removes exactly node i, returns its legs
  add_node(legs)         adds exactly one node, under the fresh id `ssa`
  contract_nodes(i, j)   for two different live nodes: removes exactly i and j, adds
                         exactly one fresh node, appends exactly the step (i, j)
  optimize_greedy(...)   the search phase of the greedy finders: whatever the scores are, every step it
                         records goes through contract_nodes with two different nodes that are live at
                         that moment (call-site obligation), ids stay fresh, a live node remains
  simplify_scalars()     collects different live scalar nodes (and the smallest other node) and folds them left
                         to right: every step joins two different live nodes
  remove_ix(ix) / simplify_batch()
                         drop an index from the legs of exactly the nodes that carry it / drop the indices that
                         sit on every node: WHICH nodes are live and the recorded path never change
  neighbors(i)           never yields i itself (what optimize_greedy relies on for 'different')
  optimize_remaining_by_size()
                         from ANY state with at least one live node ends with exactly
                         one live node; every step it appends contracts two different
                         nodes that were live at that moment (call-site obligations of
                         contract_nodes)

State invariant carried through: every live node id is < self.ssa (so the next id
is fresh).  With it a pathfinder built from contract_nodes + this completion
step returns a contraction in which every tensor is consumed exactly once and
which ends in a single tensor - whatever its search phase did.

Abstracted (arbitrary values afterwards, syntactic frame check): the edge map
`self.edges` (never read by these four functions except to update it), the
flops counter, the legs of the new node (compute_contracted has its own contract
in processor_legs) and the sizes used as heap priorities.  heapq is assumed to
keep the multiset of entries: heappop removes one entry, heappush adds one."""

import z3

from ..pyvc import types as Ty
from ..pyvc.contract import Contract, Loop
from ..pyvc.engine import ObjT
from ..pyvc.types import V, Int

LegsL = Ty.List(Ty.Tuple([Int, Int]))
HeapT = Ty.List(Ty.Tuple([Int, Int]))
ProcT = ObjT("ContractionProcessor", {
    "nodes": Ty.Map(Int, LegsL), "edges": Ty.Map(Int, Ty.Set(Int)), "ssa": Int, "ssa_path": Ty.List(Ty.Tuple([Int, Int])),
    "track_flops": Ty.Bool, "flops": Int, "flops_limit": Ty.Real, "flops_factor": Int, "appearances": Ty.List(Int), "sizes": Ty.List(Int), "indmap": Ty.Map(Ty.Key, Int)})

FRESH = "forall(keys(self.nodes), lambda n: n < self.ssa)"
FRAME = ["self.ssa_path == old(self.ssa_path)", "self.appearances == old(self.appearances)", "self.sizes == old(self.sizes)"]

pop_node = Contract(
    target="cotengra.pathfinders.path_basic:ContractionProcessor.pop_node",
    props=["C05"],
    self_type=ProcT,
    params={"i": Int},
    requires=["i in self.nodes"],
    returns=LegsL,
    modifies=["self.nodes", "self.edges"],
    ensures=[
        "result == old(self.nodes[i])",
        "not (i in self.nodes)",
        "forall(keys(old(self.nodes)), lambda n: implies(n != i, n in self.nodes and self.nodes[n] == old(self.nodes)[n]))",
        "forall(keys(self.nodes), lambda n: n in old(self.nodes))",
        "self.ssa == old(self.ssa)",
    ] + FRAME,
    hints={"ix": Int, "_": Int, "ix_nodes": Ty.Set(Int)},
)
pop_node.abstract_stmts = {"for ix, _ in legs:": ["self.edges", "ix", "_", "ix_nodes"]}

add_node = Contract(
    target="cotengra.pathfinders.path_basic:ContractionProcessor.add_node",
    props=["C05"],
    self_type=ProcT,
    params={"legs": LegsL},
    returns=Int,
    modifies=["self.nodes", "self.edges", "self.ssa"],
    ensures=[
        # the id handed out is fresh and stays below the counter (that it is exactly the old counter is not needed)
        "result >= old(self.ssa) and self.ssa > result",
        "result in self.nodes and self.nodes[result] == legs",
        "forall(keys(old(self.nodes)), lambda n: implies(n != result, n in self.nodes and self.nodes[n] == old(self.nodes)[n]))",
        "forall(keys(self.nodes), lambda n: n == result or n in old(self.nodes))",
    ] + FRAME,
    hints={"ix": Int, "_": Int},
)
add_node.abstract_stmts = {"for ix, _ in legs:": ["self.edges", "ix", "_"]}


def x_any_legs(engine, st, args, node, kw):
    v = Ty.havoc(LegsL, f"legs@{engine.line(node)}")
    for f in Ty.wf(v, "legs"):
        st.assume(f)
    return engine.alloc(st, v)


contract_nodes = Contract(
    target="cotengra.pathfinders.path_basic:ContractionProcessor.contract_nodes",
    props=["C05"],
    self_type=ProcT,
    params={"i": Int, "j": Int, "new_legs": Ty.Opt(LegsL)},
    defaults={"new_legs": "None"},
    requires=["i in self.nodes and j in self.nodes and i != j", FRESH],
    returns=Int,
    modifies=["self.nodes", "self.edges", "self.ssa", "self.ssa_path", "self.flops"],
    externals={"compute_contracted": x_any_legs},
    ensures=[
        # exactly i and j leave, exactly one fresh node arrives
        "result >= old(self.ssa) and self.ssa > result and result in self.nodes",
        "not (i in self.nodes) and not (j in self.nodes)",
        "forall(keys(old(self.nodes)), lambda n: implies(n != i and n != j, n in self.nodes and self.nodes[n] == old(self.nodes)[n]))",
        "forall(keys(self.nodes), lambda n: n == result or (n in old(self.nodes) and n != i and n != j))",
        # exactly this step is recorded
        "len(self.ssa_path) == old(len(self.ssa_path)) + 1",
        "(self.ssa_path[len(self.ssa_path) - 1][0] == i and self.ssa_path[len(self.ssa_path) - 1][1] == j)"
        " or (self.ssa_path[len(self.ssa_path) - 1][0] == j and self.ssa_path[len(self.ssa_path) - 1][1] == i)",
        "forall(0, old(len(self.ssa_path)), lambda q: self.ssa_path[q] == old(self.ssa_path)[q])",
        FRESH,
        "self.appearances == old(self.appearances)", "self.sizes == old(self.sizes)",
    ],
)
contract_nodes.abstract_stmts = {"if self.track_flops:": ["self.flops"]}


# ------------------------------------------------------------ heapq as a multiset of entries
def _bij(engine, st, old, new, tag, skip=None, extra=None):
    """new is old without position `skip` / with the entry `extra` added, in some order"""
    n0, n1 = old.c[0], new.c[0]
    cols = []
    for ci, a in enumerate(old.c[1:]):
        if not (z3.is_const(a) and a.decl().kind() == z3.Z3_OP_UNINTERPRETED):
            # a computed column (comprehension result): name it, so that its elements can key the instantiations
            nm = z3.Const(f"hq!col!{tag}!{ci}", a.sort())
            j_ = z3.Int("hq!j")
            st.assume(z3.ForAll([j_], nm[j_] == a[j_]))
            a = nm
        cols.append(a)
    old = V(old.t, [n0] + cols)
    fwd = z3.Function(f"hq!fwd!{tag}", Ty.IntS, Ty.IntS)  # position in old of new position q (or -1: the added entry)
    bwd = z3.Function(f"hq!bwd!{tag}", Ty.IntS, Ty.IntS)  # position in new of old position p
    p, q = z3.Ints("hq!p hq!q")
    same_old = lambda a, b: z3.And(*[x[a] == y[b] for x, y in zip(new.c[1:], old.c[1:])])  # noqa: E731
    if extra is None:
        st.assume(n1 == n0 - (1 if skip is not None else 0))
        st.assume(z3.ForAll([q], z3.Implies(z3.And(0 <= q, q < n1), z3.And(0 <= fwd(q), fwd(q) < n0, *( [fwd(q) != skip] if skip is not None else []), bwd(fwd(q)) == q, same_old(q, fwd(q)))),
                            patterns=[fwd(q), new.c[2][q]]))
        st.assume(z3.ForAll([p], z3.Implies(z3.And(0 <= p, p < n0, *([p != skip] if skip is not None else [])), z3.And(0 <= bwd(p), bwd(p) < n1, fwd(bwd(p)) == p)), patterns=[bwd(p), old.c[2][p]]))
    else:
        at = z3.Int(f"hq!at!{tag}")
        st.assume(n1 == n0 + 1)
        st.assume(z3.And(0 <= at, at < n1, *[x[at] == e for x, e in zip(new.c[1:], extra.c)]))
        st.assume(z3.ForAll([q], z3.Implies(z3.And(0 <= q, q < n1, q != at), z3.And(0 <= fwd(q), fwd(q) < n0, bwd(fwd(q)) == q, same_old(q, fwd(q)))), patterns=[fwd(q), new.c[2][q]]))
        st.assume(z3.ForAll([p], z3.Implies(z3.And(0 <= p, p < n0), z3.And(0 <= bwd(p), bwd(p) < n1, bwd(p) != at, fwd(bwd(p)) == p)), patterns=[bwd(p), old.c[2][p]]))


def x_heapify(engine, st, args, node, kw):
    ref = args[0]
    old = engine.deref(st, ref)
    new = Ty.havoc(old.t, f"heapified@{engine.line(node)}")
    _bij(engine, st, old, new, f"fy{engine.new_id()}")
    st.heap[ref.id] = new
    return Ty.mk_none()


x_heapify.modifies = [0]


def x_heappop(engine, st, args, node, kw):
    ref = args[0]
    old = engine.deref(st, ref)
    engine.oblige(st, old.c[0] >= 1, f"heappop from a non-empty heap at line {engine.line(node)}", "safety", node)
    pm = z3.Int(f"hq!min!{engine.new_id()}")
    st.assume(z3.And(0 <= pm, pm < old.c[0]))
    new = Ty.havoc(old.t, f"popped@{engine.line(node)}")
    _bij(engine, st, old, new, f"pp{engine.new_id()}", skip=pm)
    st.heap[ref.id] = new
    return engine.elem(old, pm)


x_heappop.modifies = [0]


def x_heappush(engine, st, args, node, kw):
    ref = args[0]
    old = engine.deref(st, ref)
    e = engine.coerce(engine.unbox_value(st, args[1]), old.t.e)
    new = Ty.havoc(old.t, f"pushed@{engine.line(node)}")
    _bij(engine, st, old, new, f"ps{engine.new_id()}", extra=e)
    st.heap[ref.id] = new
    return Ty.mk_none()


x_heappush.modifies = [0]


def x_size(engine, st, args, node, kw):
    return V(Int, [engine.fresh(st, "size", node, Ty.IntS)])


H = "nodes_sizes"
remaining = Contract(
    target="cotengra.pathfinders.path_basic:ContractionProcessor.optimize_remaining_by_size",
    props=["C05"],
    self_type=ProcT,
    params={},
    requires=["exists(keys(self.nodes), lambda n: True)", FRESH],
    returns=Ty.NoneT,
    modifies=["self.nodes", "self.edges", "self.ssa", "self.ssa_path", "self.flops"],
    externals={"heapq.heapify": x_heapify, "heapq.heappop": x_heappop, "heapq.heappush": x_heappush, "compute_size": x_size},
    hints={H: HeapT, "i": Int, "j": Int, "k": Int, "ksize": Int, "_": Int},
    nloops=1,
    loops={0: Loop(inv=[
        f"len({H}) >= 1",
        FRESH,
        # the heap holds every live node exactly once
        f"forall(0, len({H}), lambda p: {H}[p][1] in self.nodes)",
        f"forall(0, len({H}), lambda p: forall(0, len({H}), lambda q: implies(p != q, {H}[p][1] != {H}[q][1])))",
        f"forall(keys(self.nodes), lambda n: exists(0, len({H}), lambda p: {H}[p][1] == n))",
        "self.appearances == old(self.appearances) and self.sizes == old(self.sizes)",
        "len(self.ssa_path) >= old(len(self.ssa_path))",
        # (stepping stone for the exit: a heap of one entry means one live node)
        f"implies(len({H}) == 1, forall(keys(self.nodes), lambda a: a == {H}[0][1]))",
    ])},
    ensures=[
        # exactly one live node is left
        "exists(keys(self.nodes), lambda n: True)",
        FRESH,
    ],
    ensures_t1=["forall(keys(self.nodes), lambda a: forall(keys(self.nodes), lambda b: a == b))"],
    ensures_rt=["len(self.nodes) == 1"],
    assumptions=["heapq keeps the multiset of entries (heappop removes one entry, heappush adds one); a dict is finite and iterating it visits every key once"],
)


# ------------------------------------------------------------ the greedy search phase
QueueT = Ty.List(Ty.Tuple([Ty.Real, Int]))
CandT = Ty.Map(Int, Ty.Tuple([Int, Int, Int, LegsL]))


def x_pairs(engine, st, args, node, kw):
    """itertools.combinations(d, 2) for a dict/set d: pairs of two DIFFERENT members"""
    d = engine.deref(st, args[0])
    out = Ty.havoc(Ty.List(Ty.Tuple([Int, Int])), f"pairs@{engine.line(node)}")
    p = z3.Int("cb!p")
    n, a, b = out.c
    st.assume(n >= 0)
    st.assume(z3.ForAll([p], z3.Implies(z3.And(0 <= p, p < n), z3.And(a[p] != b[p], d.c[0][a[p]], d.c[0][b[p]])), patterns=[a[p], b[p]]))
    return engine.alloc(st, out)


def x_neighbors(engine, st, args, node, kw):
    """self.neighbors(k): never k itself (the `neighbors` contract below)"""
    k = engine.num(args[-1])
    out = Ty.havoc(Ty.List(Int), f"neighbors@{engine.line(node)}")
    p = z3.Int("nb!p")
    st.assume(out.c[0] >= 0)
    st.assume(z3.ForAll([p], z3.Implies(z3.And(0 <= p, p < out.c[0]), out.c[1][p] != k), patterns=[out.c[1][p]]))
    return engine.alloc(st, out)


def x_score(engine, st, args, node, kw):
    return V(Ty.Real, [engine.fresh(st, "score", node, Ty.RealS)])


Q, CT = "queue", "contractions"
INV_G = [
    FRESH,
    "exists(keys(self.nodes), lambda n: True)",
    # every candidate joins two DIFFERENT nodes
    f"forall(keys({CT}), lambda x: {CT}[x][0] != {CT}[x][1])",
    # the queue refers to recorded candidates only, each at most once, all numbered below c
    f"forall(0, len({Q}), lambda p: {Q}[p][1] in {CT} and {Q}[p][1] < c)",
    f"forall(0, len({Q}), lambda p: forall(0, len({Q}), lambda q: implies(p != q, {Q}[p][1] != {Q}[q][1])))",
    "self.appearances == old(self.appearances) and self.sizes == old(self.sizes)",
]
greedy = Contract(
    target="cotengra.pathfinders.path_basic:ContractionProcessor.optimize_greedy",
    props=["C05"],
    self_type=ProcT,
    params={"costmod": Ty.Real, "temperature": Ty.Real, "seed": Ty.Opt(Int)},
    requires=["exists(keys(self.nodes), lambda n: True)", FRESH],
    returns=Ty.Bool,
    modifies=["self.nodes", "self.edges", "self.ssa", "self.ssa_path", "self.flops"],
    externals={"heapq.heappop": x_heappop, "heapq.heappush": x_heappush, "compute_size": x_size, "local_score": x_score,
               "itertools.combinations": x_pairs, "ContractionProcessor.neighbors": x_neighbors},
    hints={Q: QueueT, CT: CandT, "node_sizes": Ty.Map(Int, Int), "local_score": Ty.Key, "gmblgen": Ty.Key, "i": Int, "j": Int, "k": Int, "l": Int, "c": Int, "c0": Int, "_": Ty.Real,
           "ilegs": LegsL, "klegs": LegsL, "mlegs": LegsL, "isize": Int, "jsize": Int, "ksize": Int, "lsize": Int, "msize": Int, "score": Ty.Real, "ix_nodes": Ty.Set(Int)},
    nloops=5,
    loops={
        1: Loop(seen="S0", inv=INV_G),
        2: Loop(pos="t1", inv=INV_G),
        3: Loop(inv=INV_G),
        4: Loop(pos="t3", inv=INV_G + ["k in self.nodes"]),
    },
    ensures=[FRESH, "exists(keys(self.nodes), lambda n: True)", "self.appearances == old(self.appearances) and self.sizes == old(self.sizes)"],
    assumptions=["the scoring function, the sizes and the legs of candidates are arbitrary (they only steer the search) and the nested scoring function is pure (its body is not analysed); lookups node_sizes[..] / self.nodes[..] while scoring"
                 " candidates are abstracted (their safety rests on the edge map being consistent with the nodes, which is not under contract);"
                 " itertools.combinations yields pairs of different members; heapq keeps the multiset of entries; termination is not proved"],
)
greedy.abstract_stmts = {
    "if temperature == 0.0:": ["local_score", "gmblgen", "score"],
    "for i, ilegs in self.nodes.items():": ["node_sizes", "i", "ilegs"],
    "isize = node_sizes[i]": ["isize"],
    "jsize = node_sizes[j]": ["jsize"],
    "lsize = node_sizes[l]": ["lsize"],
    "klegs = compute_contracted(": ["klegs"],
    "mlegs = compute_contracted(": ["mlegs"],
}

neighbors = Contract(
    target="cotengra.pathfinders.path_basic:ContractionProcessor.neighbors",
    props=["C05"],
    self_type=ProcT,
    params={"i": Int},
    # (class invariant, monitored on reachable states: every index on a live node has an entry in the edge map)
    requires=["i in self.nodes", "forall(0, len(self.nodes[i]), lambda p: self.nodes[i][p][0] in self.edges)"],
    returns=Ty.List(Int),
    hints={"ix": Int, "_": Int, "j": Int},
    nloops=2,
    loops={
        0: Loop(pos="t", inv=["forall(0, len(__yields__), lambda q: __yields__[q] != i)"]),
        1: Loop(seen="S", inv=["forall(0, len(__yields__), lambda q: __yields__[q] != i)"]),
    },
    # the node itself is never among its neighbours (what optimize_greedy relies on)
    ensures=["forall(0, len(result), lambda q: result[q] != i)"],
)
# ------------------------------------------------------------ simplify_scalars
SC = "scalars"
SC_DISTINCT = f"forall(0, len({SC}), lambda a: forall(0, len({SC}), lambda b: implies(a != b, {SC}[a] != {SC}[b])))"
scalars = Contract(
    target="cotengra.pathfinders.path_basic:ContractionProcessor.simplify_scalars",
    props=["C05"],
    self_type=ProcT,
    params={},
    requires=[FRESH],
    returns=Ty.NoneT,
    modifies=["self.nodes", "self.edges", "self.ssa", "self.ssa_path", "self.flops"],
    hints={SC: Ty.List(Int), "j": Ty.Opt(Int), "jndim": Ty.Opt(Int), "i": Int, "legs": LegsL, "ndim": Int, "p": Int, "k": Int},
    nloops=2,
    loops={
        # collecting: the scalars found so far are different live nodes without legs; the node to multiply into has legs
        0: Loop(seen="S", inv=[
            f"forall(0, len({SC}), lambda a: {SC}[a] in self.nodes and len(self.nodes[{SC}[a]]) == 0)",
            SC_DISTINCT,
            f"forall(0, len({SC}), lambda a: {SC}[a] in S)",
            "implies(j is not None, unopt(j) in self.nodes and len(self.nodes[unopt(j)]) > 0 and jndim is not None)",
        ]),
        # contracting left to right: the entries from p on are different live nodes
        1: Loop(pos="t", inv=[
            FRESH,
            f"len({SC}) == at_entry(len({SC}))",
            f"forall(t, len({SC}), lambda a: {SC}[a] in self.nodes)",
            f"forall(t, len({SC}), lambda a: forall(t, len({SC}), lambda b: implies(a != b, {SC}[a] != {SC}[b])))",
            "self.appearances == old(self.appearances) and self.sizes == old(self.sizes)",
        ]),
    },
    # ids stay fresh; every step recorded went through contract_nodes with two different live nodes (call-site obligations)
    ensures=[FRESH, "self.appearances == old(self.appearances) and self.sizes == old(self.sizes)"],
)
# ------------------------------------------------------------ remove_ix / simplify_batch
NL = "self.nodes[n]"
ONL = "old(self.nodes)[n]"
remove_ix = Contract(
    target="cotengra.pathfinders.path_basic:ContractionProcessor.remove_ix",
    props=["C05"],
    self_type=ProcT,
    params={"ix": Int},
    # (class invariant, monitored: every node listed under an index is a live node)
    requires=["ix in self.edges", "forall(self.edges[ix], lambda n: n in self.nodes)"],
    returns=Ty.NoneT,
    modifies=["self.nodes", "self.edges"],
    hints={"node": Int, "jx": Int, "jx_count": Int},
    nloops=1,
    loops={0: Loop(seen="S", inv=[
        "keys(self.nodes) == old(keys(self.nodes))",
        "keys(self.edges) == without_key(old(keys(self.edges)), ix)",
        "forall(keys(self.edges), lambda e: self.edges[e] == old(self.edges)[e])",
        f"forall(keys(self.nodes), lambda n: implies(not (n in S), {NL} == {ONL}))",
        f"forall(S, lambda n: n in self.nodes and forall(0, len({NL}), lambda p: {NL}[p][0] != ix and exists(0, len({ONL}), lambda q: {ONL}[q] == {NL}[p])))",
        f"forall(S, lambda n: forall(0, len({ONL}), lambda q: implies({ONL}[q][0] != ix, exists(0, len({NL}), lambda p: {NL}[p] == {ONL}[q]))))",
    ])},
    ensures=[
        # the set of live nodes is untouched; the index leaves the edge map, no other entry of it changes
        "keys(self.nodes) == old(keys(self.nodes))",
        "keys(self.edges) == without_key(old(keys(self.edges)), ix)",
        "forall(keys(self.edges), lambda e: self.edges[e] == old(self.edges)[e])",
        # on the nodes that carried it: no leg with that index is left, every other leg is kept
        f"forall(old(self.edges[ix]), lambda n: forall(0, len({NL}), lambda p: {NL}[p][0] != ix and exists(0, len({ONL}), lambda q: {ONL}[q] == {NL}[p])))",
        f"forall(old(self.edges[ix]), lambda n: forall(0, len({ONL}), lambda q: implies({ONL}[q][0] != ix, exists(0, len({NL}), lambda p: {NL}[p] == {ONL}[q]))))",
        # every other node keeps its legs
        f"forall(keys(self.nodes), lambda n: implies(not (n in old(self.edges[ix])), {NL} == {ONL}))",
        "self.ssa == old(self.ssa)", "self.ssa_path == old(self.ssa_path)",
    ],
)
batch = Contract(
    target="cotengra.pathfinders.path_basic:ContractionProcessor.simplify_batch",
    props=["C05"],
    self_type=ProcT,
    params={},
    requires=["forall(keys(self.edges), lambda e: forall(self.edges[e], lambda n: n in self.nodes))",
              "forall(keys(self.edges), lambda e: 0 <= e and e < len(self.sizes))"],
    returns=Ty.NoneT,
    modifies=["self.nodes", "self.edges", "self.flops_factor"],
    hints={"ix_to_remove": Ty.List(Int), "ix": Int, "ix_nodes": Ty.Set(Int)},
    nloops=2,
    loops={
        0: Loop(seen="S", inv=[
            "forall(0, len(ix_to_remove), lambda a: ix_to_remove[a] in S and ix_to_remove[a] in self.edges)",
            "forall(0, len(ix_to_remove), lambda a: forall(0, len(ix_to_remove), lambda b: implies(a != b, ix_to_remove[a] != ix_to_remove[b])))",
        ]),
        1: Loop(pos="t", inv=[
            "keys(self.nodes) == old(keys(self.nodes))",
            "len(ix_to_remove) == at_entry(len(ix_to_remove))",
            "forall(t, len(ix_to_remove), lambda a: ix_to_remove[a] in self.edges)",
            "forall(0, len(ix_to_remove), lambda a: forall(0, len(ix_to_remove), lambda b: implies(a != b, ix_to_remove[a] != ix_to_remove[b])))",
            "forall(keys(self.edges), lambda e: forall(self.edges[e], lambda n: n in self.nodes))",
            "forall(keys(self.edges), lambda e: 0 <= e and e < len(self.sizes))",
            "self.sizes == old(self.sizes) and self.ssa == old(self.ssa) and self.ssa_path == old(self.ssa_path)",
        ]),
    },
    # dropping batch indices never changes WHICH nodes are live, nor the recorded path
    ensures=["keys(self.nodes) == old(keys(self.nodes))", "self.ssa == old(self.ssa) and self.ssa_path == old(self.ssa_path)"],
)
# ------------------------------------------------------------ copy
copy_c = Contract(
    target="cotengra.pathfinders.path_basic:ContractionProcessor.copy",
    props=["C05"],
    self_type=ProcT,
    params={},
    returns=ProcT,
    externals={"ContractionProcessor.__new__": __import__("vt.pyvc.verify", fromlist=["_object_new"])._object_new},
    # the copy (used once per trial by the random-greedy finder) describes the same state: same live nodes with the
    # same legs, the same id counter (so ids handed out by the copy are fresh for it too), the same recorded path
    ensures=[
        "keys(result.nodes) == keys(self.nodes)",
        "forall(keys(self.nodes), lambda n: result.nodes[n] == self.nodes[n])",
        "result.ssa == self.ssa",
        "len(result.ssa_path) == len(self.ssa_path) and forall(0, len(self.ssa_path), lambda q: result.ssa_path[q] == self.ssa_path[q])",
        "result.appearances == self.appearances and result.sizes == self.sizes",
        "result.flops == self.flops and result.flops_factor == self.flops_factor and result.track_flops == self.track_flops",
        "keys(result.edges) == keys(self.edges)",
    ],
)
CONTRACTS = [pop_node, add_node, contract_nodes, remaining, greedy, neighbors, scalars, remove_ix, batch, copy_c]


# ------------------------------------------------------------ native side
def _processor(rng):
    import cotengra as ctg
    from cotengra.pathfinders.path_basic import ContractionProcessor

    n = rng.randint(1, 7)
    if n >= 3 and rng.random() < 0.7:
        con = ctg.utils.rand_equation(n, rng.randint(1, 3), n_out=rng.randint(0, 2), n_hyper_in=rng.randint(0, 1), seed=rng.randint(0, 10**6))
        inputs, output, sd = con.inputs, con.output, con.size_dict
    else:
        # disconnected pieces, scalars, repeated indices
        pool = "abcdefg"
        inputs = [tuple(rng.choice(pool) for _ in range(rng.randint(0, 3))) for _ in range(n)]
        used = sorted({ix for t in inputs for ix in t})
        output = tuple(rng.sample(used, rng.randint(0, min(2, len(used)))))
        sd = {ix: rng.randint(2, 4) for ix in used}
    cp = ContractionProcessor(inputs, output, sd, track_flops=rng.random() < 0.5)
    for _ in range(rng.randint(0, max(0, n - 2))):
        if len(cp.nodes) < 2:
            break
        i, j = rng.sample(sorted(cp.nodes), 2)
        cp.contract_nodes(i, j)
    return cp, f"inputs={inputs} output={output} live={sorted(cp.nodes)} ssa={cp.ssa}"


def _gen_pop(rng):
    cp, d = _processor(rng)
    i = rng.choice(sorted(cp.nodes))
    return {"self": cp, "args": (i,), "describe": d + f" pop {i}"}


def _gen_add(rng):
    cp, d = _processor(rng)
    legs = tuple(sorted((ix, rng.randint(1, 2)) for ix in rng.sample(range(len(cp.sizes)), rng.randint(0, min(3, len(cp.sizes))))))
    return {"self": cp, "args": (legs,), "describe": d + f" add {legs}"}


def _gen_contract(rng):
    cp, d = _processor(rng)
    if len(cp.nodes) < 2:
        return None
    i, j = rng.sample(sorted(cp.nodes), 2)
    return {"self": cp, "args": (i, j), "describe": d + f" contract {i},{j}"}


def _gen_remaining(rng):
    cp, d = _processor(rng)
    return {"self": cp, "args": (), "describe": d}


def _gen_greedy(rng):
    cp, d = _processor(rng)
    costmod = rng.choice([1.0, 0.5, 2.0])
    temperature = rng.choice([0.0, 0.0, 0.3])
    seed = rng.randint(0, 1000)
    return {"self": cp, "args": (costmod, temperature, seed), "describe": d + f" costmod={costmod} temperature={temperature} seed={seed}"}


def _gen_neighbors(rng):
    cp, d = _processor(rng)
    i = rng.choice(sorted(cp.nodes))
    return {"self": cp, "args": (i,), "describe": d + f" neighbors of {i}"}


pop_node.gen, add_node.gen, contract_nodes.gen, remaining.gen = _gen_pop, _gen_add, _gen_contract, _gen_remaining
def _gen_scalars(rng):
    import cotengra as ctg  # noqa: F401
    from cotengra.pathfinders.path_basic import ContractionProcessor

    # networks with several scalars (tensors without indices) next to ordinary tensors
    pool = "abcd"
    n = rng.randint(1, 6)
    inputs = [tuple(rng.choice(pool) for _ in range(rng.choice([0, 0, 1, 2, 3]))) for _ in range(n)]
    used = sorted({ix for t in inputs for ix in t})
    output = tuple(rng.sample(used, rng.randint(0, min(2, len(used)))))
    sd = {ix: rng.randint(2, 3) for ix in used}
    cp = ContractionProcessor(inputs, output, sd)
    return {"self": cp, "args": (), "describe": f"inputs={inputs} output={output}"}


def _gen_remove_ix(rng):
    cp, d = _processor(rng)
    if not cp.edges:
        return None
    ix = rng.choice(sorted(cp.edges))
    return {"self": cp, "args": (ix,), "describe": d + f" remove_ix {ix}"}


def _gen_batch(rng):
    from cotengra.pathfinders.path_basic import ContractionProcessor

    # networks with an index on every tensor (a batch index) next to ordinary ones
    pool = "abcd"
    n = rng.randint(1, 5)
    common = rng.choice(["", "z", "zy"])
    inputs = [tuple(common) + tuple(rng.choice(pool) for _ in range(rng.randint(0, 3))) for _ in range(n)]
    used = sorted({ix for t in inputs for ix in t})
    output = tuple(rng.sample(used, rng.randint(0, min(2, len(used)))))
    sd = {ix: rng.randint(2, 3) for ix in used}
    cp = ContractionProcessor(inputs, output, sd)
    return {"self": cp, "args": (), "describe": f"inputs={inputs} output={output}"}


def _gen_copy(rng):
    cp, d = _processor(rng)
    return {"self": cp, "args": (), "describe": d}


greedy.gen, neighbors.gen, scalars.gen, remove_ix.gen, batch.gen, copy_c.gen = _gen_greedy, _gen_neighbors, _gen_scalars, _gen_remove_ix, _gen_batch, _gen_copy
# natively also: the copy is independent (its own node table and path list)
copy_c.ensures_rt = ["result.nodes is not self.nodes and result.ssa_path is not self.ssa_path and result.edges is not self.edges"]
# natively: afterwards no index sits on every live node (unless there is a single node... the code's own criterion)
batch.ensures_rt = ["all(len(ns) < len(self.nodes) for ns in self.edges.values())"]
# afterwards no scalar is left unless everything was a scalar (then exactly one node is left)
scalars.ensures_rt = ["all(len(legs) > 0 for legs in self.nodes.values()) or len(self.nodes) == 1"]
for _c in CONTRACTS:
    _c.pre_must_hold = True  # states built through the class's own methods
