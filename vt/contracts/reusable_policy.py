"""Contract for the lookup / run / overwrite policy of reusable optimizers
(C14): ReusableOptimizer._maybe_run_optimizer.

Collaborators are abstracted by assumed contracts:
  hash_query(q)      -> (h, missing) with h = H(q) a pure function of the query
                        and missing == (h not in self._cache)
  _run_optimizer(q)  -> a fresh record `con`; ghost: self._ran = True,
                        self._ghost_con = con
The cache is a map fingerprint -> record(score, path, sliced_inds)."""

import z3

from ..pyvc import types as Ty
from ..pyvc.contract import Contract
from ..pyvc.engine import ObjT
from ..pyvc.types import V, Int, Bool, Key

ConT = Ty.Rec("con", {"score": Ty.Real, "path": Ty.Key, "sliced_inds": Ty.Key}, mutable=False)
CacheT = Ty.Map(Ty.Key, ConT)
OptT = ObjT(
    "ReusableOptimizer",
    {"overwrite": Ty.Key, "cache_only": Ty.Bool, "_cache": CacheT, "_ran": Ty.Bool, "_ghost_con": ConT},
)


def _hash_query(engine, st, args, node, kwargs):
    selfref = args[0]
    q = [engine.keyterm(engine.deref(st, a)) for a in args[1:]]
    key = "uf!H"
    if key not in engine.specfns:
        engine.specfns[key] = (z3.Function(key, Ty.IntS, Ty.IntS, Ty.IntS, Ty.IntS), [], Int, None)
    h = engine.specfns[key][0](*q)
    ob = engine.deref(st, selfref)
    cache = engine.deref(st, ob.fields["_cache"])
    return Ty.mk_tuple([V(Key, [h]), V(Bool, [z3.Not(cache.c[0][h])])])


def _run_optimizer(engine, st, args, node, kwargs):
    selfref = args[0]
    con = engine.havoc_t(st, ConT, "run_con", node)
    ob = engine.deref(st, selfref).clone()
    ob.fields["_ran"] = Ty.mk_bool(True)
    ob.fields["_ghost_con"] = con
    st.heap[selfref.id] = ob
    return con


H = "self.hash_query(inputs, output, size_dict)[0]"
MISSING0 = "old(self.hash_query(inputs, output, size_dict)[1])"
OVER0 = "old(self.overwrite)"

maybe_run = Contract(
    target="cotengra.reusable:ReusableOptimizer._maybe_run_optimizer",
    props=["C14"],
    self_type=OptT,
    params={"inputs": Ty.Key, "output": Ty.Key, "size_dict": Ty.Key},
    lets={"H": H},
    externals={"ReusableOptimizer.hash_query": _hash_query, "ReusableOptimizer._run_optimizer": _run_optimizer},
    requires=["not self._ran"],
    raises={"KeyError": "self.cache_only"},
    modifies=["self._cache", "self._ran", "self._ghost_con"],
    ensures=[
        # cache_only never searches
        "implies(self.cache_only, not self._ran)",
        # the returned record is always the one now stored for this fingerprint
        "H in self._cache and result[1] == self._cache[H]",
        # a hit without overwrite: no search, the stored answer is returned unchanged
        f"implies(not {MISSING0} and not {OVER0}, not self._ran and not result[0] and result[1] == old(self._cache[H]))",
        # a miss (not cache_only) searches once and stores what was found
        f"implies({MISSING0}, self._ran and result[1] == self._ghost_con)",
        # overwrite='improved' never makes the stored score worse
        f"implies(not {MISSING0} and {OVER0} == 'improved', self._cache[H]['score'] <= old(self._cache[H]['score']))",
        # 'searched' is reported only if the tree of THIS search is the answer
        "implies(result[0], self._ran and result[1] == self._ghost_con)",
        # frame: no other entry is touched
        "forall(lambda k: implies(k != H, (k in self._cache) == old(k in self._cache)))",
        "forall(lambda k: implies(k != H and k in self._cache, self._cache[k] == old(self._cache[k])))",
        "self.overwrite == old(self.overwrite) and self.cache_only == old(self.cache_only)",
    ],
    assumptions=[
        "hash_query returns (H(query), H(query) not in cache) for a pure fingerprint function H; _run_optimizer returns an arbitrary record",
        "overwrite is modelled by truthiness plus equality with 'improved'",
    ],
)

CONTRACTS = [maybe_run]


def _gen(rng):
    from cotengra.reusable import ReusableOptimizer
    from cotengra.utils import DiskDict

    class Spy(ReusableOptimizer):
        def _run_optimizer(self, inputs, output, size_dict):
            con = {"score": float(rng.randint(0, 5)), "path": ((0, 1),), "sliced_inds": ()}
            self._ran = True
            self._ghost_con = con
            return con

    o = object.__new__(Spy)
    o._suboptimizers = {}
    o._suboptimizer_kwargs = {}
    o._cache = DiskDict(None)
    o.overwrite = rng.choice([False, True, "improved"])
    o._hash_method = rng.choice(["a", "b"])
    o.cache_only = rng.random() < 0.25
    o.directory_split = rng.random() < 0.5
    o._ran = False
    o._ghost_con = None
    pool = [
        ((("a", "b"), ("b", "c")), ("a", "c"), {"a": 2, "b": 3, "c": 4}),
        ((("a", "b"), ("b", "c")), ("c", "a"), {"a": 2, "b": 3, "c": 4}),
        ((("a", "b"), ("b", "c")), ("a", "c"), {"a": 2, "b": 3, "c": 5}),
        ((("a", "b"), ("b", "c"), ("c",)), ("a",), {"a": 2, "b": 3, "c": 4}),
    ]
    for q in rng.sample(pool, rng.randint(0, 3)):
        h, _ = o.hash_query(*q)
        o._cache[h] = {"score": float(rng.randint(0, 5)), "path": ((0, 1),), "sliced_inds": ()}
    q = rng.choice(pool)
    universe = [o.hash_query(*p)[0] for p in pool]
    return {"self": o, "args": q, "universe": universe,
            "describe": f"overwrite={o.overwrite!r} cache_only={o.cache_only} cached={len(o._cache._mem_cache)} query={q}"}


maybe_run.gen = _gen


# ------------------------------------------------------------------ hash_query
def _hash_contraction(engine, st, args, node, kwargs):
    q = [engine.keyterm(engine.deref(st, a)) for a in args[:3]]
    key = "uf!H"
    if key not in engine.specfns:
        engine.specfns[key] = (z3.Function(key, Ty.IntS, Ty.IntS, Ty.IntS, Ty.IntS), [], Int, None)
    return V(Key, [engine.specfns[key][0](*q)])


QOptT = ObjT("ReusableOptimizer", {"_cache": CacheT, "_hash_method": Ty.Key, "directory_split": Ty.Bool})
hash_query = Contract(
    target="cotengra.reusable:ReusableOptimizer.hash_query",
    variant="flat",
    props=["C14", "C15"],
    self_type=QOptT,
    params={"inputs": Ty.Key, "output": Ty.Key, "size_dict": Ty.Key},
    requires=["not self.directory_split"],
    returns=Ty.Tuple([Ty.Key, Ty.Bool]),
    externals={"hash_contraction": _hash_contraction, "fingerprint": _hash_contraction},
    ensures=[
        # the key is the fingerprint of the query and 'missing' is exactly its absence from the cache
        "result[0] == fingerprint(inputs, output, size_dict)",
        "result[1] == (not (result[0] in self._cache))",
    ],
    ensures_t1=["keys(self._cache) == old(keys(self._cache))"],
    ensures_rt=["set(self._cache._mem_cache) == old(set(self._cache._mem_cache))"],
    assumptions=["hash_contraction is a pure fingerprint function of the query and the hash method; flat keys (directory_split=False)"],
)


# -------------------------------------------------------------- update_from_tree
TreeQT = ObjT("ContractionTree", {"inputs": Ty.Key, "output": Ty.Key, "size_dict": Ty.Key, "sliced_inds": Ty.Key})
UConT = Ty.SDict({"path": Ty.Key, "score": Ty.Real, "sliced_inds": Ty.Key})
UCacheT = Ty.Map(Ty.Key, UConT)
UOptT = ObjT("ReusableOptimizer", {"_cache": UCacheT})


def _u_hash_query(engine, st, args, node, kwargs):
    selfref = args[0]
    q = [engine.keyterm(engine.deref(st, a)) for a in args[1:]]
    key = "uf!H"
    if key not in engine.specfns:
        engine.specfns[key] = (z3.Function(key, Ty.IntS, Ty.IntS, Ty.IntS, Ty.IntS), [], Int, None)
    h = engine.specfns[key][0](*q)
    cache = engine.deref(st, engine.deref(st, selfref).fields["_cache"])
    return Ty.mk_tuple([V(Key, [h]), V(Bool, [z3.Not(cache.c[0][h])])])


def _uf1(name, ret=Ty.IntS, rt=Int):
    def ext(engine, st, args, node, kw):
        key = f"uf!{name}"
        if key not in engine.specfns:
            engine.specfns[key] = (z3.Function(key, Ty.IntS, ret), [], Int, None)
        t = args[0]
        tid = z3.IntVal(t.id) if hasattr(t, "id") else engine.keyterm(engine.deref(st, t))
        return V(rt, [engine.specfns[key][0](tid)])

    return ext


def _tuple_of(engine, st, args, node, kw):
    return args[0]


UH = "self.hash_query(tree.inputs, tree.output, tree.size_dict)[0]"
UMISS = "old(self.hash_query(tree.inputs, tree.output, tree.size_dict)[1])"
NEW = "self._cache[UH]['path'] == tree.get_path() and self._cache[UH]['score'] == tree.get_score() and self._cache[UH]['sliced_inds'] == tuple(tree.sliced_inds)"
update_from_tree = Contract(
    target="cotengra.reusable:ReusableOptimizer.update_from_tree",
    props=["C14"],
    self_type=UOptT,
    params={"tree": TreeQT, "overwrite": Ty.Key},
    hints={"new_con": UConT, "old_con": UConT},
    requires=["forall(lambda k: implies(k in self._cache, 'score' in self._cache[k] and 'path' in self._cache[k] and 'sliced_inds' in self._cache[k]))"],
    lets={"UH": UH},
    externals={"ReusableOptimizer.hash_query": _u_hash_query, "ContractionTree.get_path": _uf1("tree_path", Ty.IntS, Key),
               "ContractionTree.get_score": _uf1("tree_score", Ty.RealS, Ty.Real), "tuple": _tuple_of},
    modifies=["self._cache"],
    ensures=[
        "UH in self._cache",
        # missing, or overwrite=True: the tree's record is stored
        f"implies({UMISS} or (bool(overwrite) and overwrite != 'improved'), {NEW})",
        # present and overwrite falsy: untouched
        f"implies(not {UMISS} and not bool(overwrite), self._cache[UH] == old(self._cache[UH]))",
        # 'improved': the better of the two stays
        f"implies(not {UMISS} and overwrite == 'improved', (tree.get_score() < old(self._cache[UH]['score']) and {NEW}) or (not (tree.get_score() < old(self._cache[UH]['score'])) and self._cache[UH] == old(self._cache[UH])))",
        # frame
        "forall(lambda k: implies(k != UH, (k in self._cache) == old(k in self._cache)))",
        "forall(lambda k: implies(k != UH and k in self._cache, self._cache[k] == old(self._cache[k])))",
    ],
    assumptions=["hash_query returns (H(query), H(query) not in cache); overwrite is modelled by truthiness plus equality with 'improved'; tuple(sliced_inds) is the identity on an opaque value"],
)
CONTRACTS += [hash_query, update_from_tree]



def _opt(rng):
    from cotengra.reusable import ReusableOptimizer
    from cotengra.utils import DiskDict

    o = object.__new__(ReusableOptimizer)
    o._suboptimizers = {}
    o._suboptimizer_kwargs = {}
    o._cache = DiskDict(None)
    o._hash_method = rng.choice(["a", "b"])
    o.directory_split = False
    return o


def _gen_hq(rng):
    from cotengra.reusable import hash_contraction as hc

    o = _opt(rng)
    pool = [
        ((("a", "b"), ("b", "c")), ("a", "c"), {"a": 2, "b": 3, "c": 4}),
        ((("a", "b"), ("b", "c")), ("c", "a"), {"a": 2, "b": 3, "c": 4}),
        ((("a", "b"), ("b", "c"), ("c",)), ("a",), {"a": 2, "b": 3, "c": 4}),
    ]
    for q in rng.sample(pool, rng.randint(0, 2)):
        o._cache[o.hash_query(*q)[0]] = {"score": 1.0, "path": ((0, 1),), "sliced_inds": ()}
    q = rng.choice(pool)
    return {"self": o, "args": q, "bind": {"fingerprint": lambda i, out, sd: hc(i, out, sd, o._hash_method)},
            "describe": f"method={o._hash_method} cached={len(o._cache._mem_cache)} query={q}"}


hash_query.gen = _gen_hq


def _gen_uft(rng):
    import cotengra as ctg
    from ..scope import random_tree_ssa

    o = _opt(rng)
    n = rng.randint(2, 5)
    con = ctg.utils.rand_equation(max(n, 3), 3, seed=rng.randint(0, 50), d_min=2, d_max=3)
    trees = [ctg.ContractionTree.from_path(con.inputs, con.output, con.size_dict, ssa_path=random_tree_ssa(len(con.inputs), rng)) for _ in range(2)]
    if rng.random() < 0.7:
        o.update_from_tree(trees[0], overwrite=True)
    if rng.random() < 0.3 and con.size_dict:
        trees[1].remove_ind_(rng.choice(sorted(con.size_dict)))
    other = ((("x", "y"), ("y",)), ("x",), {"x": 2, "y": 2})
    if rng.random() < 0.5:
        o._cache[o.hash_query(*other)[0]] = {"score": 3.0, "path": ((0, 1),), "sliced_inds": ()}
    ow = rng.choice([False, True, "improved", "improved"])
    universe = [o.hash_query(trees[1].inputs, trees[1].output, trees[1].size_dict)[0], o.hash_query(*other)[0]]
    return {"self": o, "args": (trees[1], ow), "universe": universe,
            "describe": f"{con.inputs}->{con.output} overwrite={ow!r} cached={len(o._cache._mem_cache)} scores {trees[0].get_score():.3f} / {trees[1].get_score():.3f}"}


update_from_tree.gen = _gen_uft
