"""Contract for the lookup / run / overwrite policy of reusable optimizers
(C14): ReusableOptimizer._maybe_run_optimizer.

Collaborators are abstracted by assumed contracts:
  hash_query(q)      -> (h, missing) with h = H(q) a pure function of the query
                        and missing == (h not in self._cache)
  _run_optimizer(q)  -> a fresh record `con`; ghost: self._ran = True,
                        self._ghost_con = con
The cache is a map fingerprint -> record(score, path, sliced_inds)."""

import z3

from ..pyvc import types as Ty
from ..pyvc.contract import Contract
from ..pyvc.engine import ObjT
from ..pyvc.types import V, Int, Bool, Key

ConT = Ty.Rec("con", {"score": Ty.Real, "path": Ty.Key, "sliced_inds": Ty.Key}, mutable=False)
CacheT = Ty.Map(Ty.Key, ConT)
OptT = ObjT(
    "ReusableOptimizer",
    {"overwrite": Ty.Key, "cache_only": Ty.Bool, "_cache": CacheT, "_ran": Ty.Bool, "_ghost_con": ConT},
)


def _hash_query(engine, st, args, node, kwargs):
    selfref = args[0]
    q = [engine.keyterm(engine.deref(st, a)) for a in args[1:]]
    key = "uf!H"
    if key not in engine.specfns:
        engine.specfns[key] = (z3.Function(key, Ty.IntS, Ty.IntS, Ty.IntS, Ty.IntS), [], Int, None)
    h = engine.specfns[key][0](*q)
    ob = engine.deref(st, selfref)
    cache = engine.deref(st, ob.fields["_cache"])
    return Ty.mk_tuple([V(Key, [h]), V(Bool, [z3.Not(cache.c[0][h])])])


def _run_optimizer(engine, st, args, node, kwargs):
    selfref = args[0]
    con = engine.havoc_t(st, ConT, "run_con", node)
    ob = engine.deref(st, selfref).clone()
    ob.fields["_ran"] = Ty.mk_bool(True)
    ob.fields["_ghost_con"] = con
    st.heap[selfref.id] = ob
    return con


H = "self.hash_query(inputs, output, size_dict)[0]"
MISSING0 = "old(self.hash_query(inputs, output, size_dict)[1])"
OVER0 = "old(self.overwrite)"

maybe_run = Contract(
    target="cotengra.reusable:ReusableOptimizer._maybe_run_optimizer",
    props=["C14"],
    self_type=OptT,
    params={"inputs": Ty.Key, "output": Ty.Key, "size_dict": Ty.Key},
    lets={"H": H},
    externals={"ReusableOptimizer.hash_query": _hash_query, "ReusableOptimizer._run_optimizer": _run_optimizer},
    requires=["not self._ran"],
    raises={"KeyError": "self.cache_only"},
    modifies=["self._cache", "self._ran", "self._ghost_con"],
    ensures=[
        # cache_only never searches
        "implies(self.cache_only, not self._ran)",
        # the returned record is always the one now stored for this fingerprint
        "H in self._cache and result[1] == self._cache[H]",
        # a hit without overwrite: no search, the stored answer is returned unchanged
        f"implies(not {MISSING0} and not {OVER0}, not self._ran and not result[0] and result[1] == old(self._cache[H]))",
        # a miss (not cache_only) searches once and stores what was found
        f"implies({MISSING0}, self._ran and result[1] == self._ghost_con)",
        # overwrite='improved' never makes the stored score worse
        f"implies(not {MISSING0} and {OVER0} == 'improved', self._cache[H]['score'] <= old(self._cache[H]['score']))",
        # 'searched' is reported only if the tree of THIS search is the answer
        "implies(result[0], self._ran and result[1] == self._ghost_con)",
        # frame: no other entry is touched
        "forall(lambda k: implies(k != H, (k in self._cache) == old(k in self._cache)))",
        "forall(lambda k: implies(k != H and k in self._cache, self._cache[k] == old(self._cache[k])))",
        "self.overwrite == old(self.overwrite) and self.cache_only == old(self.cache_only)",
    ],
    assumptions=[
        "hash_query returns (H(query), H(query) not in cache) for a pure fingerprint function H; _run_optimizer returns an arbitrary record",
        "overwrite is modelled by truthiness plus equality with 'improved'",
    ],
)

CONTRACTS = [maybe_run]


def _gen(rng):
    from cotengra.reusable import ReusableOptimizer
    from cotengra.utils import DiskDict

    class Spy(ReusableOptimizer):
        def _run_optimizer(self, inputs, output, size_dict):
            con = {"score": float(rng.randint(0, 5)), "path": ((0, 1),), "sliced_inds": ()}
            self._ran = True
            self._ghost_con = con
            return con

    o = object.__new__(Spy)
    o._suboptimizers = {}
    o._suboptimizer_kwargs = {}
    o._cache = DiskDict(None)
    o.overwrite = rng.choice([False, True, "improved"])
    o._hash_method = rng.choice(["a", "b"])
    o.cache_only = rng.random() < 0.25
    o.directory_split = rng.random() < 0.5
    o._ran = False
    o._ghost_con = None
    pool = [
        ((("a", "b"), ("b", "c")), ("a", "c"), {"a": 2, "b": 3, "c": 4}),
        ((("a", "b"), ("b", "c")), ("c", "a"), {"a": 2, "b": 3, "c": 4}),
        ((("a", "b"), ("b", "c")), ("a", "c"), {"a": 2, "b": 3, "c": 5}),
        ((("a", "b"), ("b", "c"), ("c",)), ("a",), {"a": 2, "b": 3, "c": 4}),
    ]
    for q in rng.sample(pool, rng.randint(0, 3)):
        h, _ = o.hash_query(*q)
        o._cache[h] = {"score": float(rng.randint(0, 5)), "path": ((0, 1),), "sliced_inds": ()}
    q = rng.choice(pool)
    universe = [o.hash_query(*p)[0] for p in pool]
    return {"self": o, "args": q, "universe": universe,
            "describe": f"overwrite={o.overwrite!r} cache_only={o.cache_only} cached={len(o._cache._mem_cache)} query={q}"}


maybe_run.gen = _gen
