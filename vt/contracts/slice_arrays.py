"""C06: ContractionTree.slice_arrays(arrays, i) takes, from every input that carries a
sliced index, exactly the section the slice key says - and hands the other
inputs through untouched.

For the key `locations = self.slice_key(i)` (its content - the mixed-radix
digits of i - is the slice_key contract in core_slicing):
  * the result has one array per input;
  * an input c listed in `sliced_inputs` becomes  arrays[c][sel]  where sel has one
    entry per axis of that input, in axis order: the key's value for the index on
    that axis if the index is sliced, else the full slice (stated relationally: the
    result was taken from arrays[c], with that many selector entries, entry q being
    'whole axis' / the key's value);
  * every other input is the very array that was passed in.
Arrays are opaque values and indexing an array with a selector is an
uninterpreted function of the array and the selector.  That `sliced_inputs` is
exactly the set of inputs carrying a sliced index is the state invariant kept
by remove_ind / restore_ind (checked by the bounded drivers of C02/C06)."""

import z3

from ..pyvc import types as Ty
from ..pyvc.contract import Contract, Loop
from ..pyvc.engine import ObjT
from ..pyvc.types import V, Int, Key

Arr = Key
LocT = Ty.Map(Key, Int)
TreeT = ObjT("ContractionTree", {"sliced_inputs": Ty.Set(Int), "inputs": Ty.List(Ty.List(Key))})


def _f(engine, name, *sorts):
    if name not in engine.specfns:
        engine.specfns[name] = (z3.Function(name, *sorts), [], Int, None)
    return engine.specfns[name][0]


def _fns(engine):
    return (_f(engine, "uf!origin", Ty.IntS, Ty.IntS), _f(engine, "uf!ndim_sel", Ty.IntS, Ty.IntS),
            _f(engine, "uf!selnone", Ty.IntS, Ty.IntS, Ty.BoolS), _f(engine, "uf!selval", Ty.IntS, Ty.IntS, Ty.IntS))


def x_getitem(engine, st, args, node, kw):
    """array[selector]: a value determined by the array and the selector - described by the array it was taken
    from (origin), the number of selector entries and, per entry, 'whole axis' or the position taken"""
    arr, sel = engine.deref(st, args[0]), engine.deref(st, args[1])
    if not (isinstance(sel, V) and isinstance(sel.t, Ty.List) and isinstance(sel.t.e, Ty.Opt)):
        from ..pyvc.engine import Unsupported

        raise Unsupported(f"array indexed by {getattr(sel, 't', sel)}")
    origin, ndim, selnone, selval = _fns(engine)
    r = engine.fresh(st, "section", node, Ty.IntS)
    n, isnone, val = sel.c
    q = z3.Int("gi!q")
    st.assume(z3.And(origin(r) == arr.term, ndim(r) == n))
    st.assume(z3.ForAll([q], z3.Implies(z3.And(0 <= q, q < n), z3.And(selnone(r, q) == isnone[q], z3.Implies(z3.Not(isnone[q]), selval(r, q) == val[q]))),
                        patterns=[selnone(r, q), selval(r, q)]))
    return V(Arr, [r])


def _spec1(i):
    def ext(engine, st, args, node, kw):
        f = _fns(engine)[i]
        ts = [engine.deref(st, a).term for a in args]
        if i == 2:
            return Ty.mk_bool(f(*ts))
        return V(Int if i else Arr, [f(*ts)])

    return ext


def x_slice_key(engine, st, args, node, kw):
    v = Ty.havoc(LocT, f"locations@{engine.line(node)}")
    return engine.alloc(st, v)


def x_slice(engine, st, args, node, kw):
    return Ty.mk_none()  # slice(None): 'the whole axis' is the None of the selector model


slice_arrays = Contract(
    target="cotengra.core:ContractionTree.slice_arrays",
    props=["C06"],
    self_type=TreeT,
    params={"arrays": Ty.List(Arr), "i": Int},
    requires=["len(arrays) == len(self.inputs)", "forall(self.sliced_inputs, lambda c: 0 <= c and c < len(arrays))"],
    returns=Ty.List(Arr),
    externals={"ContractionTree.slice_key": x_slice_key, "slice": x_slice, "getitem": x_getitem,
               "origin": _spec1(0), "ndim_sel": _spec1(1), "selnone": _spec1(2), "selval": _spec1(3)},
    hints={"temp_arrays": Ty.List(Arr), "selector": Ty.List(Ty.Opt(Int)), "locations": LocT},
    nloops=1,
    loops={0: Loop(seen="S", inv=[
        "len(temp_arrays) == len(arrays)",
        "forall(0, len(arrays), lambda c: implies(c in S, (origin(temp_arrays[c]) == arrays[c] and ndim_sel(temp_arrays[c]) == len(self.inputs[c]) and forall(0, len(self.inputs[c]), lambda q: selnone(temp_arrays[c], q) == (not (self.inputs[c][q] in locations)) and implies(self.inputs[c][q] in locations, selval(temp_arrays[c], q) == locations[self.inputs[c][q]])))))",
        "forall(0, len(arrays), lambda c: implies(not (c in S), temp_arrays[c] == arrays[c]))",
    ])},
    ensures=["len(result) == len(arrays)"],
    ensures_t1=[
        "forall(0, len(arrays), lambda c: implies(c in self.sliced_inputs, (origin(result[c]) == arrays[c] and ndim_sel(result[c]) == len(self.inputs[c]) and forall(0, len(self.inputs[c]), lambda q: selnone(result[c], q) == (not (self.inputs[c][q] in locations_final)) and implies(self.inputs[c][q] in locations_final, selval(result[c], q) == locations_final[self.inputs[c][q]])))))",
        "forall(0, len(arrays), lambda c: implies(not (c in self.sliced_inputs), result[c] == arrays[c]))",
    ],
    assumptions=["arrays are opaque values; array[selector] is an uninterpreted function of the array and the selector; slice(None) is modelled as the None entry of a selector;"
                 " self.slice_key(i) returns some key (its content is the slice_key contract)"],
)
slice_arrays.expose = ("locations",)
CONTRACTS = [slice_arrays]


# ------------------------------------------------------------ native side
def _reference(tree, arrays, i):
    """independent formulation: take() along every axis that carries a sliced index, highest axis first"""
    import numpy as np

    key = tree.slice_key(i)
    out = []
    for term, a in zip(tree.inputs, arrays):
        a = np.asarray(a)
        for ax in range(len(term) - 1, -1, -1):
            if term[ax] in key:
                a = np.take(a, key[term[ax]], axis=ax)
        out.append(a)
    return out


def _same(xs, ys):
    import numpy as np

    return len(xs) == len(ys) and all(np.shape(x) == np.shape(y) and np.array_equal(x, y) for x, y in zip(xs, ys))


slice_arrays.natives = {"reference": _reference, "same": _same}
slice_arrays.ensures_rt = ["same(result, reference(self, arrays, i))"]


def _gen(rng):
    import numpy as np
    import cotengra as ctg
    from ..scope import random_tree_ssa

    n = rng.randint(2, 5)
    if n >= 3:
        con = ctg.utils.rand_equation(n, 3, n_out=rng.randint(0, 2), n_hyper_in=rng.randint(0, 1), n_hyper_out=rng.randint(0, 1), seed=rng.randint(0, 10**6))
        inputs, output, sd = con.inputs, con.output, dict(con.size_dict)
    else:
        inputs, output, sd = [("a", "b", "c"), ("c", "b", "d")], ("d", "a"), {"a": 2, "b": 2, "c": 3, "d": 2}
    tree = ctg.ContractionTree.from_path(inputs, output, sd, ssa_path=random_tree_ssa(len(inputs), rng))
    inds = sorted(sd)
    for ix in rng.sample(inds, rng.randint(0, min(3, len(inds)))):
        if rng.random() < 0.3:
            tree.remove_ind_(ix, project=rng.randrange(sd[ix]))
        else:
            tree.remove_ind_(ix)
    nrng = np.random.default_rng(rng.randint(0, 10**6))
    arrays = [nrng.integers(-5, 6, size=[sd[ix] for ix in term]) for term in inputs]
    i = rng.randrange(tree.nslices)
    return {"self": tree, "args": (arrays, i), "describe": f"inputs={inputs} output={output} sizes={sd} sliced={list(tree.sliced_inds)} i={i}"}


slice_arrays.gen = _gen
slice_arrays.pre_must_hold = True
