"""Contract for the slice finder's incremental cost model (C07):
ContractionCosts.remove(ix, inplace=True).

Representation invariant wf(costs) (the same spec as ContractionTree.remove_ind,
so predicted == actual is a lemma over equal initial views):
  A  legs_i <= involved_i <= keys(size_dict)
  B  flops_i == prod of sizes over involved_i ; size_i == prod over legs_i
  C  _where[k] is exactly {i | k in involved_i}
  D  _flops == sum_i flops_i ; _sizes is the multiset of the size_i
After remove(ix): every involved/legs set loses ix, B-D hold again over the
reduced size_dict, nslices is multiplied by the removed dimension."""

from ..pyvc import types as Ty
from ..pyvc.contract import Contract, Loop
from ..pyvc.engine import ObjT
from .utils_maxcounter import MaxCounterT, WF as MC_WF

SetK = Ty.Set(Ty.Key)
ConT = Ty.Tuple([SetK, SetK, Ty.Int, Ty.Int])
DefMap = Ty.Map(Ty.Key, Ty.Int)
DefMap.default = Ty.mk_int(0)
WhereT = Ty.Map(Ty.Key, Ty.Set(Ty.Int))
CostsT = ObjT(
    "ContractionCosts",
    {
        "size_dict": Ty.Map(Ty.Key, Ty.Int), "contractions": Ty.List(ConT), "nslices": Ty.Int, "original_flops": Ty.Int,
        "_flops": Ty.Int, "_sizes": MaxCounterT, "_flop_reductions": DefMap, "_write_reductions": DefMap, "_where": WhereT,
    },
)

SUMFL = "def sumfl(t):\n    return 0 if t <= 0 else sumfl(t - 1) + C[t - 1][3]\n"
CNTS = "def cntS(k, t):\n    return 0 if t <= 0 else cntS(k, t - 1) + (1 if C[t - 1][2] == k else 0)\n"

A = "forall(0, n, lambda i: subset(C[i][1], C[i][0]) and subset(C[i][0], keys(self.size_dict)))"
B = "forall(0, n, lambda i: C[i][3] == prodset(C[i][0], self.size_dict) and C[i][2] == prodset(C[i][1], self.size_dict))"
Cw = ("forall(lambda k: forall(0, n, lambda i: (k in self._where and i in self._where[k]) == (k in C[i][0])))"
      " and forall(keys(self._where), lambda k: forall(self._where[k], lambda j: 0 <= j and j < n))")
E = "forall(keys(self.size_dict), lambda k: self.size_dict[k] >= 1)"
SIZES_WF = MC_WF.replace("self.", "self._sizes.")
D_FLOPS = "self._flops == colsum(self.contractions, 3, len(self.contractions))"
D_SIZES = "forall(lambda k: get(self._sizes._c, k, 0) == colcount(self.contractions, 2, k, len(self.contractions)))"

remove = Contract(
    target="cotengra.slicer:ContractionCosts.remove",
    props=["C07"],
    self_type=CostsT,
    params={"ix": Ty.Key, "inplace": Ty.Bool},
    lets={"C": "self.contractions", "n": "len(self.contractions)"},
    requires=[
        "inplace",
        "ix in self.size_dict and ix in self._where and ix in self._flop_reductions and ix in self._write_reductions",
        A, B, Cw, E, SIZES_WF,
        # D: the tracked totals are the sum / the multiset over the contractions
        D_FLOPS, D_SIZES,
    ],
    modifies=["self"],
    ensures=[
        "n == old(n)",
        # abstract effect: the index disappears from every contraction
        "forall(0, n, lambda i: C[i][0] == without_key(old(C)[i][0], ix) and C[i][1] == without_key(old(C)[i][1], ix))",
        "keys(self.size_dict) == without_key(old(keys(self.size_dict)), ix)",
        "forall(keys(self.size_dict), lambda k: self.size_dict[k] == old(self.size_dict[k]))",
        "self.nslices == old(self.nslices) * old(self.size_dict[ix])",
        # the incremental figures equal the from-scratch definition over the reduced sets
        A, B,
        # D again: predicted flops and the multiset of predicted sizes are those of the updated contractions
        D_FLOPS, D_SIZES,
    ],
    ensures_rt=[
        # D (sum / multiset over an unordered visit: checked by the run-time monitor only)
        "self._flops == sum(c[3] for c in self.contractions)",
        "sorted(self._sizes._c.elements()) == sorted(c[2] for c in self.contractions)",
        "all(self._where[k] == {i for i, c in enumerate(self.contractions) if k in c[0]} for k in self._where)",
    ],
    nloops=3,
    loops={
        0: Loop(
            seen="done",
            inv=[
                "len(cost.contractions) == old(n)",
                "ix in cost._flop_reductions and ix in cost._write_reductions",
                # processed contractions are updated, the others untouched
                "forall(0, old(n), lambda i: implies(i in done, cost.contractions[i][0] == without_key(old(C)[i][0], ix) and cost.contractions[i][1] == without_key(old(C)[i][1], ix)))",
                "forall(0, old(n), lambda i: implies(i in done, cost.contractions[i][3] == prodset(cost.contractions[i][0], self.size_dict) and cost.contractions[i][2] == prodset(cost.contractions[i][1], self.size_dict)))",
                "forall(0, old(n), lambda i: implies(not (i in done), cost.contractions[i] == old(C)[i]))",
                "keys(cost.size_dict) == old(keys(self.size_dict)) and forall(keys(cost.size_dict), lambda k: cost.size_dict[k] == old(self.size_dict[k]))",
                "cost.nslices == old(self.nslices) * d and d == old(self.size_dict[ix]) and d >= 1",
                SIZES_WF.replace("self.", "cost."),
                D_FLOPS.replace("self.", "cost."), D_SIZES.replace("self.", "cost."),
            ],
        ),
        1: Loop(seen="s1", inv=["ix in cost._flop_reductions and ix in cost._write_reductions"]),
        2: Loop(seen="s2", inv=["ix in cost._flop_reductions and ix in cost._write_reductions"]),
    },
    assumptions=["inplace=True path (the copy is covered by the copy-completeness clause and the bounded monitor)",
                 "contraction tuples hold their index sets by value (aliasing of the sets between copies is not modelled)"],
)

CONTRACTS = [remove]
remove.local_theories = ("colsum!",)  # solver strategy only: the totals' facts are needed by the totals' goals alone


def _gen(rng):
    import cotengra as ctg
    from cotengra.slicer import ContractionCosts
    from ..scope import random_tree_ssa

    n = rng.randint(2, 5)
    con = ctg.utils.rand_equation(n, 3, n_out=rng.randint(0, 2), n_hyper_in=(rng.randint(0, 1) if n >= 3 else 0), seed=rng.randint(0, 10**6), d_min=2, d_max=4)
    tree = ctg.ContractionTree.from_path(con.inputs, con.output, con.size_dict, ssa_path=random_tree_ssa(n, rng))
    tree.contract_stats()
    costs = ContractionCosts.from_contraction_tree(tree)
    cands = [ix for ix in costs.size_dict if ix in costs._where]
    if not cands:
        return None
    ix = rng.choice(cands)
    costs._flop_reductions[ix]
    costs._write_reductions[ix]
    return {"self": costs, "args": (ix, True), "universe": list(con.size_dict), "describe": f"{con.inputs}->{con.output} sizes {con.size_dict} path {tree.get_path()} ix={ix}"}


remove.gen = _gen


# ------------------------------------------------------------------ __init__
# establishes the invariant that remove() preserves: C (where), D (totals)
import z3 as _z3  # noqa: E402
from ..pyvc.types import V as _V, V  # noqa: E402
from .core_stats import _new_maxcounter  # noqa: E402

WhereT.default = _V(Ty.Set(Ty.Int), [_z3.K(Ty.IntS, _z3.BoolVal(False))])


def _defaultdict(engine, st, _args, node, kw):
    """collections.defaultdict(lambda: 0) / collections.defaultdict(set): an empty map with that default"""
    import ast

    a = node.args[0]
    if isinstance(a, ast.Lambda):
        t = DefMap
        v = _V(t, [_z3.K(Ty.IntS, _z3.BoolVal(False)), _z3.K(Ty.IntS, _z3.IntVal(0))])
    elif isinstance(a, ast.Name) and a.id == "set":
        t = WhereT
        v = _V(t, [_z3.K(Ty.IntS, _z3.BoolVal(False)), _z3.K(Ty.IntS, _z3.K(Ty.IntS, _z3.BoolVal(False)))])
    else:
        from ..pyvc.engine import Unsupported

        raise Unsupported("defaultdict of another factory")
    return engine.alloc(st, v)


_defaultdict.raw = True

WHERE_T = ("forall(lambda k: forall(0, len(self.contractions), lambda i: (k in self._where and i in self._where[k]) == ({cond})))"
           " and forall(keys(self._where), lambda k: forall(self._where[k], lambda j: 0 <= j and j < len(self.contractions)))")
init = Contract(
    target="cotengra.slicer:ContractionCosts.__init__",
    props=["C07"],
    self_type=CostsT,
    params={"contractions": Ty.List(ConT), "size_dict": Ty.Map(Ty.Key, Ty.Int), "nslices": Ty.Int, "original_flops": Ty.NoneT},
    requires=[
        "forall(0, len(contractions), lambda i: subset(contractions[i][0], keys(size_dict)))",
        "forall(keys(size_dict), lambda k: size_dict[k] >= 1)",
    ],
    externals={"collections.defaultdict": _defaultdict, "MaxCounter": _new_maxcounter},
    modifies=["self"],
    nloops=2,
    loops={
        0: Loop(
            pos="t",
            inv=[
                "self._flops == colsum(self.contractions, 3, t)",
                "forall(lambda k: get(self._sizes._c, k, 0) == colcount(self.contractions, 2, k, t))",
                SIZES_WF,
                WHERE_T.format(cond="i < t and k in self.contractions[i][0]"),
            ],
        ),
        1: Loop(
            seen="S",
            inv=[WHERE_T.format(cond="(i < t and k in self.contractions[i][0]) or (i == t and k in S)")],
        ),
    },
    ensures=[
        "len(self.contractions) == len(contractions) and forall(0, len(contractions), lambda i: self.contractions[i] == contractions[i])",
        "keys(self.size_dict) == keys(size_dict) and forall(keys(size_dict), lambda k: self.size_dict[k] == size_dict[k])",
        "self.nslices == nslices and self.original_flops == self._flops",
        # the invariant remove() relies on
        D_FLOPS, D_SIZES, SIZES_WF,
        WHERE_T.format(cond="k in self.contractions[i][0]"),
    ],
    assumptions=["collections.defaultdict(f): a dict whose missing keys read as f() (and are inserted by that read); original_flops=None variant"],
)
CONTRACTS.append(init)


def _gen_init(rng):
    import cotengra as ctg
    from cotengra.slicer import ContractionCosts
    from ..scope import random_tree_ssa

    n = rng.randint(2, 5)
    con = ctg.utils.rand_equation(n, 3, n_out=rng.randint(0, 2), n_hyper_in=(rng.randint(0, 1) if n >= 3 else 0), seed=rng.randint(0, 10**6), d_min=2, d_max=4)
    tree = ctg.ContractionTree.from_path(con.inputs, con.output, con.size_dict, ssa_path=random_tree_ssa(n, rng))
    src = ContractionCosts.from_contraction_tree(tree)
    obj = object.__new__(ContractionCosts)
    return {"self": obj, "args": (list(src.contractions), dict(src.size_dict), rng.randint(1, 3), None), "universe": list(con.size_dict) + list(range(-1, 400)),
            "describe": f"{con.inputs}->{con.output} sizes {con.size_dict} path {tree.get_path()}"}


init.gen = _gen_init


# ------------------------------------------------------------- SliceFinder.best
# C07 'targets are honoured': whatever best() returns is one of the cached slicings and satisfies every
# target that is in force (an explicit argument, else the finder's default).
import ast as _ast  # noqa: E402
from ..pyvc.engine import Unsupported as _Unsupported, NeedSplit as _NeedSplit, RaiseSignal as _RaiseSignal, PyConst as _PyConst  # noqa: E402

CostRec = Ty.Rec("ContractionCosts", {"size": Ty.Int, "overhead": Ty.Real, "nslices": Ty.Int, "total_flops": Ty.Int}, mutable=False)
FinderT = ObjT("SliceFinder", {"costs": Ty.Map(Ty.Key, CostRec), "target_size": Ty.Opt(Ty.Int), "target_overhead": Ty.Opt(Ty.Real), "target_slices": Ty.Opt(Ty.Int)})
ItemT = Ty.Tuple([Ty.Key, CostRec])


def x_maybe_default(engine, st, args, node, kw):
    """self._maybe_default(attr, value): value, or the finder's attribute of that name when value is None"""
    selfv = engine.deref(st, args[0])
    attr = args[1].val
    val = args[2]
    dflt = selfv.fields[attr]
    if isinstance(val, V) and isinstance(val.t, Ty.Opt):
        return Ty.ite(val.c[0], dflt, val)
    if isinstance(val, V) and isinstance(val.t, Ty._None):
        return dflt
    return engine.coerce(val, dflt.t)


def x_filter_items(engine, st, _a, node, kw):
    pred, seq = node.args
    if not isinstance(pred, _ast.Lambda):
        raise _Unsupported("filter() with another predicate")
    return _PyConst(("filtered-items", pred, seq))


x_filter_items.raw = True


def x_min_valid(engine, st, _a, node, kw):
    """min(<filtered items>, key=...): some item satisfying the filter (ValueError if there is none)"""
    src = engine.eval(st, node.args[0])
    if not (isinstance(src, _PyConst) and isinstance(src.val, tuple) and src.val[0] == "filtered-items"):
        raise _Unsupported("min() of something else")
    _tag, pred, seq = src.val
    cont = engine.deref(st, engine.eval(st, seq.func.value))  # self.costs
    none = engine.fresh(st, "no_valid_slicing", node, Ty.BoolS)
    d = st.decided(none)
    if d is None:
        raise _NeedSplit(none)
    if d:
        raise _RaiseSignal("ValueError")
    k = engine.fresh(st, "chosen", node, Ty.IntS)
    st.assume(cont.c[0][k])
    item = Ty.mk_tuple([V(Ty.Key, [k]), engine.mapval(cont, k)])
    old = dict(engine.bound)
    engine.bound[pred.args.args[0].arg] = item
    try:
        st.assume(engine.truth(st, engine.eval(st, pred.body)))
    finally:
        engine.bound = old
    return item


x_min_valid.raw = True

TS = "(target_size if target_size is not None else self.target_size)"
TO = "(target_overhead if target_overhead is not None else self.target_overhead)"
TN = "(target_slices if target_slices is not None else self.target_slices)"
best = Contract(
    target="cotengra.slicer:SliceFinder.best",
    props=["C07"],
    self_type=FinderT,
    params={"k": Ty.NoneT, "target_size": Ty.Opt(Ty.Int), "target_overhead": Ty.Opt(Ty.Real), "target_slices": Ty.Opt(Ty.Int)},
    returns=ItemT,
    externals={"SliceFinder._maybe_default": x_maybe_default, "filter": x_filter_items, "min": x_min_valid},
    defaults={"k": "None"},
    raises={"ValueError": "True"},
    ensures=[
        "result[0] in self.costs and result[1] == self.costs[result[0]]",
        f"implies({TS} is not None, result[1].size <= unopt({TS}))",
        f"implies({TO} is not None, result[1].overhead <= unopt({TO}))",
        f"implies({TN} is not None, result[1].nslices >= unopt({TN}))",
    ],
    assumptions=["min(iterable, key=f) returns an element of the iterable (ValueError if it is empty); filter keeps exactly the elements satisfying the predicate;"
                 " a cached slicing is represented by the figures best() looks at"],
)
CONTRACTS.append(best)


def _gen_best(rng):
    import cotengra as ctg
    from cotengra.slicer import SliceFinder
    from ..scope import random_tree_ssa

    n = rng.randint(3, 6)
    con = ctg.utils.rand_equation(n, 3, n_out=rng.randint(0, 2), seed=rng.randint(0, 10**6), d_min=2, d_max=4)
    tree = ctg.ContractionTree.from_path(con.inputs, con.output, con.size_dict, ssa_path=random_tree_ssa(n, rng))
    size0 = tree.max_size()
    sf = SliceFinder(tree, target_size=max(1, size0 // rng.choice((2, 4, 8))), seed=rng.randint(0, 99))
    for _ in range(rng.randint(1, 4)):
        try:
            sf.trial()
        except RuntimeError:
            pass
    args = (None, rng.choice((None, max(1, size0 // 2), size0 * 2)), rng.choice((None, 1.5, 100.0)), rng.choice((None, 1, 2, 4)))
    return {"self": sf, "args": args, "describe": f"{con.inputs}->{con.output} sizes {con.size_dict} path {tree.get_path()} cached={len(sf.costs)} best{args}"}


best.gen = _gen_best



# ----------------------------------------------------------- SliceFinder.search
def x_trial(engine, st, args, node, kw):
    """self.trial(...): explores and caches more slicings - the cache may grow or change arbitrarily"""
    selfref = args[0]
    ob = engine.deref(st, selfref)
    cref = ob.fields["costs"]
    cur = engine.deref(st, cref)
    st.heap[cref.id] = Ty.havoc(cur.t, f"costs@{engine.line(node)}")
    return Ty.mk_none()


search = Contract(
    target="cotengra.slicer:SliceFinder.search",
    props=["C07"],
    self_type=FinderT,
    params={"max_repeats": Ty.Int, "temperature": Ty.NoneT, "target_size": Ty.Opt(Ty.Int), "target_overhead": Ty.Opt(Ty.Real), "target_slices": Ty.Opt(Ty.Int)},
    returns=ItemT,
    externals={"SliceFinder.trial": x_trial},
    modifies=["self.costs"],
    raises={"ValueError": "True"},
    nloops=1,
    loops={0: Loop(pos="t", inv=[])},
    ensures=list(best.ensures),
    assumptions=["trial() only changes the cache of slicings (whatever it caches is covered by the ContractionCosts contracts); RuntimeError from trial() propagates (not modelled)"],
)
CONTRACTS.append(search)


def _gen_search(rng):
    case = _gen_best(rng)
    a = case["args"]
    return {"self": case["self"], "args": (rng.randint(0, 3), None, a[1], a[2], a[3]), "describe": case["describe"].replace(" best", " search")}


search.gen = _gen_search
search.raises["RuntimeError"] = "True"


# ------------------------------------------------------------- SliceFinder.trial
# C07 'forbidden indices are never chosen' and 'what is cached under a set of indices IS the slicing by that set':
# trial() only ever adds cache entries whose key is disjoint from `forbidden`, and every entry's remaining
# size_dict is the base one minus exactly the indices of its key.  best() (proved above) then only returns
# cached entries.  The figures of an entry (size, overhead, nslices) are those of ContractionCosts.remove,
# whose contract is proved above; here remove is the assumed step "the index leaves size_dict".
TrialCost = Ty.Rec("ContractionCosts", {"size": Ty.Int, "overhead": Ty.Real, "nslices": Ty.Int, "size_dict": Ty.Map(Ty.Key, Ty.Int)}, mutable=False)
TrialFinderT = ObjT("SliceFinder", {"costs": Ty.Map(Ty.Key, TrialCost), "forbidden": SetK, "target_size": Ty.Opt(Ty.Int), "target_overhead": Ty.Opt(Ty.Real),
                                    "target_slices": Ty.Opt(Ty.Int), "temperature": Ty.Opt(Ty.Real)})


def x_max_key(engine, st, _a, node, kw):
    """max(d, key=...): some key of d (ValueError if d is empty)"""
    import z3

    d = engine.deref(st, engine.eval(st, node.args[0]))
    if not (isinstance(d, V) and isinstance(d.t, Ty.Map)):
        raise _Unsupported("max() of something else")
    empty = d.c[0] == z3.K(Ty.IntS, z3.BoolVal(False))
    dd = st.decided(empty)
    if dd is None:
        raise _NeedSplit(empty)
    if dd:
        raise _RaiseSignal("ValueError")
    k = engine.fresh(st, "chosen_ix", node, Ty.IntS)
    st.assume(d.c[0][k])
    return V(Ty.Key, [k])


x_max_key.raw = True


def x_cost_remove(engine, st, args, node, kw):
    """cost.remove(ix) (not in place): a new costs object whose size_dict has lost exactly ix (ContractionCosts.remove)"""
    import z3

    cost, ix = engine.deref(st, args[0]), engine.keyterm(engine.deref(st, args[1]))
    names = list(TrialCost.fields)
    new = Ty.havoc(TrialCost, f"removed@{engine.line(node)}")
    sd_new = Ty.split(TrialCost, new.c)[names.index("size_dict")]
    sd_old = Ty.split(TrialCost, cost.c)[names.index("size_dict")]
    st.assume(sd_new.c[0] == z3.Store(sd_old.c[0], ix, False))
    return new


BASE = "keys(self.costs[frozenset()].size_dict)"
CACHE_OK = f"forall(keys(self.costs), lambda k: keys(self.costs[k].size_dict) == minus({BASE}, members(k)))"
NOFORB = "forall(keys(self.costs), lambda k: inter(members(k), self.forbidden) == empty())"

trial = Contract(
    target="cotengra.slicer:SliceFinder.trial",
    props=["C07"],
    self_type=TrialFinderT,
    params={"target_size": Ty.Opt(Ty.Int), "target_overhead": Ty.Opt(Ty.Real), "target_slices": Ty.Opt(Ty.Int), "temperature": Ty.Opt(Ty.Real)},
    requires=["frozenset() in self.costs", CACHE_OK, NOFORB],
    returns=TrialCost,
    modifies=["self.costs"],
    raises={"RuntimeError": "True", "ValueError": "True"},
    externals={"SliceFinder._maybe_default": x_maybe_default, "max": x_max_key, "*.remove": x_cost_remove},
    hints={"ix_sl": SetK, "next_ix_sl": SetK, "cost": TrialCost, "next_cost": TrialCost, "ix": Ty.Key},
    nloops=1,
    loops={0: Loop(inv=[
        "frozenset() in self.costs", CACHE_OK, NOFORB,
        "ix_sl in self.costs and cost == self.costs[ix_sl]",
        "inter(ix_sl, self.forbidden) == empty()",
        f"{BASE} == old({BASE})",
        # entries are only ever added
        "forall(keys(old(self.costs)), lambda k: k in self.costs and self.costs[k] == old(self.costs)[k])",
    ])},
    ensures=[
        "frozenset() in self.costs", CACHE_OK, NOFORB,
        "forall(keys(old(self.costs)), lambda k: k in self.costs and self.costs[k].size == old(self.costs)[k].size and self.costs[k].nslices == old(self.costs)[k].nslices)",
    ],
    # entries are only ever added; what is handed back is a cached slicing: the one cached under the set of indices chosen (never a forbidden one)
    ensures_t1=["forall(keys(old(self.costs)), lambda k: k in self.costs and self.costs[k] == old(self.costs)[k])",
                "ix_sl_final in self.costs and self.costs[ix_sl_final] == result and inter(ix_sl_final, self.forbidden) == empty()"],
    assumptions=["max(d, key=f) returns a key of d (ValueError if d is empty); cost.remove(ix) returns a costs object whose size_dict has lost exactly ix (the ContractionCosts.remove contract);"
                 " a frozenset used as a dict key stands for its members (injective key function)"],
)
trial.expose = ("ix_sl",)
trial.budget_ms = 8000  # every obligation needs < 1 s on the pinned tree
CONTRACTS.append(trial)


def _members(k):
    return frozenset(k)


def _inter(a, b):
    return frozenset(a) & frozenset(b)


def _gen_trial(rng):
    import cotengra as ctg
    from cotengra.slicer import SliceFinder
    from ..scope import random_tree_ssa

    n = rng.randint(3, 6)
    con = ctg.utils.rand_equation(n, 3, n_out=rng.randint(0, 2), seed=rng.randint(0, 10**6), d_min=2, d_max=4)
    tree = ctg.ContractionTree.from_path(con.inputs, con.output, con.size_dict, ssa_path=random_tree_ssa(n, rng))
    size0 = tree.max_size()
    kind = rng.random()
    if kind < 0.5:
        opts = {"target_size": max(1, size0 // rng.choice((2, 4, 8)))}
    elif kind < 0.75:
        opts = {"target_slices": rng.choice((2, 4, 8))}
    else:
        opts = {"target_overhead": rng.choice((1.0, 1.5, 4.0))}
    sf = SliceFinder(tree, allow_outer=rng.random() < 0.5, seed=rng.randint(0, 99), **opts)
    for _ in range(rng.randint(0, 3)):
        try:
            sf.trial()
        except (RuntimeError, ValueError):
            pass
    return {"self": sf, "args": (None, None, None, rng.choice((None, 0.01, 1.0))),
            "describe": f"{con.inputs}->{con.output} sizes {con.size_dict} path {tree.get_path()} {opts} forbidden={sorted(sf.forbidden)} cached={len(sf.costs)}"}


trial.gen = _gen_trial
trial.pre_must_hold = True  # the cache invariants must hold on finders built and used through the public API
trial.natives = {"members": _members, "inter": _inter}
trial.ensures_rt = ["any(c is result for c in self.costs.values())"]
