"""Syntactic (AST / call-graph) obligations: the frame and effect clauses of
the contracts (DESIGN C02/C04 copy completeness, C13 key + purity, C16 thread
confinement, C17 seed threading).  Decided on the working tree every run."""

from ..pyvc import frame as F


class Syn:
    def __init__(self, target, props, check, what):
        self.target, self.props, self.check, self.what = target, props, check, what


SEEDED = [
    # (target, class for self-calls)
    "cotengra.core:ContractionTree.get_subtree",
    "cotengra.core:ContractionTree.unslice_rand",
    "cotengra.core:ContractionTree.subtree_reconfigure",
    "cotengra.core:ContractionTree.subtree_reconfigure_forest",
    "cotengra.core:ContractionTree.slice",
    "cotengra.core:PartitionTreeBuilder.build_divide",
    "cotengra.core:PartitionTreeBuilder.build_agglom",
    "cotengra.core:jitter_dict",
    "cotengra.slicer:SliceFinder.__init__",
    "cotengra.pathfinders.path_simulated_annealing:simulated_anneal_tree",
    "cotengra.pathfinders.path_simulated_annealing:parallel_temper_tree",
    "cotengra.pathfinders.path_simulated_annealing:_slice_tree_basic",
    "cotengra.pathfinders.path_simulated_annealing:_slice_tree_reslice",
    "cotengra.pathfinders.path_simulated_annealing:_slice_tree_drift",
    "cotengra.pathfinders.path_basic:optimize_random_greedy_track_flops",
    "cotengra.pathfinders.path_basic:RandomGreedyOptimizer.__init__",
    "cotengra.pathfinders.path_basic:RandomGreedyOptimizer.ssa_path",
    "cotengra.pathfinders.path_labels:labels_partition",
    "cotengra.pathfinders.path_kahypar:kahypar_subgraph_find_membership",
    "cotengra.pathfinders.path_random:RandomOptimizer.__init__",
    "cotengra.utils:rand_equation",
    "cotengra.utils:tree_equation",
    "cotengra.utils:perverse_equation",
    "cotengra.utils:lattice_equation",
    "cotengra.utils:make_rand_size_dict_from_inputs",
    "cotengra.utils:GumbelBatchedGenerator.__init__",
]

PURE = [
    "cotengra.contract:_sanitize_equation",
    "cotengra.contract:_parse_einsum_single",
    "cotengra.contract:_parse_eq_to_batch_matmul",
    "cotengra.contract:_parse_eq_to_pure_multiplication",
    "cotengra.contract:_parse_tensordot_axes_to_matmul",
    "cotengra.utils:parse_equation_ellipses",
    "cotengra.utils:get_symbol",
    "cotengra.pathfinders.path_basic:parse_minimize_for_optimal",
    "cotengra.interface:can_hash_optimize",
]

SYNTACTIC = []
for t in SEEDED:
    SYNTACTIC.append(Syn(t, ["C17"], (lambda t=t: F.seed_threading(t)), "seed threading / no global RNG"))
for t in PURE:
    props = ["C13"] + (["C11"] if t.startswith("cotengra.contract:") else []) + (["C12"] if t in ("cotengra.utils:parse_equation_ellipses", "cotengra.utils:get_symbol") else [])
    SYNTACTIC.append(Syn(t, props, (lambda t=t: F.purity(t)), "purity of an lru_cache'd function"))
SYNTACTIC += [
    Syn("cotengra.interface:hash_contraction", ["C13"], lambda: F.key_covers_parameters("cotengra.interface:hash_contraction"),
        "cache key injective in every component"),
    Syn("cotengra.interface:array_contract_path", ["C13"], lambda: F.same_call_in_branches("cotengra.interface:array_contract_path", "find_path"),
        "cached == uncached computation"),
    Syn("cotengra.interface:array_contract_expression", ["C13"], lambda: F.same_call_in_branches("cotengra.interface:array_contract_expression", "_build_expression"),
        "cached == uncached computation"),
    Syn("cotengra.core:ContractionTree.set_state_from", ["C02", "C04"], lambda: F.copy_completeness("cotengra.core:ContractionTree"),
        "copy transfers every attribute and does not alias mutable state"),
    Syn("cotengra.slicer:ContractionCosts._set_state_from", ["C07"], lambda: F.copy_completeness("cotengra.slicer:ContractionCosts", copier="_set_state_from"),
        "copy transfers every attribute and does not alias mutable state"),
    Syn("cotengra.pathfinders.path_basic:ContractionProcessor", ["C18"], lambda: F.single_leg_rule("cotengra.pathfinders.path_basic:ContractionProcessor"),
        "one leg rule: every node the lightweight processor creates by contract_nodes gets its legs from compute_contracted (whose contract is proved)"),
    Syn("cotengra.slicer:ContractionCosts.from_contraction_tree", ["C07"], lambda: F.kwargs_forwarded("cotengra.slicer:ContractionCosts.from_contraction_tree"),
        "the cost model built from a tree gets exactly the caller's options: with no explicit original_flops the constructor's proved default (the flops of the given per-slice contractions) is the baseline of `overhead`"),
    Syn("cotengra.reusable:ReusableOptimizer._run_optimizer", ["C16"], lambda: F.keyed_by_thread("cotengra.reusable:ReusableOptimizer._run_optimizer", "_suboptimizers"),
        "per-thread sub-optimizer slot"),
    Syn("cotengra.reusable:ReusableOptimizer.last_opt", ["C16"], lambda: F.keyed_by_thread("cotengra.reusable:ReusableOptimizer.last_opt", "_suboptimizers"),
        "per-thread sub-optimizer slot"),
    Syn("cotengra.presets:AutoOptimizer._get_optimizer_hyper_threadsafe", ["C16"],
        lambda: F.keyed_by_thread("cotengra.presets:AutoOptimizer._get_optimizer_hyper_threadsafe", "_hyperoptimizers_by_thread"),
        "per-thread hyper-optimizer slot"),
]

CONTRACTS = []
