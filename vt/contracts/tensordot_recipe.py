"""C01 ('in the declared axis order') / C11: the per-node tensordot recipe.

ContractionTree.get_tensordot_axes(node) -> (l_axes, r_axes): exactly the
positions of the shared indices, paired, in order of appearance on the left.
ContractionTree.get_tensordot_perm(node) -> None or the permutation that brings
the tensordot output (free indices of the left, then of the right operand, in
order) into the node's declared order get_inds(node).

Strings are lists of code points.  Assumed (stdlib) contracts: str.find returns
the first position or -1; sorted(s, key=f) is a stable rearrangement of s that
is ordered by f; ''.join of single characters is the identity on this model."""

import ast

import z3

from ..pyvc import types as Ty
from ..pyvc.contract import Contract, Loop
from ..pyvc.engine import ObjT, Unsupported
from ..pyvc.types import V, Int, Key
from .einsum_eq import StrT, _inds, x_get_inds

TreeT = ObjT("ContractionTree", {"children": Ty.Map(Key, Ty.Tuple([Key, Key]))})


def _find_fn(engine, st, s, tag):
    """first-position function of string s (a list of code points)"""
    n, a = s.c
    f = z3.Function(f"find!{tag}!{engine.new_id()}", Ty.IntS, Ty.IntS)
    c, j = z3.Ints("fd!c fd!j")
    if not (z3.is_const(a) or (z3.is_app(a) and a.decl().kind() == z3.Z3_OP_UNINTERPRETED)):
        # a computed string (concatenation): name it, so that its characters can key the instantiations
        nm = z3.Const(f"str!{tag}!{engine.new_id()}", a.sort())
        st.assume(z3.ForAll([j], nm[j] == z3.simplify(a[j])))
        a = nm
    st.assume(z3.ForAll([c], z3.Or(
        z3.And(f(c) == -1, z3.ForAll([j], z3.Implies(z3.And(0 <= j, j < n), a[j] != c))),
        z3.And(0 <= f(c), f(c) < n, a[f(c)] == c, z3.ForAll([j], z3.Implies(z3.And(0 <= j, j < f(c)), a[j] != c)))), patterns=[f(c)]))
    # every character that occurs is found (instantiation on a[j])
    st.assume(z3.ForAll([j], z3.Implies(z3.And(0 <= j, j < n), z3.And(0 <= f(a[j]), f(a[j]) <= j)), patterns=[a[j]]))
    return f


def x_find(engine, st, args, node, kw):
    s = engine.deref(st, args[0])
    if not (isinstance(s, V) and isinstance(s.t, Ty.List)):
        raise Unsupported("find on a non-string")
    key = ("findfn", s.c[0].get_id(), s.c[1].get_id())
    cache = engine.__dict__.setdefault("_findfns", {})
    if key not in cache:
        cache[key] = _find_fn(engine, st, s, engine.line(node))
    return V(Int, [cache[key](engine.keyterm(engine.deref(st, args[1])))])


def x_map(engine, st, _args, node, kw):
    """map(self.get_inds, <tuple>) and map(<str>.find, <str>)"""
    f, seq = node.args
    if isinstance(f, ast.Attribute) and f.attr == "get_inds":
        sv = engine.deref(st, engine.eval(st, seq))
        if isinstance(sv, V) and isinstance(sv.t, Ty.Tuple):
            return Ty.mk_tuple([_inds(engine, st, engine.keyterm(p)) for p in Ty.split(sv.t, sv.c)])
        raise Unsupported("map(get_inds) over a non-tuple")
    if isinstance(f, ast.Attribute) and f.attr == "find":
        s = engine.deref(st, engine.eval(st, f.value))
        xs = engine.deref(st, engine.eval(st, seq))
        key = ("findfn", s.c[0].get_id(), s.c[1].get_id())
        cache = engine.__dict__.setdefault("_findfns", {})
        if key not in cache:
            cache[key] = _find_fn(engine, st, s, engine.line(node))
        q = z3.Int(f"mp!{node.lineno}.{node.col_offset}")
        return engine.alloc(st, V(Ty.List(Int), [xs.c[0], z3.Lambda([q], cache[key](xs.c[1][q]))]))
    raise Unsupported("map() of this function")


x_map.raw = True


def x_sorted(engine, st, _args, node, kw):
    """sorted(s, key=<str>.find): a rearrangement of s ordered by the key (assumed contract of sorted)"""
    if len(node.args) != 1 or len(node.keywords) != 1 or node.keywords[0].arg != "key":
        raise Unsupported("sorted() in another form")
    kf = node.keywords[0].value
    if not (isinstance(kf, ast.Attribute) and kf.attr == "find"):
        raise Unsupported("sorted() with another key")
    ks = engine.deref(st, engine.eval(st, kf.value))
    key = ("findfn", ks.c[0].get_id(), ks.c[1].get_id())
    cache = engine.__dict__.setdefault("_findfns", {})
    if key not in cache:
        cache[key] = _find_fn(engine, st, ks, engine.line(node))
    kfn = cache[key]
    src = engine.deref(st, engine.eval(st, node.args[0]))
    n, a = src.c
    out = Ty.havoc(StrT, f"sorted@{engine.line(node)}")
    m, b = out.c
    fwd = z3.Function(f"srt!fwd!{engine.new_id()}", Ty.IntS, Ty.IntS)  # position in the source of output position q
    bwd = z3.Function(f"srt!bwd!{engine.new_id()}", Ty.IntS, Ty.IntS)  # position in the output of source position p
    p, q = z3.Ints("srt!p srt!q")
    st.assume(m == n)
    st.assume(z3.ForAll([q], z3.Implies(z3.And(0 <= q, q < n), z3.And(0 <= fwd(q), fwd(q) < n, bwd(fwd(q)) == q, b[q] == a[fwd(q)])), patterns=[b[q]]))
    st.assume(z3.ForAll([p], z3.Implies(z3.And(0 <= p, p < n), z3.And(0 <= bwd(p), bwd(p) < n, fwd(bwd(p)) == p, b[bwd(p)] == a[p])), patterns=[a[p]]))
    st.assume(z3.ForAll([p, q], z3.Implies(z3.And(0 <= p, p < q, q < n), kfn(b[p]) <= kfn(b[q]))))
    return engine.alloc(st, out)


x_sorted.raw = True


def x_join(engine, st, args, node, kw):
    # ''.join(<list of single characters>)
    return engine.alloc(st, engine.deref(st, args[-1]))


L, R, P = "self.get_inds(self.children[node][0])", "self.get_inds(self.children[node][1])", "self.get_inds(node)"
DISTINCT = "forall(0, len({s}), lambda p: forall(0, len({s}), lambda q: implies(p < q, {s}[p] != {s}[q])))"

axes = Contract(
    target="cotengra.core:ContractionTree.get_tensordot_axes",
    props=["C01", "C11"],
    self_type=TreeT,
    params={"node": Key},
    lets={"L": L, "R": R},
    requires=["node in self.children"],
    returns=Ty.Tuple([Ty.List(Int), Ty.List(Int)]),
    externals={"ContractionTree.get_inds": x_get_inds, "map": x_map, "*.find": x_find},
    nloops=1,
    loops={
        0: Loop(
            pos="t",
            inv=[
                "len(l_axes) == len(r_axes) and len(l_axes) <= t",
                "forall(0, len(l_axes), lambda k: 0 <= l_axes[k] and l_axes[k] < t and 0 <= r_axes[k] and r_axes[k] < len(R) and L[l_axes[k]] == R[r_axes[k]])",
                "forall(0, len(l_axes), lambda k: forall(0, len(l_axes), lambda m: implies(k < m, l_axes[k] < l_axes[m])))",
                # completeness: ghost slot[p] = where position p of the left operand was recorded
                "forall(keys(slot), lambda p: 0 <= slot[p] and slot[p] < len(l_axes) and l_axes[slot[p]] == p)",
                "forall(0, t, lambda p: (p in slot) == exists(0, len(R), lambda j: R[j] == L[p]))",
            ],
            ghosts={
                "slot": (
                    "mapof(lambda p: False, lambda p: 0)",
                    "mapof(lambda p: (p in prev(slot)) or (p == t - 1 and len(l_axes) > prev(len(l_axes))), lambda p: prev(len(l_axes)) if p == t - 1 else prev(slot)[p])",
                )
            },
        )
    },
    hints={"l_axes": Ty.List(Int), "r_axes": Ty.List(Int)},
    ensures=[
        "len(result[0]) == len(result[1])",
        # paired positions carry the same index
        "forall(0, len(result[0]), lambda k: 0 <= result[0][k] and result[0][k] < len(L) and 0 <= result[1][k] and result[1][k] < len(R) and L[result[0][k]] == R[result[1][k]])",
        # (no left position is paired twice; the order of the pairs is immaterial to tensordot)
        "forall(0, len(result[0]), lambda k: forall(0, len(result[0]), lambda m: implies(k < m, result[0][k] != result[0][m])))",
        # every shared index of the left operand is paired
        "forall(0, len(L), lambda p: implies(exists(0, len(R), lambda j: R[j] == L[p]), exists(0, len(result[0]), lambda k: result[0][k] == p)))",
    ],
    assumptions=["get_inds(node) is one fixed string per node; str.find returns the first position or -1"],
)

LR = "(L + R)"
perm = Contract(
    target="cotengra.core:ContractionTree.get_tensordot_perm",
    props=["C01", "C11"],
    self_type=TreeT,
    params={"node": Key},
    lets={"L": L, "R": R, "P": P},
    requires=[
        "node in self.children",
        # index strings never repeat an index (get_inds de-duplicates with unique())
        DISTINCT.format(s="P"),
    ],
    returns=Ty.Opt(Ty.List(Int)),
    externals={"ContractionTree.get_inds": x_get_inds, "map": x_map, "*.find": x_find, "sorted": x_sorted, "str.join": x_join},
    ensures=[
        # None: the declared order already is the tensordot output order
        f"implies(result is None, forall(0, len(P), lambda a: forall(0, len(P), lambda b: implies(a < b, {LR}.find(P[a]) <= {LR}.find(P[b])))))",
        # otherwise a permutation of the axes ...
        "implies(result is not None, len(unopt(result)) == len(P))",
        "implies(result is not None, forall(0, len(P), lambda k: 0 <= unopt(result)[k] and unopt(result)[k] < len(P)))",
        "implies(result is not None, forall(0, len(P), lambda a: forall(0, len(P), lambda b: implies(a != b, unopt(result)[a] != unopt(result)[b]))))",
        # ... that ranks the declared indices by their position in the tensordot output
        f"implies(result is not None, forall(0, len(P), lambda a: forall(0, len(P), lambda b: implies(unopt(result)[a] < unopt(result)[b], {LR}.find(P[a]) <= {LR}.find(P[b])))))",
    ],
    assumptions=["get_inds(node) is one fixed string per node without repeated characters; sorted(key=) is a rearrangement ordered by the key; str.find returns the first position or -1"],
)

CONTRACTS = [axes, perm]


def _gen(rng):
    import cotengra as ctg
    from ..scope import random_tree_ssa

    n = rng.randint(2, 5)
    con = ctg.utils.rand_equation(max(n, 2), 3, n_out=rng.randint(0, 2), n_hyper_in=rng.randint(0, 1), n_hyper_out=rng.randint(0, 1), seed=rng.randint(0, 10**6)) if n >= 3 else None
    if con is None:
        inputs, output, sd = [("a", "b", "c"), ("c", "b", "d")], ("d", "a"), {"a": 2, "b": 2, "c": 3, "d": 2}
        n = 2
    else:
        inputs, output, sd = con.inputs, con.output, con.size_dict
    tree = ctg.ContractionTree.from_path(inputs, output, sd, ssa_path=random_tree_ssa(n, rng))
    if rng.random() < 0.5:
        tree.sort_contraction_indices()
    if rng.random() < 0.3 and tree.size_dict:
        tree.remove_ind_(rng.choice(sorted(tree.size_dict)))
    node = rng.choice(list(tree.children))
    return {"self": tree, "args": (node,), "describe": f"inputs={inputs} output={output} node={sorted(node)}"}


axes.gen = _gen
perm.gen = _gen
axes.pre_must_hold = True  # inputs are real trees built through the public API
perm.pre_must_hold = True
