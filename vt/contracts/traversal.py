"""C10: ContractionTree._traverse_ordered(order) yields every step after the steps
that create its (non-leaf) children, for ANY scoring function `order` (ties,
children scoring above their parents, ...).  This is what makes get_path /
get_ssa_path / contract well defined for a custom order.

Nodes are opaque keys; `len(child) > 1` is an arbitrary predicate 'is an
intermediate'; order(node) is an arbitrary integer; bisect() only needs to
return a position inside the slice it is given (true for any list).  The
generator is modelled by the list of values it yields.  Termination of the
queue-building loop is not proved (partial correctness)."""

import z3

from ..pyvc import types as Ty
from ..pyvc.contract import Contract, Loop
from ..pyvc.engine import ObjT
from ..pyvc.types import V, Int, Key, Bool

TreeT = ObjT("ContractionTree", {"root": Key, "children": Ty.Map(Key, Ty.Tuple([Key, Key]))})
StepT = Ty.Tuple([Key, Key, Key])


def _uf(name, ret=Ty.IntS):
    def ext(engine, st, args, node, kw):
        key = f"uf!{name}"
        if key not in engine.specfns:
            engine.specfns[key] = (z3.Function(key, Ty.IntS, ret), [], Int, None)
        r = engine.specfns[key][0](engine.keyterm(engine.deref(st, args[-1])))
        return V(Bool if ret == Ty.BoolS else Int, [r])

    return ext


def x_len(engine, st, _a, node, kw):
    """len(x): of a node -> 2 if it is an intermediate, else 1 (only compared with 1); of a container -> its length"""
    from ..pyvc.calls import builtin_call

    v = engine.deref(st, engine.eval(st, node.args[0]))
    if isinstance(v, V) and isinstance(v.t, type(Key)) and not isinstance(v.t, (Ty.List, Ty.Map, Ty.Set)):
        inter = _uf("is_intermediate", Ty.BoolS)(engine, st, [engine.eval(st, node.args[0])], node, {})
        return V(Int, [z3.If(inter.term, 2, 1)])
    return None  # fall through to the builtin


x_len.raw = True


def x_bisect(engine, st, args, node, kw):
    lst = engine.deref(st, args[0])
    r = engine.fresh(st, "bisect", node, Ty.IntS)
    st.assume(z3.And(0 <= r, r <= lst.c[0]))
    return V(Int, [r])


INTER = "forall(0, len({q}), lambda a: {q}[a] in self.children)"
C0, C1 = "self.children[queue[a]][0]", "self.children[queue[a]][1]"
# a processed node's intermediate children sit before it
BEFORE0 = f"forall(0, len(queue), lambda a: implies(queue[a] in seen and is_intermediate({C0}), exists(0, a, lambda b: queue[b] == {C0})))"
BEFORE1 = f"forall(0, len(queue), lambda a: implies(queue[a] in seen and is_intermediate({C1}), exists(0, a, lambda b: queue[b] == {C1})))"
# no node is queued twice; every queued node except the root was queued by its (processed) parent
NODUP = "forall(0, len(queue), lambda a: forall(0, len(queue), lambda b: implies(a < b, queue[a] != queue[b])))"
PARENT = "forall(0, len(queue), lambda a: queue[a] == self.root or parent(queue[a]) in seen)"
# the tree: intermediate children are nodes of the tree with a unique parent, the two children differ, the root is nobody's child
TREE = ("forall(keys(self.children), lambda n: self.children[n][0] != self.children[n][1]"
        " and self.children[n][0] != self.root and self.children[n][1] != self.root"
        " and implies(is_intermediate(self.children[n][0]), self.children[n][0] in self.children and parent(self.children[n][0]) == n)"
        " and implies(is_intermediate(self.children[n][1]), self.children[n][1] in self.children and parent(self.children[n][1]) == n))")
# only queued nodes are ever processed
SEENQ = "forall(seen, lambda n: exists(0, len(queue), lambda a: queue[a] == n))"
INVS = ["len(queue) == len(scores)", INTER.format(q="queue"), NODUP, PARENT, SEENQ, "subset(seen, keys(self.children))", BEFORE0, BEFORE1]

ordered = Contract(
    target="cotengra.core:ContractionTree._traverse_ordered",
    props=["C10", "C05"],
    self_type=TreeT,
    params={"order": Key},
    requires=["order != 'surface_order'", "self.root in self.children", TREE],
    returns=Ty.List(StepT),
    externals={"call:order": _uf("order"), "order": _uf("order"), "len": x_len, "bisect": x_bisect, "is_intermediate": _uf("is_intermediate", Ty.BoolS), "parent": _uf("parent")},
    nloops=4,
    loops={
        0: Loop(inv=INVS),
        1: Loop(inv=INVS + ["0 <= i and i <= len(queue)"]),
        # the two children of the node at position i (unrolled by the engine: a fixed pair)
        2: Loop(inv=[]),
        3: Loop(pos="t", inv=[NODUP, BEFORE0, BEFORE1, "forall(0, len(queue), lambda a: queue[a] in seen)", "len(__yields__) == t", "forall(0, t, lambda u: __yields__[u][0] == queue[u] and __yields__[u][1] == self.children[queue[u]][0] and __yields__[u][2] == self.children[queue[u]][1])"]),
    },
    ensures=[
        # every step is (parent, its two children) ...
        "forall(0, len(result), lambda t: result[t][0] in self.children and result[t][1] == self.children[result[t][0]][0] and result[t][2] == self.children[result[t][0]][1])",
        # ... and comes after the steps that create its intermediate children, whatever `order` says
        "forall(0, len(result), lambda t: implies(is_intermediate(result[t][1]), exists(0, t, lambda u: result[u][0] == result[t][1])))",
        "forall(0, len(result), lambda t: implies(is_intermediate(result[t][2]), exists(0, t, lambda u: result[u][0] == result[t][2])))",
        # no step is emitted twice
        "forall(0, len(result), lambda t: forall(0, len(result), lambda u: implies(t < u, result[t][0] != result[u][0])))",
    ],
    assumptions=["`order` is a pure integer-valued function of a node; bisect returns a position inside the slice it is given; termination not proved"],
)
CONTRACTS = [ordered]


def _gen(rng):
    import cotengra as ctg
    from ..scope import random_tree_ssa

    n = rng.randint(2, 8)
    con = ctg.utils.rand_equation(max(n, 2), 3, seed=rng.randint(0, 10**6)) if n >= 3 else None
    if con is None:
        inputs, output, sd = [("a", "b"), ("b", "c")], ("a", "c"), {"a": 2, "b": 2, "c": 2}
        n = 2
    else:
        inputs, output, sd = con.inputs, con.output, con.size_dict
    tree = ctg.ContractionTree.from_path(inputs, output, sd, ssa_path=random_tree_ssa(n, rng))
    nodes = list(tree.children)
    kind = rng.choice(["const", "rank", "two", "parents-first", "size"])
    if kind == "const":
        table = {x: 0 for x in nodes}
    elif kind == "rank":
        perm = list(range(len(nodes)))
        rng.shuffle(perm)
        table = dict(zip(nodes, perm))
    elif kind == "two":
        table = {x: rng.randint(0, 1) for x in nodes}
    elif kind == "parents-first":
        table = {x: -len(x) for x in nodes}
    else:
        table = {x: len(x) for x in nodes}
    parent = {}
    for p_, (l, r) in tree.children.items():
        parent[l], parent[r] = p_, p_
    order = lambda x: table[x]  # noqa: E731
    return {"self": tree, "args": (order,), "bind": {"is_intermediate": lambda x: len(x) > 1, "parent": lambda x: parent.get(x)},
            "universe": nodes, "describe": f"{inputs}->{output} path {tree.get_path()} order={kind} {sorted(table.values())}"}


ordered.gen = _gen
ordered.pre_must_hold = True


# ------------------------------------------------------------------ _traverse_dfs
def x_gen_leaves(engine, st, args, node, kw):
    """the leaves of the tree: a fixed set LEAVES"""
    key = "uf!LEAVES"
    if key not in engine.specfns:
        engine.specfns[key] = (z3.Const(key, z3.ArraySort(Ty.IntS, Ty.BoolS)), [], Int, None)
    return engine.alloc(st, V(Ty.Set(Key), [engine.specfns[key][0]]))


CHILD_OK = ("forall(keys(self.children), lambda n: (self.children[n][0] in self.children or self.children[n][0] in set(self.gen_leaves()))"
            " and (self.children[n][1] in self.children or self.children[n][1] in set(self.gen_leaves())))")
READY = "forall(ready, lambda n: n in set(self.gen_leaves()) or exists(0, len(__yields__), lambda u: __yields__[u][0] == n))"
dfs = Contract(
    target="cotengra.core:ContractionTree._traverse_dfs",
    props=["C10", "C05"],
    self_type=TreeT,
    params={},
    requires=["self.root in self.children", CHILD_OK],
    returns=Ty.List(StepT),
    externals={"ContractionTree.gen_leaves": x_gen_leaves},
    nloops=1,
    loops={
        0: Loop(inv=[
            "forall(0, len(queue), lambda a: queue[a] in self.children)",
            "subset(set(self.gen_leaves()), ready)",
            READY,
            # what has been yielded so far is well formed and ordered
            "forall(0, len(__yields__), lambda t: __yields__[t][0] in self.children and __yields__[t][1] == self.children[__yields__[t][0]][0] and __yields__[t][2] == self.children[__yields__[t][0]][1])",
            "forall(0, len(__yields__), lambda t: __yields__[t][1] in set(self.gen_leaves()) or exists(0, t, lambda u: __yields__[u][0] == __yields__[t][1]))",
            "forall(0, len(__yields__), lambda t: __yields__[t][2] in set(self.gen_leaves()) or exists(0, t, lambda u: __yields__[u][0] == __yields__[t][2]))",
        ]),
    },
    ensures=[
        "forall(0, len(result), lambda t: result[t][0] in self.children and result[t][1] == self.children[result[t][0]][0] and result[t][2] == self.children[result[t][0]][1])",
        # every step comes after the steps that create its non-leaf children
        "forall(0, len(result), lambda t: result[t][1] in set(self.gen_leaves()) or exists(0, t, lambda u: result[u][0] == result[t][1]))",
        "forall(0, len(result), lambda t: result[t][2] in set(self.gen_leaves()) or exists(0, t, lambda u: result[u][0] == result[t][2]))",
    ],
    assumptions=["gen_leaves() yields a fixed set of nodes; every child is a leaf or a node with children; termination not proved"],
)
CONTRACTS.append(dfs)


def _gen_dfs(rng):
    case = _gen(rng)
    return {"self": case["self"], "args": (), "universe": case["universe"] + list(case["self"].gen_leaves()), "describe": case["describe"].split(" order=")[0]}


dfs.gen = _gen_dfs
dfs.pre_must_hold = True
