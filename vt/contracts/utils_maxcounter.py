"""Contracts for cotengra.utils.MaxCounter (C03/C04/C07: multiset max tracker)."""

from ..pyvc import types as Ty
from ..pyvc.contract import Contract, Loop, Lemma
from ..pyvc.engine import ObjT

CounterT = Ty.Map(Ty.Int, Ty.Int)
CounterT.default = Ty.mk_int(0)  # collections.Counter: missing key reads as 0, del of a missing key is a no-op
CounterT.del_missing_ok = True

MaxCounterT = ObjT("MaxCounter", {"_c": CounterT, "_max_element": Ty.Opt(Ty.Int)})

# representation invariant: counts >= 1; max element is -inf iff empty, else the greatest key
WF = (
    "forall(keys(self._c), lambda k: self._c[k] >= 1)"
    " and (is_neginf(self._max_element) == (keys(self._c) == empty()))"
    " and (is_neginf(self._max_element) or (unopt(self._max_element) in self._c"
    " and forall(keys(self._c), lambda k: k <= unopt(self._max_element))))"
)
RESULT_WF = WF.replace("self.", "result.")
COMMON = dict(
    self_type=MaxCounterT,
    lets={"wf": WF},
    assumptions=["collections.Counter modelled as a map with default 0; `del` of a missing key is a no-op (CPython Counter.__delitem__)",
                 "builtin max(<Counter>) returns the greatest key and raises ValueError iff empty"],
)

add = Contract(
    target="cotengra.utils:MaxCounter.add",
    props=["C03", "C04", "C07"],
    params={"x": Ty.Int},
    requires=["wf"],
    modifies=["self._c", "self._max_element"],
    ensures=[
        "wf",
        # abstract view: multiset count of x goes up by one, others unchanged
        "forall(lambda k: get(self._c, k, 0) == old(get(self._c, k, 0)) + (1 if k == x else 0))",
    ],
    **COMMON,
)

discard = Contract(
    target="cotengra.utils:MaxCounter.discard",
    props=["C03", "C04", "C07"],
    params={"x": Ty.Int},
    requires=["wf"],
    modifies=["self._c", "self._max_element"],
    ensures=[
        "wf",
        "forall(lambda k: get(self._c, k, 0) == old(get(self._c, k, 0)) - (1 if (k == x and old(get(self._c, k, 0)) >= 1) else 0))",
    ],
    **COMMON,
)

mx = Contract(
    target="cotengra.utils:MaxCounter.max",
    props=["C03", "C04", "C07"],
    params={},
    requires=["wf"],
    returns=Ty.Opt(Ty.Int),
    ensures=[
        "is_neginf(result) == (keys(self._c) == empty())",
        "is_neginf(result) or (unopt(result) in self._c and forall(keys(self._c), lambda k: k <= unopt(result)))",
    ],
    **COMMON,
)

copy = Contract(
    target="cotengra.utils:MaxCounter.copy",
    props=["C04", "C07"],
    params={},
    requires=["wf"],
    ensures=[
        RESULT_WF,
        "forall(lambda k: get(result._c, k, 0) == get(self._c, k, 0))",
        # the copy owns its counter: later mutation of one does not reach the other
        "not same_ref(result._c, self._c)",
        "forall(lambda k: get(self._c, k, 0) == old(get(self._c, k, 0)))",
    ],
    externals={},
    **COMMON,
)

CONTRACTS = [add, discard, mx, copy]


def _gen(rng):
    from cotengra.utils import MaxCounter

    n = rng.randint(0, 5)
    items = [rng.randint(1, 6) for _ in range(n)]
    mc = MaxCounter(items) if items else MaxCounter()
    return mc, items


def _gen_x(rng):
    mc, items = _gen(rng)
    x = rng.randint(0, 7)
    return {"self": mc, "args": (x,), "universe": range(0, 9), "describe": f"MaxCounter({items}) x={x}"}


def _gen_0(rng):
    mc, items = _gen(rng)
    return {"self": mc, "args": (), "universe": range(0, 9), "describe": f"MaxCounter({items})"}


add.gen = _gen_x
discard.gen = _gen_x
mx.gen = _gen_0
copy.gen = _gen_0
