"""Helpers shared by the optimizer-level bounded drivers (C08, C14, C15, C16, C17).

Everything here is harness-side; oracles are written from the property
statements (what a valid path / a tree "of the queried contraction" is), not
from cotengra's implementation.
"""

from __future__ import annotations

import contextlib
import os
import random
import shutil
import subprocess
import sys
import tempfile
import warnings

_TMPBASE = {"dir": None}


def mk_tmp(prefix):
    """Scratch directory; inside ``run_tmpbase`` it lives under the run's base
    directory, which is removed at the end of the run even when workers were
    terminated in the middle of a case."""
    return tempfile.mkdtemp(prefix=prefix, dir=_TMPBASE["dir"])


@contextlib.contextmanager
def run_tmpbase(prefix):
    base = tempfile.mkdtemp(prefix=prefix)
    _TMPBASE["dir"] = base
    try:
        yield base
    finally:
        _TMPBASE["dir"] = None
        shutil.rmtree(base, ignore_errors=True)


@contextlib.contextmanager
def quiet():
    with warnings.catch_warnings():
        warnings.simplefilter("ignore")
        yield


def tupnet(inputs, output=None):
    ins = tuple(tuple(t) for t in inputs)
    if output is None:
        return ins
    return ins, tuple(output)


def eq_str(inputs, output):
    """Human readable equation; multi-character labels are joined with '.'."""
    def term(t):
        if all(isinstance(x, str) and len(x) == 1 for x in t):
            return "".join(t)
        return ".".join(map(str, t))

    return ",".join(term(t) for t in inputs) + "->" + term(output)


def rand_net(n, reg, n_out=0, n_hyper_in=0, n_hyper_out=0, d_min=2, d_max=3, seed=0):
    """cotengra.utils.rand_equation as plain tuples / dict (seeded, so a pure
    function of its arguments; C17 checks that separately)."""
    from cotengra.utils import rand_equation

    inputs, output, _shapes, size_dict = rand_equation(
        n, reg, n_out=n_out, n_hyper_in=n_hyper_in, n_hyper_out=n_hyper_out, d_min=d_min, d_max=d_max, seed=seed
    )
    return tupnet(inputs), tuple(output), {k: int(v) for k, v in size_dict.items()}


def path_is_valid(path, n):
    """A (linear, recycled) contraction path for n tensors: every step is a
    tuple of distinct positions into the current list; contracted tensors are
    removed and the result appended; exactly one tensor remains."""
    try:
        rem = n
        for step in path:
            step = tuple(int(i) for i in step)
            if len(step) < 1 or len(set(step)) != len(step):
                return False
            if any(i < 0 or i >= rem for i in step):
                return False
            rem = rem - len(step) + 1
        return rem == 1
    except Exception:  # noqa: BLE001
        return False


def tree_query_mismatch(tree, inputs, output, size_dict, check_sizes=True):
    """Return '' if ``tree`` is a complete tree of exactly the queried
    contraction (same N, same input terms in the same order with indices in
    the queried order, same output, same sizes), else a short reason."""
    n = len(inputs)
    try:
        if tree.N != n:
            return f"tree.N={tree.N} but query has {n} tensors"
        tin = tuple(tuple(t) for t in tree.inputs)
        if tin != tuple(tuple(t) for t in inputs):
            return f"tree.inputs={tin} differ from the query's"
        if tuple(tree.output) != tuple(output):
            return f"tree.output={tuple(tree.output)} but query output={tuple(output)}"
        if check_sizes:
            used = {ix for t in inputs for ix in t} | set(output)
            for ix in used:
                if int(tree.size_dict[ix]) != int(size_dict[ix]):
                    return f"tree.size_dict[{ix!r}]={tree.size_dict[ix]} but query says {size_dict[ix]}"
        if n > 1 and not tree.is_complete():
            return "tree is not complete"
        if not path_is_valid(tree.get_path(), n):
            return f"tree.get_path()={tree.get_path()} is not a valid path for {n} tensors"
    except Exception as e:  # noqa: BLE001
        return f"inspecting the tree raised {type(e).__name__}: {e}"
    return ""


def fresh_rebuild(inputs, output, size_dict, path, sliced_inds=(), objective=None):
    """A from-scratch tree of the query following ``path`` with ``sliced_inds``
    removed — used to catch stale tracked totals in a returned tree."""
    from cotengra.core import ContractionTree

    kw = {} if objective is None else {"objective": objective}
    t = ContractionTree.from_path(inputs, output, size_dict, path=path, **kw)
    for ix in sliced_inds:
        t.remove_ind_(ix)
    return t


def seed_globals(s):
    random.seed(s)
    try:
        import numpy as np

        np.random.seed(s % (2**32))
    except Exception:  # noqa: BLE001
        pass


def child_env(extra=None):
    env = dict(os.environ)
    env.setdefault("PYTHONDONTWRITEBYTECODE", "1")
    if extra:
        env.update({k: str(v) for k, v in extra.items()})
    return env


def run_child(code_or_args, input_bytes=None, env=None, timeout=300, module=None):
    """Run a fresh interpreter (same executable, PYTHONPATH inherited).
    ``module`` -> ``python -m module args...``; else ``python -c code``."""
    if module is not None:
        cmd = [sys.executable, "-m", module] + list(code_or_args)
    else:
        cmd = [sys.executable, "-c", code_or_args]
    root = os.path.dirname(os.path.dirname(os.path.dirname(os.path.abspath(__file__))))
    e = child_env(env)
    pp = e.get("PYTHONPATH", "")
    if root not in pp.split(os.pathsep):
        e["PYTHONPATH"] = (pp + os.pathsep if pp else "") + root
    p = subprocess.run(cmd, input=input_bytes, stdout=subprocess.PIPE, stderr=subprocess.PIPE, env=e, timeout=timeout, cwd=root)
    return p.returncode, p.stdout, p.stderr
