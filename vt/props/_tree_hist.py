"""Shared machinery of the C02 / C04 bounded drivers: HISTORIES of public
operations on a complete ContractionTree (DESIGN.md sections 2.5, C02, C04).

* a *case*     = network (inputs, output, size_dict) + initial tree (ssa path)
* a *prepared cache state* = short list of operations applied first
  ("which caches happened to be populated")
* a *history*  = list of operations ``[name, kwargs]`` (JSON-able)
* after EVERY step the checks run on a deep snapshot of the tree (made by the
  harness, never by ``tree.copy()``, which is itself under test), so checking
  never populates the caches of the tree whose history is explored.

Oracles are written from the property statements: `spec_tree` computes legs /
involved / size / flops of every node from (children, sliced set, inputs,
output) alone.
"""

from __future__ import annotations

import contextlib
import copy
import hashlib
import io
import itertools
import math
import pickle
import random
import time
import traceback
import warnings

import numpy as np

from .. import scope, symval

RECIPE_KEYS = ("einsum_eq", "can_dot", "tensordot_axes", "tensordot_perm")


# --------------------------------------------------------------------------
# networks
# --------------------------------------------------------------------------
def parse_eq(eq):
    lhs, rhs = eq.split("->")
    return tuple(tuple(t) for t in lhs.split(",")), tuple(rhs)


def eq_str(inputs, output):
    return ",".join("".join(t) for t in inputs) + "->" + "".join(output)


# curated so that every structural feature occurs (3-5 tensors); the sizes are
# the ones used by the value property (C02); C04 replaces them by primes.
# (equation, sizes in alphabetical order of the symbols, extra fixed trees)
BASE_NETS = [
    # 3 tensors
    ("ab,bc,cd->ad", (2, 3, 2, 3), [((0, 1), (2, 3))]),
    ("ab,bc,cd->da", (2, 2, 3, 3), [((0, 1), (2, 3))]),
    ("abc,acd,abd->a", (2, 2, 3, 2), [((0, 1), (3, 2))]),
    ("ab,bc,ca->", (2, 3, 2), []),
    ("aab,bc,cc->a", (2, 2, 2), []),
    ("ab,,bc->ac", (2, 3, 2), []),
    ("ab,cd,de->ecab", (2, 1, 2, 3, 2), []),
    ("abd,bc,ce->a", (2, 2, 3, 2, 2), []),
    ("ab,ab,ba->ba", (3, 2), []),
    ("a,a,a->a", (3,), []),
    # 4 tensors
    ("ab,bc,cd,da->", (2, 3, 2, 2), [((0, 1), (2, 3), (4, 5))]),
    ("ab,bc,cd,de->ea", (3, 2, 2, 2, 2), [((0, 1), (4, 2), (5, 3))]),
    ("abc,bd,cd,ad->", (2, 2, 2, 2), []),
    ("ab,ac,ad,a->bcd", (2, 2, 2, 2), []),
    ("ab,ac,ad,ae->abe", (2, 2, 2, 3, 2), []),
    ("ab,bc,,cd->ad", (2, 2, 3, 2), []),
    ("ab,ba,cd,dc->", (2, 3, 2, 2), []),
    ("aab,bcc,cd,d->a", (2, 2, 2, 2), []),
    ("ab,bc,cd,ad->bd", (2, 2, 3, 2), []),
    ("ab,bc,cd,da->ac", (1, 2, 2, 1), []),
    # 5 tensors
    ("ab,bc,cd,de,ea->", (2, 2, 2, 2, 2), []),
    ("ab,bc,cd,de,ef->fa", (2, 2, 2, 2, 2, 3), [((0, 1), (5, 2), (6, 3), (7, 4))]),
    ("abc,cd,de,eb,a->", (2, 2, 2, 2, 2), []),
    ("ab,ac,ad,ae,a->bcde", (2, 2, 2, 2, 2), []),
    ("a,b,c,d,e->db", (2, 2, 2, 2, 2), []),
    ("abc,abc,abc,abc,abc->cab", (2, 2, 2), []),
    ("ab,bc,ca,cd,de->e", (2, 2, 2, 2, 3), []),
    ("bef,ab,abcd,bde,acf->a", (2, 2, 2, 2, 2, 2), []),
    # higher-rank tensors: sorted index orders differ from the default ones, so
    # stale recipes become visible (found with the restore_ind self-test)
    ("abce,bcd,adef,fe->", (2, 2, 2, 2, 2, 2), [((0, 2), (1, 3), (4, 5))]),
    ("abc,cde,efa,bdf->", (2, 2, 2, 2, 3, 2), [((0, 2), (4, 3), (5, 1))]),
    ("acef,afg,c,bdg,ade->ba", (2, 2, 2, 2, 2, 2, 2), [((0, 2), (3, 4), (1, 6), (5, 7))]),
]


def base_cases(sd_seed, sizes="small", limit=None):
    """The base set of (network, tree) pairs: one tree per network (seeded, or
    the historically interesting one where given)."""
    out = []
    for k, (eq, szs, extra) in enumerate(BASE_NETS):
        inputs, output = parse_eq(eq)
        syms = sorted({s for t in inputs for s in t} | set(output))
        if sizes == "small":
            sd = dict(zip(syms, szs))
        else:
            sd = scope.size_dict_primes(inputs, output)
        n = len(inputs)
        rng = random.Random(7919 * sd_seed + k)
        trees = list(scope.all_trees(n))
        if extra:
            # historically interesting tree for this network (DESIGN section 4)
            chosen = [tuple(tuple(p) for p in e) for e in extra]
        else:
            chosen = [trees[rng.randrange(len(trees))]]
        for ssa in chosen:
            out.append({"inputs": inputs, "output": output, "size_dict": sd, "ssa_path": ssa})
    if limit is not None:
        out = out[:limit]
    return out


def random_case(rng, nmin=6, nmax=10, max_space=2048, sizes="small"):
    """A larger random network through cotengra.utils.rand_equation plus a
    random tree; the index space is bounded so that the dense reference stays
    cheap."""
    from cotengra.utils import rand_equation

    for _ in range(1000):
        n = rng.randint(nmin, nmax)
        reg = rng.choice((2, 2, 3))
        n_out = rng.randint(0, 2)
        n_hin = rng.randint(0, 1)
        n_hout = rng.randint(0, 1)
        inputs, output, _shapes, sd = rand_equation(
            n, reg, n_out=n_out, n_hyper_in=n_hin, n_hyper_out=n_hout, d_min=2, d_max=2, seed=rng.randrange(2**30)
        )
        space = 1
        for v in sd.values():
            space *= v
        if space > max_space:
            continue
        inputs = tuple(tuple(t) for t in inputs)
        output = tuple(output)
        if sizes == "small":
            syms = sorted(sd)
            sd = {s: (3 if (i % 5 == 4) else 2) for i, s in enumerate(syms)}
        else:
            sd = scope.size_dict_primes(inputs, output)
        ssa = scope.random_tree_ssa(n, rng)
        return {"inputs": inputs, "output": output, "size_dict": sd, "ssa_path": ssa}
    raise RuntimeError("no random network within the space bound")


def case_json(case):
    return {
        "inputs": ["".join(t) for t in case["inputs"]],
        "output": "".join(case["output"]),
        "size_dict": dict(case["size_dict"]),
        "ssa_path": [list(p) for p in case["ssa_path"]],
    }


def case_from_json(cj):
    return {
        "inputs": tuple(tuple(t) for t in cj["inputs"]),
        "output": tuple(cj["output"]),
        "size_dict": {k: int(v) for k, v in cj["size_dict"].items()},
        "ssa_path": tuple(tuple(p) for p in cj["ssa_path"]),
    }


def case_label(case):
    sd = case["size_dict"]
    return (
        f"{eq_str(case['inputs'], case['output'])} sizes "
        + "".join(f"{k}{sd[k]}" for k in sorted(sd))
        + " tree "
        + "".join(f"({a},{b})" for a, b in case["ssa_path"])
    )


def all_indices(case):
    return sorted({s for t in case["inputs"] for s in t} | set(case["output"]))


# --------------------------------------------------------------------------
# operations
# --------------------------------------------------------------------------
def op_label(op):
    name, kw = op[0], op[1]
    if not kw:
        return f"{name}()"
    return name + "(" + ",".join(f"{k}={kw[k]!r}" for k in kw) + ")"


def hist_label(hist):
    return "[" + ", ".join(op_label(o) for o in hist) + "]"


HOT = {"tstart": 1e6, "tfinal": 1e6}

# prepared cache states (ordered preparation steps, DESIGN 2.5)
PREPS = {
    "fresh": [],
    "stats": [["contract_stats", {}]],
    "contracted": [["contract", {}]],
    "sorted+contracted": [["sort_contraction_indices", {"priority": "flops"}], ["contract", {}]],
    "annealed": [["simulated_anneal_", {"tsteps": 1, "numiter": 1, "seed": 0, **HOT}]],
    "sliced+contracted": [["remove_ind_", {"ind": "@0"}], ["contract", {}]],
    # recipes cached on top of NON-default index orders of an already sliced
    # tree: unslicing is then one step away from stale parent recipes
    "sliced+sorted+contracted": [["remove_ind_", {"ind": "@i0"}], ["sort_contraction_indices", {"priority": "flops"}], ["contract", {}]],
}
PREP_ORDER = ["fresh", "stats", "contracted", "sorted+contracted", "annealed", "sliced+contracted"]
PREP_ORDER_VALUE = PREP_ORDER + ["sliced+sorted+contracted"]


def resolve_prep(prep, case):
    """'@k' -> the k-th index of the network that sits on >= 2 tensors or on the
    output (so that slicing it matters), falling back to the first index."""
    inds = all_indices(case)
    app = {}
    for t in case["inputs"]:
        for s in set(t):
            app[s] = app.get(s, 0) + 1
    good = [ix for ix in inds if app.get(ix, 0) >= 2] or inds
    # '@i0': an INNER index on >= 2 tensors (contracted somewhere below the
    # root, so that some ancestor is not re-created when it is unsliced)
    inner = [ix for ix in good if ix not in case["output"]] or good
    out = []
    for name, kw in prep:
        kw = dict(kw)
        for k, v in kw.items():
            if isinstance(v, str) and v.startswith("@i"):
                kw[k] = inner[int(v[2:]) % len(inner)]
            elif isinstance(v, str) and v.startswith("@"):
                kw[k] = good[int(v[1:]) % len(good)]
        out.append([name, kw])
    return out


def fixed_menu(with_write=False):
    """The concrete operation menu after fixing the small parameter menus
    (index-parametrised operations are added per network)."""
    m = [
        ["subtree_reconfigure_", {"subtree_size": 2, "maxiter": 1, "subtree_search": "bfs", "select": "max"}],
        ["subtree_reconfigure_", {"subtree_size": 3, "maxiter": 2, "subtree_search": "dfs", "select": "min"}],
        ["subtree_reconfigure_", {"subtree_size": 4, "maxiter": 500, "subtree_search": "random", "select": "random", "seed": 0}],
        ["subtree_reconfigure_", {"subtree_size": 3, "maxiter": 500, "subtree_search": "bfs", "select": "max"}],
        ["subtree_reconfigure_forest_", {"num_trees": 2, "num_restarts": 1, "subtree_size": 3, "parallel": False, "seed": 0}],
        ["simulated_anneal_", {"tsteps": 1, "numiter": 1, "seed": 0, **HOT}],
        ["simulated_anneal_", {"tsteps": 1, "numiter": 1, "seed": 1, **HOT}],
        ["simulated_anneal_", {"tsteps": 2, "numiter": 2, "tstart": 2, "tfinal": 0.05, "seed": 0}],
        ["simulated_anneal_", {"tsteps": 1, "numiter": 2, "tstart": 0.5, "tfinal": 0.5, "seed": 2}],
        ["simulated_anneal_", {"tsteps": 2, "numiter": 1, "seed": 0, "target_size": 2, "slice_mode": "basic", **HOT}],
        ["simulated_anneal_", {"tsteps": 2, "numiter": 1, "seed": 1, "target_size": 2, "slice_mode": "drift", **HOT}],
        ["simulated_anneal_", {"tsteps": 1, "numiter": 1, "seed": 0, "target_size": 1, "slice_mode": "reslice", **HOT}],
        ["parallel_temper_", {"tsteps": 1, "num_trees": 2, "numiter": 1, "parallel": False, "seed": 0}],
        ["parallel_temper_", {"tsteps": 2, "num_trees": 2, "numiter": 1, "target_size": 2, "parallel": False, "seed": 0}],
        ["unslice_rand_", {"seed": 0}],
        ["unslice_all_", {}],
        ["slice_", {"target_size": 2, "max_repeats": 4, "seed": 0}],
        ["slice_", {"target_slices": 2, "max_repeats": 4, "seed": 0}],
        ["slice_", {"target_slices": 4, "allow_outer": False, "max_repeats": 2, "seed": 1}],
        ["slice_", {"target_size": 2, "reslice": True, "max_repeats": 4, "seed": 0}],
        ["slice_and_reconfigure_", {"target_size": 2, "max_repeats": 4, "reconf_opts": {"subtree_size": 3, "maxiter": 2}}],
        ["slice_and_reconfigure_forest_", {"target_size": 2, "num_trees": 2, "max_repeats": 2, "parallel": False,
                                           "reconf_opts": {"subtree_size": 3, "maxiter": 2}}],
        ["sort_contraction_indices", {"priority": "flops"}],
        ["sort_contraction_indices", {"priority": "size", "make_output_contig": False}],
        ["sort_contraction_indices", {"priority": "root", "make_contracted_contig": False}],
        ["sort_contraction_indices", {"priority": "leaves"}],
        ["sort_contraction_indices", {"priority": "flops", "reset": False}],
        ["reset_contraction_indices", {}],
        ["copy", {}],
        ["contract", {}],
        ["contract", {"prefer_einsum": True, "order": "dfs"}],
        ["contract", {"implementation": "autoray"}],
        ["contract_stats", {}],
        ["get_path", {}],
        ["print_contractions", {}],
        ["has_preprocessing", {}],
        ["total_flops", {}],
        ["max_size", {}],
        ["peak_size", {}],
    ]
    if with_write:
        m.append(["total_write", {}])
        m.append(["contract_stats", {"force": True}])
    return m


def menu_for(case, with_write=False):
    m = fixed_menu(with_write)
    sd = case["size_dict"]
    for ix in all_indices(case):
        m.append(["remove_ind_", {"ind": ix}])
        m.append(["remove_ind_", {"ind": ix, "project": sd[ix] - 1}])
        m.append(["restore_ind_", {"ind": ix}])
    return m


def sample_op(rng, case, with_write=False):
    """One operation with parameters drawn from the FULL parameter menus (used
    by the seeded samples of longer histories)."""
    inds = all_indices(case)
    sd = case["size_dict"]
    k = rng.randrange(16)
    temps = rng.choice(((1e6, 1e6), (0.5, 0.5), (2, 0.05)))
    if k == 0:
        return ["subtree_reconfigure_", {
            "subtree_size": rng.randint(2, 4), "maxiter": rng.choice((1, 2, 500)),
            "subtree_search": rng.choice(("bfs", "dfs", "random")), "select": rng.choice(("max", "min", "random")),
            "seed": rng.randrange(100)}]
    if k == 1:
        return ["subtree_reconfigure_forest_", {"num_trees": 2, "num_restarts": 1, "subtree_size": 3,
                                                "parallel": rng.choice((False, None)), "seed": rng.randrange(100)}]
    if k in (2, 3):
        kw = {"tsteps": rng.randint(1, 2), "numiter": rng.randint(1, 2), "tstart": temps[0], "tfinal": temps[1],
              "seed": rng.randrange(100)}
        if rng.random() < 0.4:
            kw["target_size"] = rng.choice((1, 2, 4, 8))
            kw["slice_mode"] = rng.choice(("basic", "reslice", "drift", 2))
        return ["simulated_anneal_", kw]
    if k == 4:
        kw = {"tsteps": rng.randint(1, 2), "num_trees": 2, "numiter": 1, "parallel": False, "seed": rng.randrange(100)}
        if rng.random() < 0.4:
            kw["target_size"] = rng.choice((2, 4))
        return ["parallel_temper_", kw]
    if k in (5, 6):
        ix = rng.choice(inds)
        if rng.random() < 0.4:
            return ["remove_ind_", {"ind": ix, "project": rng.randrange(sd[ix])}]
        return ["remove_ind_", {"ind": ix}]
    if k == 7:
        r = rng.random()
        if r < 0.5:
            return ["restore_ind_", {"ind": rng.choice(inds)}]
        if r < 0.8:
            return ["unslice_rand_", {"seed": rng.randrange(100)}]
        return ["unslice_all_", {}]
    if k == 8:
        kw = {"seed": rng.randrange(100)}
        r = rng.random()
        if r < 0.5:
            kw["target_size"] = rng.choice((1, 2, 4, 8))
        elif r < 0.8:
            kw["target_slices"] = rng.choice((2, 3, 4, 8))
        else:
            kw["target_overhead"] = rng.choice((1.0, 1.5, 4))
        if rng.random() < 0.3:
            kw["reslice"] = True
        if rng.random() < 0.3:
            kw["allow_outer"] = rng.choice((False, "only"))
        return ["slice_", kw]
    if k == 9:
        if rng.random() < 0.7:
            return ["slice_and_reconfigure_", {"target_size": rng.choice((2, 4, 8)),
                                               "reconf_opts": {"subtree_size": 3, "maxiter": 2}}]
        return ["slice_and_reconfigure_forest_", {"target_size": rng.choice((2, 4)), "num_trees": 2, "max_repeats": 2,
                                                  "parallel": False, "reconf_opts": {"subtree_size": 3, "maxiter": 2}}]
    if k == 10:
        kw = {"priority": rng.choice(("flops", "size", "root", "leaves"))}
        if rng.random() < 0.4:
            kw["make_output_contig"] = False
        if rng.random() < 0.4:
            kw["make_contracted_contig"] = False
        if rng.random() < 0.3:
            kw["reset"] = False
        return ["sort_contraction_indices", kw]
    if k == 11:
        return rng.choice([["reset_contraction_indices", {}], ["copy", {}]])
    if k in (12, 13):
        kw = {}
        if rng.random() < 0.5:
            kw["prefer_einsum"] = True
        r = rng.random()
        if r < 0.3:
            kw["implementation"] = "autoray"
        elif r < 0.5:
            kw["implementation"] = "cotengra"
        if rng.random() < 0.3:
            kw["order"] = "dfs"
        return ["contract", kw]
    obs = [["contract_stats", {}], ["get_path", {}], ["print_contractions", {}], ["has_preprocessing", {}],
           ["total_flops", {}], ["max_size", {}], ["peak_size", {}]]
    if with_write:
        obs += [["total_write", {}], ["contract_stats", {"force": True}]]
    return rng.choice(obs)


# --------------------------------------------------------------------------
# deep snapshot
# --------------------------------------------------------------------------
def clone(obj):
    """Deep copy made by the harness (pickle round trip: preserves aliasing
    inside `obj`, shares nothing with it); falls back to copy.deepcopy."""
    try:
        return pickle.loads(pickle.dumps(obj, pickle.HIGHEST_PROTOCOL))
    except Exception:  # noqa: BLE001
        return copy.deepcopy(obj)


def clone_fp(obj):
    """clone + a fingerprint of the pickled bytes: equal fingerprints imply
    equal states (the bytes determine the object graph); the converse need not
    hold, which only costs a repeated check."""
    try:
        raw = pickle.dumps(obj, pickle.HIGHEST_PROTOCOL)
        return pickle.loads(raw), hashlib.blake2b(raw, digest_size=16).digest()
    except Exception:  # noqa: BLE001
        c = copy.deepcopy(obj)
        return c, fingerprint(c)


def canon(x, depth=0):
    """Order-preserving canonical form of a tree's state (fingerprints)."""
    if depth > 12:
        return repr(x)
    if isinstance(x, (str, int, float, bool)) or x is None:
        return x
    if isinstance(x, dict):
        return ("d", tuple((canon(k, depth + 1), canon(v, depth + 1)) for k, v in x.items()))
    if isinstance(x, (set, frozenset)):
        return ("s", tuple(sorted((canon(v, depth + 1) for v in x), key=repr)))
    if isinstance(x, (list, tuple)):
        return ("l", tuple(canon(v, depth + 1) for v in x))
    if type(x).__name__ == "SliceInfo":
        return ("si", x.inner, x.ind, x.size, x.project)
    slots = []
    for klass in type(x).__mro__:
        slots.extend(getattr(klass, "__slots__", ()))
    attrs = {}
    for s in slots:
        if s != "__weakref__" and hasattr(x, s):
            attrs[s] = getattr(x, s)
    if hasattr(x, "__dict__"):
        attrs.update(vars(x))
    if attrs:
        return ("o", type(x).__name__, tuple((k, canon(v, depth + 1)) for k, v in sorted(attrs.items())))
    return ("r", type(x).__name__)


def fingerprint(tree):
    return hashlib.blake2b(repr(canon(vars(tree))).encode(), digest_size=16).digest()


# --------------------------------------------------------------------------
# the from-scratch evaluator (spec)
# --------------------------------------------------------------------------
class Spec:
    """legs / involved / size / flops of every node, from (children, sliced
    set, inputs, output, size_dict) alone."""

    def __init__(self, inputs, output, size_dict, children, sliced, projected=()):
        self.inputs, self.output, self.sd = inputs, output, size_dict
        self.N = len(inputs)
        self.sliced = set(sliced)
        app = {}
        for t in inputs:
            for ix in t:
                app[ix] = app.get(ix, 0) + 1
        for ix in output:
            app[ix] = app.get(ix, 0) + 1
        self.app = app
        self.children = {p: tuple(lr) for p, lr in children.items()}
        self.root = frozenset(range(self.N))
        self.mult = 1
        for ix in self.sliced:
            if ix not in projected:
                self.mult *= size_dict[ix]
        self._legs = {}

    def legs(self, node):
        """index -> number of occurrences inside the node, for the indices that
        survive on the node's tensor (non-root nodes)."""
        try:
            return self._legs[node]
        except KeyError:
            pass
        cnt = {}
        for i in node:
            for ix in self.inputs[i]:
                if ix not in self.sliced:
                    cnt[ix] = cnt.get(ix, 0) + 1
        r = {ix: c for ix, c in cnt.items() if c < self.app[ix]}
        self._legs[node] = r
        return r

    def root_legs(self):
        return [ix for ix in self.output if ix not in self.sliced]

    def legs_keys(self, node):
        if len(node) == self.N and self.N > 1:
            return set(self.root_legs())
        return set(self.legs(node))

    def involved(self, node):
        if len(node) == 1:
            return {}
        l, r = self.children[node]
        out = dict(self.legs(l))
        for ix, c in self.legs(r).items():
            out[ix] = out.get(ix, 0) + c
        return out

    def size(self, node):
        s = 1
        for ix in self.legs_keys(node):
            s *= self.sd[ix]
        return s

    def flops(self, node):
        if len(node) == 1:
            return 0
        f = 1
        for ix in self.involved(node):
            f *= self.sd[ix]
        return f

    def totals(self):
        fl = sum(self.flops(p) for p in self.children)
        wr = sum(self.size(p) for p in self.children)
        sz = max(self.size(p) for p in self.children)
        return {"flops": self.mult * fl, "write": self.mult * wr, "size": sz}

    def leaf_simplifiable(self, i):
        term = [ix for ix in self.inputs[i] if ix not in self.sliced]
        cnt = {}
        for ix in term:
            cnt[ix] = cnt.get(ix, 0) + 1
        return len(term) != len(cnt) or any(c == self.app[ix] for ix, c in cnt.items())


def structure_problems(S):
    """Binary-tree structure of the snapshot (independent of is_complete)."""
    N = S.N
    probs = []
    root = frozenset(range(N))
    if S.root != root:
        probs.append("root is not the set of all inputs")
    seen = set()
    stack = [root]
    while stack:
        x = stack.pop()
        if x in seen:
            probs.append(f"node {sorted(x)} reached twice")
            break
        seen.add(x)
        if len(x) == 1:
            continue
        if x not in S.children:
            probs.append(f"node {sorted(x)} has no children")
            continue
        l, r = S.children[x]
        if (l | r) != x or (l & r) or not l or not r:
            probs.append(f"children of {sorted(x)} do not partition it")
            continue
        stack.extend((l, r))
    if not probs:
        if set(S.children) != {x for x in seen if len(x) > 1}:
            probs.append("children has entries for nodes outside the tree")
        if set(S.info) != seen:
            extra = [sorted(x) for x in set(S.info) - seen]
            missing = [sorted(x) for x in seen - set(S.info)]
            probs.append(f"info keys differ from the tree's nodes (extra {extra}, missing {missing})")
    return probs


def slicing_problems(S, case, proj):
    """sliced_inds / sliced_inputs / multiplicity agree with one another and
    with the projections requested so far (clause 3 of wf)."""
    probs = []
    inputs, output, sd = case["inputs"], case["output"], case["size_dict"]
    seen_inner = False
    mult = 1
    for key, si in S.sliced_inds.items():
        if key != si.ind:
            probs.append(f"sliced_inds key {key!r} holds SliceInfo of {si.ind!r}")
        inner = si.ind not in output
        if si.inner != inner:
            probs.append(f"sliced_inds[{key!r}].inner wrong")
        if inner:
            seen_inner = True
        elif seen_inner:
            probs.append("sliced_inds not ordered output-first")
        want = proj.get(key)
        if si.project != want:
            probs.append(f"sliced_inds[{key!r}].project is {si.project!r}, requested {want!r}")
        if si.project is None:
            if si.size != sd[key]:
                probs.append(f"sliced_inds[{key!r}].size {si.size} != {sd[key]}")
            mult *= sd[key]
        elif si.size != 1:
            probs.append(f"sliced_inds[{key!r}].size {si.size} != 1 for a projected index")
    if S.multiplicity != mult:
        probs.append(f"multiplicity {S.multiplicity} != {mult}")
    want_inputs = frozenset(i for i, t in enumerate(inputs) if any(ix in S.sliced_inds for ix in t))
    if frozenset(S.sliced_inputs) != want_inputs:
        probs.append(f"sliced_inputs {sorted(S.sliced_inputs)} != {sorted(want_inputs)}")
    return probs


def cache_problems(S, case, spec=None):
    """Every PRESENT cached legs / involved / size / flops entry equals the
    from-scratch value (clause 1 of wf, cost part of C04).  Pure inspection:
    no getter of the snapshot is called."""
    probs = []
    if spec is None:
        spec = Spec(case["inputs"], case["output"], case["size_dict"], S.children, S.sliced_inds,
                    [k for k, si in S.sliced_inds.items() if si.project is not None])
    N = S.N
    for node, info in S.info.items():
        nd = sorted(node)
        is_root = len(node) == N and N > 1
        if "legs" in info:
            if is_root:
                if list(info["legs"]) != spec.root_legs():
                    probs.append(f"cached legs of the root {list(info['legs'])} != output order {spec.root_legs()}")
            elif dict(info["legs"]) != spec.legs(node):
                probs.append(f"cached legs of node {nd} {dict(info['legs'])} != from-scratch {spec.legs(node)}")
        if "involved" in info:
            if dict(info["involved"]) != spec.involved(node):
                probs.append(f"cached involved of node {nd} {dict(info['involved'])} != from-scratch {spec.involved(node)}")
        if "size" in info and info["size"] != spec.size(node):
            probs.append(f"cached size of node {nd} {info['size']} != from-scratch {spec.size(node)}")
        if "flops" in info and info["flops"] != spec.flops(node):
            probs.append(f"cached flops of node {nd} {info['flops']} != from-scratch {spec.flops(node)}")
    return probs


def tracked_problems(S, spec):
    """_flops/_write/_sizes equal the totals over the current nodes whenever
    the corresponding _track_* flag is set."""
    probs = []
    if getattr(S, "_track_flops", False):
        want = sum(spec.flops(p) for p in spec.children)
        if S._flops != want:
            probs.append(f"tracked _flops {S._flops} != sum over nodes {want}")
    if getattr(S, "_track_write", False):
        want = sum(spec.size(p) for p in spec.children)
        if S._write != want:
            probs.append(f"tracked _write {S._write} != sum over nodes {want}")
    if getattr(S, "_track_size", False):
        want = {}
        for p in spec.children:
            s = spec.size(p)
            want[s] = want.get(s, 0) + 1
        have = {k: v for k, v in dict(S._sizes._c).items() if v}
        if have != want:
            probs.append(f"tracked _sizes {have} != multiset over nodes {want}")
        elif want and S._sizes.max() != max(want):
            probs.append(f"tracked _sizes.max() {S._sizes.max()} != {max(want)}")
    return probs


def inds_problems(S, case, spec):
    """Cached `inds` are permutations of the legs; root inds == output order
    minus sliced; leaf preprocessing agrees with the slicing (clauses 1, 2)."""
    probs = []
    N = S.N
    for node, info in S.info.items():
        nd = sorted(node)
        if "inds" not in info:
            continue
        inds = info["inds"]
        if len(node) == N and N > 1:
            if list(inds) != spec.root_legs():
                probs.append(f"cached inds of the root {inds!r} != output order {''.join(spec.root_legs())!r}")
        else:
            if len(set(inds)) != len(inds) or set(inds) != set(spec.legs(node)):
                probs.append(f"cached inds of node {nd} {inds!r} not a permutation of its legs {sorted(spec.legs(node))}")
            if len(node) == 1 and "legs" in info and list(inds) != list(info["legs"]):
                probs.append(f"cached inds of leaf {nd} {inds!r} != its cached legs order {list(info['legs'])}")
    # leaves: preprocessing
    for i in range(N):
        leaf = frozenset([i])
        info = S.info.get(leaf, {})
        term = [ix for ix in case["inputs"][i] if ix not in S.sliced_inds]
        simp = spec.leaf_simplifiable(i)
        if i in S.preprocessing:
            eq = S.preprocessing[i]
            try:
                lhs, rhs = eq.split("->")
            except ValueError:
                probs.append(f"preprocessing[{i}] {eq!r} malformed")
                continue
            ok = len(lhs) == len(term)
            fwd, bwd = {}, {}
            if ok:
                for ch, ix in zip(lhs, term):
                    if fwd.setdefault(ix, ch) != ch or bwd.setdefault(ch, ix) != ix:
                        ok = False
            if ok:
                kept = [bwd.get(ch) for ch in rhs]
                ok = len(set(rhs)) == len(rhs) and set(kept) == set(spec.legs(leaf))
                if ok and "legs" in info:
                    ok = kept == list(info["legs"])
            if not ok or not simp:
                probs.append(f"preprocessing[{i}] {eq!r} is not the single-term equation of {''.join(term)!r} -> {sorted(spec.legs(leaf))}")
        else:
            if "legs" in info and simp:
                probs.append(f"leaf {i} needs preprocessing ({''.join(term)!r} -> {sorted(spec.legs(leaf))}) but none is recorded")
            if "legs" in info and not simp and list(info["legs"]) != term:
                probs.append(f"cached legs of leaf {i} {list(info['legs'])} not in the order of its term {term}")
    return probs


def recipe_problems(S):
    """Cached einsum_eq / tensordot_axes / tensordot_perm / can_dot equal what
    a tree with the same children and the same cached `inds` computes afresh;
    every compiled contractor was compiled from the current state (clauses 1,
    4 of wf).  Works on private copies of the snapshot."""
    probs = []
    has_recipe = any(k in info for info in S.info.values() for k in RECIPE_KEYS)
    if not has_recipe and not S.contraction_cores:
        return probs
    S2 = clone(S)
    for node, info in S2.info.items():
        for k in RECIPE_KEYS:
            info.pop(k, None)
    S2.contraction_cores = {}
    with warnings.catch_warnings():
        warnings.simplefilter("ignore")
        for node, info in S.info.items():
            if len(node) == 1:
                continue
            for k in RECIPE_KEYS:
                if k in info:
                    try:
                        fresh = getattr(S2, "get_" + k)(node)
                    except Exception as e:  # noqa: BLE001
                        probs.append(f"recomputing {k} of node {sorted(node)} raised {type(e).__name__}")
                        continue
                    if fresh != info[k]:
                        probs.append(f"cached {k} of node {sorted(node)} {info[k]!r} != fresh {fresh!r} (children inds changed)")
        if S.contraction_cores:
            from cotengra.contract import extract_contractions

            ncores = len(S.contraction_cores)
            for key, fn in S.contraction_cores.items():
                cs = getattr(fn, "contractions", None)
                if cs is None:
                    continue
                order, prefer_einsum = key[1], key[2]
                try:
                    # (S2 is not needed afterwards when there is a single core)
                    fresh = extract_contractions(S2 if ncores == 1 else clone(S2), order, prefer_einsum)
                except Exception as e:  # noqa: BLE001
                    probs.append(f"re-extracting contractions raised {type(e).__name__}")
                    continue
                if tuple(cs) != tuple(fresh):
                    probs.append(f"compiled contractor {key[1:3]+key[5:6]} is stale: differs from the current tree's contractions")
    return probs


def core_key_opts(key):
    """contraction_cores key -> contract kwargs (None if not replayable on
    polynomial arrays)."""
    autojit, order, prefer_einsum, strip_exponent, check_zero, implementation, progbar = key
    if autojit or strip_exponent or progbar or not (order is None or isinstance(order, str)):
        return None
    if not (implementation is None or isinstance(implementation, str)):
        return None
    kw = {}
    if order is not None:
        kw["order"] = order
    if prefer_einsum:
        kw["prefer_einsum"] = True
    if implementation is not None:
        kw["implementation"] = implementation
    return kw


# --------------------------------------------------------------------------
# executing histories
# --------------------------------------------------------------------------
class State:
    __slots__ = ("tree", "orig", "orig_fp", "proj")

    def __init__(self, tree):
        self.tree = tree
        self.orig = None  # the tree a copy() was taken from (must stay unaffected)
        self.orig_fp = None
        self.proj = {}  # index -> projected value requested so far

    def fork(self):
        tree, orig = clone((self.tree, self.orig))
        st = State(tree)
        st.orig, st.orig_fp, st.proj = orig, self.orig_fp, dict(self.proj)
        return st


class Env:
    """Per-case context: arrays, reference values."""

    def __init__(self, case, poly=True):
        self.case = case
        self.poly = poly
        inputs, sd = case["inputs"], case["size_dict"]
        if poly:
            symval.register_autoray()
            self.arrays = symval.make_arrays(inputs, sd)
        else:
            space = 1
            for v in sd.values():
                space *= v
            # cost properties never look at values: execute `contract` steps
            # only where that is cheap, otherwise compile only (see apply_op)
            self.exec_ok = space <= 100_000
            if self.exec_ok:
                rs = np.random.RandomState(1)
                self.arrays = [rs.uniform(0.5, 1.5, size=tuple(sd[ix] for ix in t)) for t in inputs]
            else:
                self.arrays = None
        self._ref = {}

    def reference(self, proj):
        key = tuple(sorted(proj.items()))
        if key not in self._ref:
            c = self.case
            self._ref[key] = symval.dense_einsum(c["inputs"], c["output"], self.arrays, c["size_dict"], fixed=dict(proj))
        return self._ref[key]


def build_tree(case):
    from cotengra.core import ContractionTree

    with warnings.catch_warnings():
        warnings.simplefilter("ignore")
        return ContractionTree.from_path(
            [tuple(t) for t in case["inputs"]], tuple(case["output"]), dict(case["size_dict"]),
            ssa_path=[tuple(p) for p in case["ssa_path"]],
        )


def _in_slicer(tb):
    """True when the innermost cotengra frame of the traceback lies in the
    slice finder (the search ran out of indices / cannot meet its target)."""
    last = None
    for fs in traceback.extract_tb(tb):
        fn = fs.filename.replace("\\", "/")
        if "/cotengra/" in fn:
            last = fn
    return last is not None and last.endswith("/cotengra/slicer.py")


SLICING_OPS = ("slice_", "slice_and_reconfigure_", "slice_and_reconfigure_forest_", "simulated_anneal_", "parallel_temper_")


def expected_applicable(st, op):
    """Precondition of the operation on the abstract state (harness side)."""
    name, kw = op[0], op[1]
    sliced = set(st.tree.sliced_inds)
    if name == "restore_ind_":
        return kw["ind"] in sliced
    if name == "unslice_rand_":
        return bool(sliced)
    if name == "remove_ind_":
        return kw["ind"] not in sliced
    return True


def apply_op(st, op, env):
    """Apply one operation to the state.  Returns (status, payload):
    ('ok', return value) | ('skipped', why) | ('error', description)."""
    name, kw = op[0], dict(op[1])
    t = st.tree
    applicable = expected_applicable(st, op)
    old_keys = list(t.sliced_inds)
    random.seed(12345)
    np.random.seed(12345)
    try:
        with warnings.catch_warnings():
            warnings.simplefilter("ignore")
            if name == "copy":
                new = t.copy()
                st.orig, st.orig_fp, st.tree = t, fingerprint(t), new
                ret = None
            elif name == "contract":
                if not env.poly and (t.multiplicity > 4 or not env.exec_ok):
                    # cost property: the values are not looked at, only the
                    # caches the call leaves behind (recipes, preprocessing,
                    # compiled contractor) matter -> compile exactly what
                    # contract() would compile, without executing every slice
                    ret = t.get_contractor(
                        order=kw.get("order"), prefer_einsum=kw.get("prefer_einsum", False), strip_exponent=False,
                        check_zero=False, implementation=kw.get("implementation"), autojit=False, progbar=False,
                    )
                else:
                    ret = t.contract(env.arrays, **kw)
            elif name == "print_contractions":
                with contextlib.redirect_stdout(io.StringIO()):
                    ret = t.print_contractions(**kw)
            else:
                ret = getattr(t, name)(**kw)
    except Exception as e:  # noqa: BLE001
        tb = e.__traceback__
        desc = f"{type(e).__name__}: {str(e)[:80]}"
        if not applicable:
            return "skipped", "precondition: " + desc
        if name in SLICING_OPS and isinstance(e, (RuntimeError, KeyError, ValueError)) and _in_slicer(tb):
            return "skipped", "slice search raised " + desc
        where = ""
        for fs in reversed(traceback.extract_tb(tb)):
            if "/cotengra/" in fs.filename.replace("\\", "/"):
                where = f" at {fs.filename.split('/cotengra/')[-1]}:{fs.name}"
                break
        return "error", f"{name} raised {type(e).__name__}{where}"
    # abstract effect on the sliced set
    t = st.tree
    new_keys = list(t.sliced_inds)
    eff = None
    if name == "remove_ind_":
        if applicable and set(new_keys) != set(old_keys) | {kw["ind"]}:
            eff = f"remove_ind_ left sliced set {sorted(new_keys)}"
        if applicable:
            st.proj[kw["ind"]] = kw.get("project")
    elif name == "restore_ind_":
        if applicable and set(new_keys) != set(old_keys) - {kw["ind"]}:
            eff = f"restore_ind_ left sliced set {sorted(new_keys)}"
    elif name == "unslice_all_":
        if new_keys:
            eff = f"unslice_all_ left sliced set {sorted(new_keys)}"
    elif name == "unslice_rand_":
        if applicable and not (len(new_keys) == len(old_keys) - 1 and set(new_keys) < set(old_keys)):
            eff = f"unslice_rand_ left sliced set {sorted(new_keys)} from {sorted(old_keys)}"
    elif name == "slice_" and not kw.get("reslice"):
        if not set(new_keys) >= set(old_keys):
            eff = "slice_ dropped a previously sliced index"
    elif name not in SLICING_OPS:
        if new_keys != old_keys:
            eff = f"{name} changed the sliced set {old_keys} -> {new_keys}"
    # operations documented to unslice (annealing / tempering with a slicing
    # target, reslice=True) may legitimately un-project an index and slice it
    # again; everything else must keep the requested projections
    may_unslice = (name in ("simulated_anneal_", "parallel_temper_") and "target_size" in kw) or bool(kw.get("reslice"))
    new_proj = {}
    for ix, v in st.proj.items():
        if v is None or ix not in t.sliced_inds:
            continue
        if may_unslice and t.sliced_inds[ix].project is None:
            continue
        new_proj[ix] = v
    st.proj = new_proj
    if eff:
        return "error", eff
    return "ok", ret


def value_problems(S, env, proj, opts_list=None):
    """tree.contract(poly arrays) == dense reference, value and shape."""
    probs = []
    ref = env.reference(proj)
    if opts_list is None:
        opts_list = [{}]
        for key in list(S.contraction_cores):
            kw = core_key_opts(key)
            if kw is not None and kw not in opts_list:
                opts_list.append(kw)
    for kw in opts_list:
        T = S if len(opts_list) == 1 else clone(S)
        try:
            with warnings.catch_warnings():
                warnings.simplefilter("ignore")
                out = T.contract(env.arrays, **kw)
        except Exception as e:  # noqa: BLE001
            probs.append(f"contract({_kwl(kw)}) raised {type(e).__name__}")
            continue
        if not symval.equal(out, ref):
            d = symval.first_diff(out, ref) or ""
            kind = "shape differs" if d.startswith("shape") else "value differs"
            probs.append(f"contract({_kwl(kw)}) {kind}")
    return probs


def _kwl(kw):
    return ",".join(f"{k}={v!r}" for k, v in sorted(kw.items()))


def orig_problems(st):
    if st.orig is None:
        return []
    if fingerprint(st.orig) != st.orig_fp:
        return ["the tree copy() was taken from changed after an operation on the copy (state shared)"]
    return []


def short(prob):
    """Deterministic short form of a problem string for signatures."""
    return prob if len(prob) <= 150 else prob[:147] + "..."


class Skip(Exception):
    pass


def run_history(case, prep, history, checker, env=None, stop_at_first=True):
    """Execute prep + history natively; run `checker(st, env, op, ret)` after
    every history step.  Returns (problems, n_steps_applied, n_skipped).
    problems: list of (step index, problem string)."""
    env = env or Env(case, poly=checker.poly)
    st = State(build_tree(case))
    for op in resolve_prep(prep, case):
        status, payload = apply_op(st, op, env)
        if status == "error":
            return [(-1, "preparation: " + payload)], 0, 0
    problems = []
    applied = skipped = 0
    for k, op in enumerate(history):
        pre = st.fork()
        status, payload = apply_op(st, op, env)
        if status == "skipped":
            st = pre
            skipped += 1
            continue
        applied += 1
        if status == "error":
            problems.append((k, payload))
            break
        ps = checker(st, env, op, payload)
        if ps:
            problems.extend((k, p) for p in ps)
            if stop_at_first:
                break
    return problems, applied, skipped


# --------------------------------------------------------------------------
# generic history driver (used by c02_bounded and c04_bounded)
# --------------------------------------------------------------------------
_CTX = {}  # set in the parent before forking: pid, module, checker, cases, deadline, ...


def signature(pid, case, prep, hist, prob):
    return f"{pid} history {hist_label(hist)} from state '{prep}' on {case_label(case)}: {short(prob)}"


def make_replay_case(case, prep, hist):
    return {"net": case_json(case), "prep": prep, "history": [[o[0], o[1]] for o in hist]}


def _prepare(case, prep, env):
    st = State(build_tree(case))
    for op in resolve_prep(PREPS[prep], case):
        status, payload = apply_op(st, op, env)
        if status != "ok":
            return None, f"preparation step {op_label(op)}: {status} {payload}"
    return st, None


def work_exhaustive(item):
    """All histories of length <= depth from one (case, prepared state) whose
    first operation is one of item[2] (menu positions)."""
    ci, prep, firsts, depth = item
    ctx = _CTX
    pid = ctx["pid"]
    case = ctx["cases"][ci]
    if time.time() > ctx["deadline"]:
        return {"n": 0, "timeout": 1, "id": [ci, prep]}
    chk = ctx["checker"]()
    env = Env(case, poly=chk.poly)
    menu = menu_for(case, ctx["with_write"])
    out = {"n": 0, "nt": [], "viol": [], "samples": [], "skipped": 0, "timeout": 0, "id": [ci, prep]}
    st0, err = _prepare(case, prep, env)
    if st0 is None:
        out["viol"].append((signature(pid, case, prep, [], err), make_replay_case(case, prep, [])))
        out["fires"] = chk.fires
        return out

    def rec(st, hist, idxs, d):
        choices = firsts if not hist else range(len(menu))
        for j in choices:
            if len(out["viol"]) >= 6:
                return
            if time.time() > ctx["deadline"]:
                out["timeout"] = 1
                return
            op = menu[j]
            st2 = st.fork()
            status, payload = apply_op(st2, op, env)
            out["n"] += 1
            h2 = hist + [op]
            if status == "skipped":
                out["skipped"] += 1
                continue
            if status == "error":
                out["viol"].append((signature(pid, case, prep, h2, payload), make_replay_case(case, prep, h2)))
                continue
            probs = chk(st2, env, op, payload)
            out["nt"].append(idxs + [j])
            if probs:
                out["viol"].append((signature(pid, case, prep, h2, probs[0]), make_replay_case(case, prep, h2)))
                continue
            if d + 1 < depth:
                rec(st2, h2, idxs + [j], d + 1)

    rec(st0, [], [], 0)
    if prep == "fresh" and 0 in firsts:
        out["samples"].append({"network": case_label(case), "state": prep,
                               "history": hist_label([menu[0], menu[min(5, len(menu) - 1)]])})
    out["fires"] = chk.fires
    return out


def work_sampled(item):
    """One seeded longer history on a larger random network."""
    k, lo, hi = item
    ctx = _CTX
    pid = ctx["pid"]
    if time.time() > ctx["deadline"]:
        return {"n": 0, "timeout": 1, "id": k}
    rng = random.Random(1000003 * ctx["seed"] + 17 * k + 5)
    case = random_case(rng, nmin=ctx["nmin"], nmax=ctx["nmax"], max_space=ctx["max_space"], sizes=ctx["sizes"])
    prep = rng.choice(ctx["preps"])
    length = rng.randint(lo, hi)
    hist = [sample_op(rng, case, ctx["with_write"]) for _ in range(length)]
    chk = ctx["checker"]()
    env = Env(case, poly=chk.poly)
    probs, applied, skipped = run_history(case, PREPS[prep], hist, chk, env=env)
    out = {"n": applied + skipped, "nt": [], "viol": [], "samples": [], "skipped": skipped, "timeout": 0,
           "fires": chk.fires, "id": k}
    if applied:
        out["nt"].append(["s"])
    if probs:
        kk, p = probs[0]
        h = hist[: kk + 1] if kk >= 0 else []
        out["viol"].append((signature(pid, case, prep, h, p), make_replay_case(case, prep, h)))
    if k < 2:
        out["samples"].append({"network": case_label(case), "state": prep, "history": hist_label(hist)})
    return out


def aggregate(rep, results, tag, viols, stats):
    for status, r in results:
        if status == "crash":
            rep.crash(f"{rep.pid} worker crashed ({tag}): {r[:600]}")
            continue
        stats["timeout"] += r.get("timeout", 0)
        if not r.get("n"):
            continue
        rep.count(r["n"])
        stats["steps"] += r["n"]
        stats["skipped"] += r.get("skipped", 0)
        for key in r.get("nt", ()):
            rep.nontrivial_case([tag, r.get("id")] + list(key))
        stats["samples"].extend(r.get("samples", ()))
        for k, v in r.get("fires", {}).items():
            rep.fired(k, v)
        viols.extend(r.get("viol", ()))


def run_histories(rep, tier, *, pid, module, checker, sizes, with_write, quick_budget_s, nsamp_quick, nsamp_thorough,
                  seed_value, pmap, deadline, preps=None):
    """Exhaustive length <= 2 (quick) / also <= 3 on a sub-base (thorough)
    histories over the base set x prepared states + seeded longer samples."""
    global _CTX
    quick = tier == "quick"
    preps = list(preps or PREP_ORDER)
    t_end = deadline(tier, quick_budget_s, 1500)
    cases = base_cases(seed_value, sizes=sizes)
    nfixed = len(fixed_menu(with_write))
    viols = []
    stats = {"steps": 0, "skipped": 0, "timeout": 0, "samples": []}
    base_ctx = {"pid": pid, "checker": checker, "with_write": with_write, "sizes": sizes, "seed": seed_value, "cases": cases,
                "preps": preps}

    items = []
    for ci, case in enumerate(cases):
        m = len(menu_for(case, with_write))
        for prep in preps:
            # two work items per (pair, state)
            items.append((ci, prep, list(range(0, m, 2)), 2))
            items.append((ci, prep, list(range(1, m, 2)), 2))
    items.sort(key=lambda it: (-len(menu_for(cases[it[0]], with_write)), it[0], it[1], it[2][0]))  # heavy first
    _CTX = dict(base_ctx, deadline=t_end)
    n0 = rep.evaluations
    aggregate(rep, list(pmap(work_exhaustive, items, chunk=1)), "exh2", viols, stats)
    t_out = stats["timeout"]
    rep.scope(
        f"all histories of length <= 2 over the menu x {len(cases)} (network, tree) pairs x {len(preps)} prepared cache states {preps}",
        rep.evaluations - n0, exhaustive=(t_out == 0),
        bound=f"3-5 tensors, <= {max(len(all_indices(c)) for c in cases)} indices, sizes {'1-3' if sizes == 'small' else 'distinct primes'}; menu = {nfixed} fixed ops + 3 per index"
        + ("" if not t_out else f"; {t_out} work items cut by the time budget"),
    )

    if not quick:
        sub = [ci for ci in range(len(cases)) if ci % 4 == 0]
        preps3 = ["fresh", "sorted+contracted", "annealed"]
        items = []
        for ci in sub:
            m = len(menu_for(cases[ci], with_write))
            for prep in preps3:
                for i1 in range(m):
                    items.append((ci, prep, [i1], 3))
        stats["timeout"] = 0
        n0 = rep.evaluations
        aggregate(rep, list(pmap(work_exhaustive, items, chunk=1)), "exh3", viols, stats)
        rep.scope(
            f"all histories of length <= 3 over the menu x {len(sub)} (network, tree) pairs x {len(preps3)} prepared states",
            rep.evaluations - n0, exhaustive=(stats["timeout"] == 0),
            bound="every 4th pair of the base set" + ("" if not stats["timeout"] else f"; {stats['timeout']} work items cut by the time budget"),
        )

    nsamp = nsamp_quick if quick else nsamp_thorough
    max_space = 1024 if quick else 4096
    _CTX = dict(base_ctx, deadline=t_end + (15 if quick else 120), nmin=6, nmax=10, max_space=max_space)
    stats["timeout"] = 0
    n0 = rep.evaluations
    aggregate(rep, list(pmap(work_sampled, [(k, 3, 6) for k in range(nsamp)], chunk=2)), "samp", viols, stats)
    rep.scope(
        f"seeded sample: {nsamp} histories of length 3-6 on random networks (cotengra.utils.rand_equation, 6-10 tensors), random tree, random prepared state, parameters from the full menus",
        rep.evaluations - n0, exhaustive=False,
        bound=f"sample of {nsamp}; index space <= {max_space} assignments" + ("" if not stats["timeout"] else f"; {stats['timeout']} cut by the time budget"),
    )

    for s in sorted(stats["samples"], key=lambda s: (s["network"], s["history"]))[:4]:
        rep.sample(s)
    rep.extra["history_steps_executed"] = rep.extra.get("history_steps_executed", 0) + stats["steps"]
    rep.extra["steps_skipped_not_applicable"] = rep.extra.get("steps_skipped_not_applicable", 0) + stats["skipped"]
    return viols


def report_violations(rep, module, viols, limit=5):
    """Distinct signatures, shortest cases first, round-robin over the kinds
    of case (history / slice_unslice / search / slice / costs), at most
    `limit` in total."""
    viols = sorted(viols, key=lambda v: (len(v[1].get("history", ())), len(v[0]), v[0]))
    by_kind = {}
    seen = set()
    for sig, case in viols:
        if sig in seen:
            continue
        seen.add(sig)
        by_kind.setdefault(case.get("kind", "history"), []).append((sig, case))
    n = 0
    while n < limit and any(by_kind.values()):
        for kind in sorted(by_kind):
            if by_kind[kind] and n < limit:
                sig, case = by_kind[kind].pop(0)
                rep.violation(sig, {"module": module, "case": case})
                n += 1
    rep.extra["violating_cases_found"] = len(viols)


def replay_history(case, checker):
    net = case_from_json(case["net"])
    prep = case["prep"]
    hist = [[o[0], dict(o[1])] for o in case["history"]]
    chk = checker()
    probs, applied, skipped = run_history(net, PREPS[prep], hist, chk)
    if probs:
        k, p = probs[0]
        return False, f"after step {k} of {hist_label(hist)} from state '{prep}' on {case_label(net)}: {p}"
    return True, f"history {hist_label(hist)} from state '{prep}' on {case_label(net)} held ({applied} steps applied, {skipped} skipped)"
