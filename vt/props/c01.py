"""C01 driver (see DESIGN.md section 3, C01)."""
from .generic import run_property, replay_property


def run(tier):
    return run_property("C01", tier)


def replay(path):
    return replay_property("C01", path)
