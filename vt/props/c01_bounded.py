"""C01 bounded driver: contracting with any tree gives the einsum value, in
the declared axis order (DESIGN.md section 3, C01, [T2] bullet).

For every network of complete small scopes (and seeded samples of the next
ones) x ALL binary trees x size assignments x contraction options, the REAL
``ContractionTree.contract`` is executed on polynomial-valued arrays
(``vt.symval``) and compared, as polynomials (= for all array values of that
shape), with ``symval.dense_einsum`` -- a sum over all index assignments that
shares no code with cotengra or numpy.einsum.  The run-time postconditions of
the per-node recipe functions are evaluated on the same tree afterwards.
"""

from __future__ import annotations

import hashlib
import itertools
import json
import random
import time
import warnings

from ..common import Report, pmap, seed, deadline
from .. import scope, symval

MODULE = "vt.props.c01_bounded"

SORTS = (None, "flops", "size", "root", "leaves")
IMPLS = (None, "cotengra", "autoray")
PES = (False, True)
NONPLAIN = ("repeated", "scalar", "hyper", "single-tensor-index", "disconnected")

_DEADLINE = None  # set in the parent before forking


# --------------------------------------------------------------------------
# helpers shared by the worker and by replay
# --------------------------------------------------------------------------
def eq_str(inputs, output):
    return ",".join("".join(t) for t in inputs) + "->" + "".join(output)


def order_to_json(order):
    if order is None or isinstance(order, str):
        return order
    return {"rank": [[sorted(k), v] for k, v in sorted(order.rank.items(), key=lambda kv: sorted(kv[0]))]}


def order_from_json(o):
    if o is None or isinstance(o, str):
        return o
    return scope._RankOrder({frozenset(k): v for k, v in o["rank"]})


def order_label(order):
    if order is None or isinstance(order, str):
        return repr(order)
    vals = [v for _k, v in sorted(order.rank.items(), key=lambda kv: sorted(kv[0]))]
    # the ranking only matters through the induced ordering of the nodes
    srt = sorted(range(len(vals)), key=lambda i: (vals[i], i))
    if len(set(vals)) <= 1:
        return "const"
    return "rank" + "".join(map(str, srt))


def spec_legs(inputs, output, node, removed=()):
    """Indices that must survive on the tensor for `node` (a set of input
    positions), written from the statement: an index on a tensor of the node
    survives iff it is an output index or also sits on a tensor outside the
    node."""
    inside = set()
    for i in node:
        inside.update(inputs[i])
    outside = set(output)
    for j, t in enumerate(inputs):
        if j not in node:
            outside.update(t)
    return {ix for ix in inside if ix in outside and ix not in removed}


def check_recipes(tree, inputs, output, fires):
    """Run-time postconditions of get_inds / get_tensordot_axes /
    get_tensordot_perm / get_einsum_eq / get_can_dot on a (contracted) tree.
    Returns None or a message."""
    removed = set(tree.sliced_inds)
    want_root = "".join(ix for ix in output if ix not in removed)
    if tree.get_inds(tree.root) != want_root:
        return f"root inds {tree.get_inds(tree.root)!r} != declared output {want_root!r}"
    fires["root-inds-are-output"] = fires.get("root-inds-are-output", 0) + 1
    for p, l, r in tree.traverse():
        for nd in (p, l, r):
            inds = tree.get_inds(nd)
            legs = tree.get_legs(nd)
            if sorted(inds) != sorted(legs) or len(set(inds)) != len(inds):
                return f"get_inds({sorted(nd)})={inds!r} is not a permutation of legs {list(legs)!r}"
            want = spec_legs(inputs, output, nd, removed)
            if set(legs) != want:
                return f"legs({sorted(nd)})={sorted(legs)} but surviving indices are {sorted(want)}"
            fires["inds-permutation-of-legs"] = fires.get("inds-permutation-of-legs", 0) + 1
        l_inds, r_inds, p_inds = map(tree.get_inds, (l, r, p))
        shared = set(l_inds) & set(r_inds)
        can_dot = tree.get_can_dot(p)
        # tensordot is only legal when every shared index is summed and nothing else happens
        # (one direction only: declining tensordot is a performance matter, not a value matter)
        if can_dot and set(p_inds) != (set(l_inds) ^ set(r_inds)):
            return f"can_dot({sorted(p)}) is True for {l_inds},{r_inds}->{p_inds}"
        fires["can_dot"] = fires.get("can_dot", 0) + 1
        if can_dot:
            la, ra = tree.get_tensordot_axes(p)
            if len(la) != len(ra) or len(set(la)) != len(la) or len(set(ra)) != len(ra):
                return f"tensordot_axes({sorted(p)})={(la, ra)} malformed"
            for i, j in zip(la, ra):
                if not (0 <= i < len(l_inds) and 0 <= j < len(r_inds)) or l_inds[i] != r_inds[j]:
                    return f"tensordot_axes({sorted(p)})={(la, ra)} pair unequal labels in {l_inds},{r_inds}"
            if {l_inds[i] for i in la} != shared:
                return f"tensordot_axes({sorted(p)})={(la, ra)} do not cover shared {sorted(shared)} of {l_inds},{r_inds}"
            fires["tensordot-axes-pair-equal-labels"] = fires.get("tensordot-axes-pair-equal-labels", 0) + 1
            perm = tree.get_tensordot_perm(p)
            if perm is not None:
                if sorted(perm) != list(range(len(p_inds))):
                    return f"tensordot_perm({sorted(p)})={perm} is not a permutation of range({len(p_inds)})"
                td = [ix for ix in l_inds if ix not in shared] + [ix for ix in r_inds if ix not in shared]
                if "".join(td[k] for k in perm) != p_inds:
                    return f"tensordot_perm({sorted(p)})={perm} does not map {''.join(td)} to {p_inds}"
            else:
                td = [ix for ix in l_inds if ix not in shared] + [ix for ix in r_inds if ix not in shared]
                if "".join(td) != p_inds:
                    return f"tensordot_perm({sorted(p)}) is None but tensordot gives {''.join(td)} not {p_inds}"
            fires["tensordot-perm-is-permutation"] = fires.get("tensordot-perm-is-permutation", 0) + 1
        eq = tree.get_einsum_eq(p)
        raw = f"{l_inds},{r_inds}->{p_inds}"
        if len(eq) != len(raw):
            return f"einsum_eq({sorted(p)})={eq!r} for {raw!r}"
        fw, bw = {}, {}
        for a, b in zip(raw, eq):
            if a in ",->" or b in ",->":
                if a != b:
                    return f"einsum_eq({sorted(p)})={eq!r} for {raw!r}"
                continue
            if fw.setdefault(a, b) != b or bw.setdefault(b, a) != a:
                return f"einsum_eq({sorted(p)})={eq!r} is not an injective relabelling of {raw!r}"
        fires["einsum-eq-injective"] = fires.get("einsum-eq-injective", 0) + 1
    return None


def run_case(inputs, output, sd, ssa, sort, order, pe, impl, arrays=None, ref=None, fires=None):
    """Execute one case against the importable cotengra.  Returns None if the
    contract held, else a message."""
    from cotengra import ContractionTree

    if fires is None:
        fires = {}
    if arrays is None:
        arrays = symval.make_arrays(inputs, sd)
    if ref is None:
        ref = symval.dense_einsum(inputs, output, arrays, sd)
    with warnings.catch_warnings():
        warnings.simplefilter("ignore")
        try:
            tree = ContractionTree.from_path(inputs, output, sd, ssa_path=ssa)
            if sort is not None:
                tree.sort_contraction_indices(priority=sort)
            res = tree.contract(arrays, order=order, prefer_einsum=pe, implementation=impl)
        except Exception as e:  # noqa: BLE001 - the real code raising is a violation of C01
            return f"raised {type(e).__name__}: {str(e)[:120]}"
        fires["contract==dense_einsum"] = fires.get("contract==dense_einsum", 0) + 1
        want_shape = tuple(sd[ix] for ix in output)
        got_shape = symval.as_array(res).shape
        if got_shape != want_shape:
            return f"result shape {got_shape} != {want_shape}"
        if not symval.equal(res, ref):
            return "value differs: " + str(symval.first_diff(res, ref))[:200]
        try:
            return check_recipes(tree, inputs, output, fires)
        except Exception as e:  # noqa: BLE001
            return f"recipe accessors raised {type(e).__name__}: {str(e)[:120]}"


def make_case(inputs, output, sd, ssa, sort, order, pe, impl):
    return {
        "inputs": [list(t) for t in inputs],
        "output": list(output),
        "sizes": dict(sd),
        "ssa_path": [list(p) for p in ssa],
        "sort": sort,
        "order": order_to_json(order),
        "prefer_einsum": pe,
        "implementation": impl,
    }


def signature(case, msg):
    kind = msg.split(":")[0] if msg.startswith(("value differs", "raised")) else msg[:90]
    o = case["order"]
    o = o if (o is None or isinstance(o, str)) else "callable" + json.dumps([v for _k, v in o["rank"]])
    return (
        f"C01 contract(order={o!r}, prefer_einsum={case['prefer_einsum']}, implementation={case['implementation']!r}, "
        f"sort={case['sort']!r}) on {eq_str(case['inputs'], case['output'])} sizes "
        f"{''.join(f'{k}{v}' for k, v in sorted(case['sizes'].items()))} tree {json.dumps(case['ssa_path'])}: {kind}"
    )


def replay(case):
    if "wide" in case or case.get("annealed"):
        # the wide-network / refined-tree families are regenerated from the recorded seed and re-run as a whole
        class _R:
            def __init__(self):
                self.msg = None

            def nontrivial_case(self, *_a):
                pass

            def count(self, *_a):
                pass

            def fired(self, *_a):
                pass

            def scope(self, *_a, **_k):
                pass

            def violation(self, sig, _body):
                self.msg = sig

        r = _R()
        if case.get("annealed"):
            run_annealed(r, "quick", random.Random(f"{case.get('seed', 0)}|C01|annealed"))
            if r.msg is None:
                return True, "every refined tree contracts to the einsum value"
            return False, r.msg
        run_wide(r, "quick", random.Random(f"{case.get('seed', 0)}|C01|wide"))
        if r.msg is None:
            return True, "every wide-network contraction equals the matrix-chain product"
        return False, r.msg
    inputs = tuple(tuple(t) for t in case["inputs"])
    output = tuple(case["output"])
    sd = {k: int(v) for k, v in case["sizes"].items()}
    ssa = tuple(tuple(p) for p in case["ssa_path"])
    symval.register_autoray()
    msg = run_case(
        inputs, output, sd, ssa, case.get("sort"), order_from_json(case.get("order")),
        bool(case.get("prefer_einsum")), case.get("implementation"),
    )
    if msg is None:
        return True, "contract(arrays) equals the dense reference and all recipe postconditions hold"
    return False, f"{eq_str(inputs, output)} tree {list(ssa)}: {msg}"


# --------------------------------------------------------------------------
# worker
# --------------------------------------------------------------------------
def _digest(s):
    return hashlib.blake2b(s.encode(), digest_size=8).digest()


def _work(item):
    """item = (scope_name, idx, inputs, output, plan).  plan keys:
    trees: 'all' | int (random sample count), sizes12: limit (None = all),
    sizes23: count, opts: 'full' | int (rotated options per (net,tree,sizes))."""
    name, idx, inputs, output, plan = item
    if _DEADLINE is not None and time.time() > _DEADLINE:
        return {"skipped": 1, "name": name}
    symval.register_autoray()
    rng = random.Random(f"{seed()}|C01|{name}|{idx}")
    n = len(inputs)
    feats = scope.features(inputs, output)
    featured = any(f in feats for f in NONPLAIN)
    eq = eq_str(inputs, output)

    # size assignments
    sds = []
    all2 = {s: 2 for t in inputs for s in t}
    for s in output:
        all2.setdefault(s, 2)
    sds.append(all2)
    for sd in scope.size_dicts_small(inputs, output, (1, 2), plan.get("sizes12"), rng):
        if sd != all2:
            sds.append(sd)
    if plan.get("sizes12") is not None:
        sds = sds[: max(1, plan["sizes12"])]
    if plan.get("sizes23", 0):
        for sd in scope.size_dicts_small(inputs, output, (2, 3), plan["sizes23"], rng):
            if sd not in sds:
                sds.append(sd)

    # trees
    if plan["trees"] == "all":
        trees = list(scope.all_trees(n))
    else:
        trees = sorted({scope.random_tree_ssa(n, rng) for _ in range(plan["trees"])})

    from cotengra import ContractionTree

    n_eval = 0
    keys = []
    viols = []
    samples = []
    fires = {}
    ncases = 0
    refs = []
    for sd in sds:
        arrays = symval.make_arrays(inputs, sd)
        refs.append((sd, arrays, symval.dense_einsum(inputs, output, arrays, sd)))

    for ti, ssa in enumerate(trees):
        with warnings.catch_warnings():
            warnings.simplefilter("ignore")
            t0 = ContractionTree.from_path(inputs, output, all2, ssa_path=ssa)
        if n == 2:
            orders = [None, "dfs", scope.orders_for(t0, rng, n_random=1)[2]]
        else:
            orders = scope.orders_for(t0, rng)
        allopts = list(itertools.product(SORTS, range(len(orders)), PES, IMPLS))
        for si, (sd, arrays, ref) in enumerate(refs):
            if plan["opts"] == "full":
                chosen = allopts
            else:
                base = idx * 7 + ti * 13 + si * 29
                chosen = [allopts[0]] + [allopts[(base + j * 37) % len(allopts)] for j in range(plan["opts"])]
            seen = set()
            for opt in chosen:
                if opt in seen:
                    continue
                seen.add(opt)
                sort, oi, pe, impl = opt
                order = orders[oi]
                msg = run_case(inputs, output, sd, ssa, sort, order, pe, impl, arrays, ref, fires)
                n_eval += 1
                nondefault = opt != allopts[0]
                if featured or nondefault:
                    keys.append(_digest(f"{eq}|{ssa}|{sort}|{order_label(order)}|{pe}|{impl}"))
                if msg is not None and len(viols) < 2:
                    case = make_case(inputs, output, sd, ssa, sort, order, pe, impl)
                    viols.append((signature(case, msg), case))
                elif msg is None and idx % 97 == 5 and len(samples) < 1 and nondefault and featured:
                    samples.append(make_case(inputs, output, sd, ssa, sort, order, pe, impl))
            ncases += 1
    return {
        "name": name, "n": n_eval, "keys": b"".join(keys), "viols": viols, "samples": samples,
        "fires": fires, "nets": 1, "cases": ncases,
    }


# --------------------------------------------------------------------------
# driver
# --------------------------------------------------------------------------
def _plans(tier, rng):
    """[(scope name, iterable of (inputs, output), exhaustive_networks, plan, bound text)]"""
    def ge2(nets):
        return [(i, o) for (i, o) in nets if len(i) >= 2]

    out = []
    if tier == "quick":
        out.append(("Net(2,3,3) x all trees x sizes{1,2}(<=3) x FULL option cross product",
                    ge2(scope.networks(2, 3, 3)), True,
                    {"trees": "all", "sizes12": 3, "opts": "full"},
                    "all 3108 networks; 1 tree; all-2 plus <=2 more assignments from {1,2}; 5 sorts x 3 orders x 2 x 3 options"))
        out.append(("Net(3,3,2) x all trees x sizes{1,2}(<=2)+{2,3}(1) x rotated options",
                    ge2(scope.networks(3, 3, 2)), True,
                    {"trees": "all", "sizes12": 2, "sizes23": 1, "opts": 5},
                    "all 4106 networks; all 3 trees; default + 5 rotated of the 150 option combinations per (net,tree,sizes)"))
        out.append(("Net(3,3,3) sample x all trees", scope.sample_networks(3, 3, 3, 1500, rng), False,
                    {"trees": "all", "sizes12": 2, "sizes23": 1, "opts": 4}, "seeded sample of 1500 of 152423 networks"))
        out.append(("Net(4,4,2) sample x all trees", scope.sample_networks(4, 4, 2, 500, rng), False,
                    {"trees": "all", "sizes12": 2, "sizes23": 1, "opts": 2}, "seeded sample of 500 of 318811 networks; all 15 trees"))
        out.append(("Net(4,3,3) sample x all trees", scope.sample_networks(4, 3, 3, 300, rng), False,
                    {"trees": "all", "sizes12": 2, "opts": 2}, "seeded sample of 300 networks; all 15 trees"))
        out.append(("Net(5,5,3) sample x all trees", scope.sample_networks(5, 5, 3, 40, rng), False,
                    {"trees": "all", "sizes12": 1, "opts": 1}, "seeded sample of 40 networks; all 105 trees"))
        out.append(("Net(6,5,3) sample x sampled trees", scope.sample_networks(6, 5, 3, 40, rng), False,
                    {"trees": 40, "sizes12": 1, "opts": 2}, "seeded sample of 40 networks; 40 random of 945 trees each"))
    else:
        # order matters under a time limit: complete small scopes, then the samples of larger networks,
        # then the big complete scopes "as far as time allows"
        out.append(("Net(2,3,3) x all trees x all sizes{1,2} x FULL option cross product",
                    ge2(scope.networks(2, 3, 3)), True,
                    {"trees": "all", "sizes12": None, "sizes23": 2, "opts": "full"}, "all 3108 networks"))
        out.append(("Net(3,3,2) x all trees x sizes{1,2}(<=2)+{2,3}(1) x FULL option cross product",
                    ge2(scope.networks(3, 3, 2)), True,
                    {"trees": "all", "sizes12": 2, "sizes23": 1, "opts": "full"},
                    "all 4106 networks; all 3 trees; all-2 + one more {1,2} assignment + one {2,3}; 150 option combinations"))
        out.append(("Net(4,4,3) sample x all trees", scope.sample_networks(4, 4, 3, 4000, rng), False,
                    {"trees": "all", "sizes12": 2, "sizes23": 1, "opts": 3}, "seeded sample of 4000 networks"))
        out.append(("Net(5,5,3) sample x all trees", scope.sample_networks(5, 5, 3, 600, rng), False,
                    {"trees": "all", "sizes12": 1, "sizes23": 1, "opts": 2}, "seeded sample of 600 networks; all 105 trees"))
        out.append(("Net(6,5,3) sample x sampled trees", scope.sample_networks(6, 5, 3, 600, rng), False,
                    {"trees": 100, "sizes12": 1, "opts": 2}, "seeded sample of 600 networks; 100 random of 945 trees each"))
        out.append(("Net(3,3,3) x all trees x rotated options", ge2(scope.networks(3, 3, 3)), True,
                    {"trees": "all", "sizes12": 2, "sizes23": 1, "opts": 3}, "all 152423 networks; all 3 trees"))
        out.append(("Net(4,3,2) x all trees x rotated options", ge2(scope.networks(4, 3, 2)), True,
                    {"trees": "all", "sizes12": 2, "opts": 2}, "all 63361 networks; all 15 trees"))
    return out


# --------------------------------------------------------------------------
# wide networks: more than 52 distinct indices (extended symbols beyond a-zA-Z)
# --------------------------------------------------------------------------
def _wide_networks():
    import cotengra as ctg

    sym = ctg.utils.get_symbol
    out = []
    for L in (30, 58):
        plain = [(sym(k), sym(k + 1)) for k in range(L)]
        out.append((f"chain{L}", plain, (sym(0), sym(L)), None))
        # a hyper index shared by every third tensor and kept in the output
        h = sym(L + 5)
        hyper = [((h,) + t if k % 3 == 0 else t) for k, t in enumerate(plain)]
        out.append((f"hyperchain{L}", hyper, (h, sym(0), sym(L)), h))
    return out


def _wide_trees(L, rng):
    left = []
    cur = 0
    for k in range(1, L):
        left.append((cur, k))
        cur = L + k - 1
    right = []
    cur = L - 1
    for k in range(L - 2, -1, -1):
        right.append((k, cur))
        cur = L + (L - 2 - k)
    bal, ids, nxt = [], list(range(L)), L
    while len(ids) > 1:
        new = []
        for a in range(0, len(ids) - 1, 2):
            bal.append((ids[a], ids[a + 1]))
            new.append(nxt)
            nxt += 1
        if len(ids) % 2:
            new.append(ids[-1])
        ids = new
    # (only trees whose intermediates stay small: a random tree on a chain builds huge outer products)
    mid, cur = [], None
    half = L // 2
    seq = [half]
    for d in range(1, L):
        for k in (half - d, half + d):
            if 0 <= k < L and len(seq) < L:
                seq.append(k)
    cur, nxt = seq[0], L
    for k in seq[1:]:
        mid.append((cur, k))
        cur, nxt = nxt, nxt + 1
    return [("left-to-right", left), ("right-to-left", right), ("balanced", bal), ("middle-out", mid)]


def _wide_reference(inputs, output, mats, h):
    """independent evaluation: product of the 2x2 matrices (for each value of the hyper index)"""
    def chain(hval):
        acc = None
        for t, m in zip(inputs, mats):
            mm = m[hval] if (h is not None and t[0] == h) else m
            mm = [[mm[a][b] for b in range(2)] for a in range(2)]
            acc = mm if acc is None else [[sum(acc[a][c] * mm[c][b] for c in range(2)) for b in range(2)] for a in range(2)]
        return acc

    if h is None:
        return chain(0)
    return [chain(0), chain(1)]


def run_wide(rep, tier, rng):
    """real tree.contract on networks with 59-64 distinct indices (integer entries, exact) against a matrix-chain product"""
    import numpy as np
    from cotengra import ContractionTree

    n_eval = 0
    opts = [(False, None), (True, None), (False, "cotengra"), (True, "autoray"), (False, "autoray")]
    for name, inputs, output, h in _wide_networks():
        L = len(inputs)
        sd = {ix: 2 for t in inputs for ix in t}
        mats = []
        for t in inputs:
            if h is not None and t[0] == h:
                mats.append([[[rng.choice((-1, 0, 1, 2)) for _ in range(2)] for _ in range(2)] for _ in range(2)])
            else:
                mats.append([[rng.choice((-1, 0, 1, 2)) for _ in range(2)] for _ in range(2)])
        arrays = [np.array(m, dtype=object) for m in mats]
        want = np.array(_wide_reference(inputs, output, mats, h), dtype=object)
        for tname, ssa in _wide_trees(L, rng):
            for pe, impl in opts:
                for sort in (None, "flops"):
                    label = f"C01 wide network {name} ({len(sd)} indices) tree={tname} prefer_einsum={pe} implementation={impl!r} sort={sort!r}"
                    with warnings.catch_warnings():
                        warnings.simplefilter("ignore")
                        try:
                            tree = ContractionTree.from_path(inputs, output, sd, ssa_path=ssa)
                            if sort:
                                tree.sort_contraction_indices(priority=sort)
                            got = np.asarray(tree.contract(arrays, prefer_einsum=pe, implementation=impl), dtype=object)
                            ok = got.shape == want.shape and bool((got == want).all())
                            msg = None if ok else ("wrong shape %s" % (got.shape,) if got.shape != want.shape else "wrong values")
                        except Exception as e:  # noqa: BLE001
                            msg = f"raised {type(e).__name__}: {str(e)[:100]}"
                    n_eval += 1
                    rep.nontrivial_case(_digest(label))
                    if msg is not None:
                        rep.violation(label + ": " + msg, {"module": MODULE, "case": {"wide": name, "tree": tname, "prefer_einsum": pe, "implementation": impl, "sort": sort, "seed": seed()}})
                        return n_eval
    rep.count(n_eval)
    rep.fired("wide networks: contract == matrix-chain product", n_eval)
    rep.scope("wide networks (> 52 distinct indices)", n_eval, False,
              bound="matrix chains of 30 and 58 tensors (31-64 distinct indices, extended symbols), plain and with a hyper index kept in the output; 4 trees x 5 option sets x 2 index orders; integer entries, exact comparison with an independent matrix-chain product")
    return n_eval


def run_annealed(rep, tier, rng):
    """real tree.contract on trees refined by simulated annealing / subtree reconfiguration (the transformations that hand
    precomputed legs to contract_nodes_pair) against numpy.einsum, exact integer entries, outputs with >= 2 indices"""
    import numpy as np
    import cotengra as ctg
    from cotengra import ContractionTree

    n_eval = 0
    count = 40 if tier == "quick" else 400
    for k in range(count):
        n = rng.randint(4, 7)
        con = ctg.utils.rand_equation(n, 3, n_out=rng.randint(2, 4), n_hyper_in=rng.randint(0, 1), n_hyper_out=rng.randint(0, 1), d_min=2, d_max=3, seed=rng.randint(0, 10**6))
        inputs, output, sd = con.inputs, tuple(con.output), dict(con.size_dict)
        output = tuple(rng.sample(output, len(output)))  # a declared order that is not the order of first appearance
        ssa = scope.random_tree_ssa(n, rng)
        how = rng.choice(("anneal", "anneal", "reconf"))
        sseed = rng.randint(0, 10**6)
        pe = rng.random() < 0.3
        label = f"C01 {how}ed tree (seed {sseed}) of {','.join(''.join(t) for t in inputs)}->{''.join(output)} from tree {list(ssa)} prefer_einsum={pe}"
        nrng = np.random.default_rng(sseed)
        arrays = [nrng.integers(-3, 4, size=[sd[ix] for ix in t]) for t in inputs]
        with warnings.catch_warnings():
            warnings.simplefilter("ignore")
            try:
                tree = ContractionTree.from_path(inputs, output, sd, ssa_path=ssa)
                if how == "anneal":
                    tree.simulated_anneal_(tsteps=6, numiter=8, seed=sseed)
                else:
                    tree.subtree_reconfigure_(subtree_size=4, seed=sseed)
                got = np.asarray(tree.contract(arrays, prefer_einsum=pe))
                syms = {ix: chr(97 + i) for i, ix in enumerate(sd)}
                eq = ",".join("".join(syms[ix] for ix in t) for t in inputs) + "->" + "".join(syms[ix] for ix in output)
                want = np.einsum(eq, *arrays)
                msg = None
                if got.shape != want.shape:
                    msg = f"result has shape {got.shape}, the declared output has shape {want.shape}"
                elif not np.array_equal(got, want):
                    msg = "value differs from numpy.einsum (axes not in the declared order?)"
            except Exception as e:  # noqa: BLE001
                msg = f"raised {type(e).__name__}: {str(e)[:100]}"
        n_eval += 1
        rep.nontrivial_case(_digest(label))
        if msg is not None:
            rep.violation(label + ": " + msg, {"module": MODULE, "case": {"annealed": True, "seed": seed()}})
            break
    rep.count(n_eval)
    rep.fired("refined trees: contract == numpy.einsum", n_eval)
    rep.scope("trees refined by simulated annealing / subtree reconfiguration", n_eval, False,
              bound=f"{count} random networks of 4-7 tensors with 2-4 output indices in shuffled order, integer entries, exact comparison with numpy.einsum")
    return n_eval


def run_bounded(rep: Report, tier: str) -> None:
    global _DEADLINE
    rng = random.Random(f"{seed()}|C01|plans")
    _DEADLINE = deadline(tier, 300, 25 * 60)  # safety net only: the quick workload is sized for ~25 s on 16 idle cores
    rep.rule = (
        "case = (network, binary tree, size assignment, option tuple (sort priority, traversal order, prefer_einsum, "
        "implementation)); one evaluation = one real tree.contract on polynomial arrays compared with the dense reference. "
        "A case is non-trivial iff the network (>= 2 tensors) has at least one of the features repeated index / scalar "
        "tensor / hyper index / single-tensor index / disconnected, or a non-default option is used; distinct = distinct "
        "(network, tree, option) keys (size assignment not part of the key; callable orders identified by the node "
        "ranking they induce)."
    )
    items = []
    meta = {}
    for name, nets, exh, plan, bound in _plans(tier, rng):
        nets = [(i, o) for (i, o) in nets if len(i) >= 2]
        meta[name] = {"nets": len(nets), "exh": exh, "bound": bound, "done": 0, "cases": 0, "evals": 0, "skipped": 0}
        for idx, (i, o) in enumerate(nets):
            items.append((name, idx, i, o, plan))
    if tier == "quick":
        items.reverse()  # large-network scopes first, the many cheap ones fill the tail (load balance);
        # in thorough the complete small scopes stay first so that a time limit can only cut the big ones
    viols = []
    all_samples = []
    for status, r in pmap(_work, items, chunk=8):
        if status == "crash":
            rep.crash("C01 worker: " + r[:1500])
            continue
        m = meta[r["name"]]
        if r.get("skipped"):
            m["skipped"] += 1
            continue
        m["done"] += 1
        m["cases"] += r["cases"]
        m["evals"] += r["n"]
        rep.count(r["n"])
        kb = r["keys"]
        for k in range(0, len(kb), 8):
            rep.nontrivial_case(kb[k : k + 8])
        for nm, c in r["fires"].items():
            rep.fired(nm, c)
        viols.extend(r["viols"])
        all_samples.extend(r["samples"])
    # samples: deterministic choice (results arrive in scheduling order)
    all_samples.sort(key=lambda c: (-len(c["inputs"]), json.dumps(c, sort_keys=True)))
    for smp in all_samples[:: max(1, len(all_samples) // 6)][:6]:
        rep.sample(smp)
    for name, m in meta.items():
        rep.scope(
            name, m["evals"], m["exh"] and m["skipped"] == 0,
            bound=m["bound"] + f"; networks done {m['done']}/{m['nets']}, (net,tree,sizes) cases {m['cases']}"
            + (f"; {m['skipped']} networks skipped at the time limit" if m["skipped"] else ""),
        )
    # report the smallest few violations, deterministically
    viols.sort(key=lambda v: (len(v[1]["inputs"]), sum(map(len, v[1]["inputs"])), len(v[0]), v[0]))
    reported = 0
    seen = set()
    for sig, case in viols:
        if sig in seen:
            continue
        seen.add(sig)
        rep.violation(sig, {"module": MODULE, "case": case})
        reported += 1
        if reported >= 5:
            break
    rep.extra["c01_violating_cases_seen"] = len(viols)
    if not viols:
        run_wide(rep, tier, random.Random(f"{seed()}|C01|wide"))
        run_annealed(rep, tier, random.Random(f"{seed()}|C01|annealed"))
    rep.explanation += (
        "C01 bounded-symbolic: the real ContractionTree.from_path(...).contract(arrays, order, prefer_einsum, implementation) "
        "(after sort_contraction_indices(priority) where stated) ran on numpy object arrays of distinct polynomial variables; "
        "the result must equal symval.dense_einsum (sum over all index assignments) as polynomials, with shape "
        "tuple(size[ix] for ix in output); afterwards get_inds/get_legs/get_can_dot/get_tensordot_axes/get_tensordot_perm/"
        "get_einsum_eq postconditions were evaluated on every node of the same tree (inds is a permutation of the surviving "
        "indices computed from the network alone, root inds == output in order, axes pair equal labels and cover the shared "
        "indices, perm is the permutation taking tensordot's result order to inds, the einsum relabelling is injective). "
        "Bounds: networks with 2..6 tensors, <= 5 index symbols, rank <= 3, dimensions in {1,2,3}; all binary trees up to "
        "5 tensors (sampled for 6). Nothing is claimed beyond these bounds. "
    )
    rep.assumptions.append("C01: equality as integer polynomials implies equality for every numeric dtype whose arithmetic is a commutative ring; floating-point rounding is out of scope")
    rep.assumptions.append(
        "C01: arrays are numpy object arrays, so single-operand einsums (leaf preprocessing, operand preparation inside the "
        "matmul-based pairwise einsum) are served by numpy.einsum; cotengra's own single-term fallback "
        "(contract._parse_einsum_single, used only for backends without einsum) is not reached here - it is C11's subject"
    )
    rep.trusted_base.append("vt.symval (Poly arithmetic, dense_einsum reference), numpy object-array reshape/transpose/matmul/einsum(single operand)")
