"""C02 driver (see DESIGN.md section 3, C02)."""
from .generic import run_property, replay_property


def run(tier):
    return run_property("C02", tier)


def replay(path):
    return replay_property("C02", path)
