"""C02 bounded driver: tree transformations never change the value the tree
computes (DESIGN.md section 3, C02: [T3] wf monitor + [T2] polynomial value
equality after every prefix of a history).

Histories = sequences of public operations (menu in `_tree_hist.fixed_menu`
plus remove_ind_/project/restore_ind_ for every index of the network), applied
to a complete tree that starts in one of six prepared cache states.  After
EVERY applied step, on a deep snapshot made by the harness:

 (1) `tree.contract(polynomial arrays)` equals `symval.dense_einsum` of the
     ORIGINAL network (with the indices projected so far fixed) - value, shape
     and axis order, as polynomials, i.e. for all array values of that shape;
     also for every option set that has a compiled contractor cached;
 (2) the representation invariant wf(tree): present cached legs / involved /
     size / flops equal the from-scratch values; root inds == output order
     minus sliced; cached inds are permutations of the legs; cached recipes
     equal what a tree with the same children and children inds computes
     afresh; compiled contractors match the current tree; preprocessing,
     sliced_inputs, multiplicity agree with sliced_inds; sliced_inds ordered
     output-first; tree complete; a tree that was copied is unaffected by later
     operations on the copy.
"""

from __future__ import annotations

import random
import time
import warnings

from ..common import Report, pmap, seed, deadline
from .. import symval
from . import _tree_hist as H

MODULE = "vt.props.c02_bounded"

_CTX = {}  # set in the parent before forking


class Checker:
    poly = True

    def __init__(self):
        self.fires = {}
        self.value_ok = set()

    def fire(self, k, n=1):
        self.fires[k] = self.fires.get(k, 0) + n

    def __call__(self, st, env, op, ret):
        case = env.case
        probs = []
        if op[0] == "contract":
            self.fire("value(contract op)")
            ref = env.reference(st.proj)
            if not symval.equal(ret, ref):
                d = symval.first_diff(ret, ref) or ""
                probs.append("contract returned a " + ("wrong shape" if d.startswith("shape") else "wrong value"))
        S = H.clone(st.tree)
        self.fire("wf.structure")
        ps = H.structure_problems(S)
        if not ps:
            try:
                with warnings.catch_warnings():
                    warnings.simplefilter("ignore")
                    if not S.is_complete():
                        ps.append("is_complete() is False")
            except Exception as e:  # noqa: BLE001
                ps.append(f"is_complete() raised {type(e).__name__}")
        probs += ["wf: " + p for p in ps]
        if ps:
            return probs
        spec = H.Spec(case["inputs"], case["output"], case["size_dict"], S.children, S.sliced_inds,
                      [k for k, si in S.sliced_inds.items() if si.project is not None])
        self.fire("wf.slicing")
        probs += ["wf: " + p for p in H.slicing_problems(S, case, st.proj)]
        self.fire("wf.cached-legs/involved/size/flops", len(S.info))
        probs += ["wf: " + p for p in H.cache_problems(S, case, spec)]
        self.fire("wf.tracked-totals")
        probs += ["wf: " + p for p in H.tracked_problems(S, spec)]
        self.fire("wf.inds+preprocessing", len(S.info))
        probs += ["wf: " + p for p in H.inds_problems(S, case, spec)]
        nrec = sum(1 for info in S.info.values() for k in H.RECIPE_KEYS if k in info) + len(S.contraction_cores)
        if nrec:
            self.fire("wf.recipes+compiled-contractors", nrec)
        probs += ["wf: " + p for p in H.recipe_problems(S)]
        # the value check is a deterministic function of the complete state of
        # the snapshot: an identical state that already contracted to the right
        # value (same projections) need not be contracted again
        fp = (H.fingerprint(S), tuple(sorted(st.proj.items())))
        if fp in self.value_ok:
            self.fire("value(snapshot, identical state already checked)")
        else:
            self.fire("value(snapshot)")
            vp = H.value_problems(S, env, st.proj)
            probs += ["value: " + p for p in vp]
            if not vp:
                self.value_ok.add(fp)
        if st.orig is not None:
            self.fire("copy-independence")
            probs += ["copy: " + p for p in H.orig_problems(st)]
        return probs


def signature(case, prep, hist, prob):
    return f"C02 history {H.hist_label(hist)} from state '{prep}' on {H.case_label(case)}: {H.short(prob)}"


def make_case(case, prep, hist):
    return {"net": H.case_json(case), "prep": prep, "history": [[o[0], o[1]] for o in hist]}


# --------------------------------------------------------------------------
# exhaustive histories (length <= L) from one (case, prepared state, first op)
# --------------------------------------------------------------------------
def _prepare(case, prep, env):
    st = H.State(H.build_tree(case))
    for op in H.resolve_prep(H.PREPS[prep], case):
        status, payload = H.apply_op(st, op, env)
        if status != "ok":
            return None, f"preparation step {H.op_label(op)}: {status} {payload}"
    return st, None


def work_exhaustive(item):
    """All histories of length <= depth from one (case, prepared state); the
    first operations are item[2] (a list of menu positions)."""
    ci, prep, firsts, depth = item
    ctx = _CTX
    case = ctx["cases"][ci]
    if time.time() > ctx["deadline"]:
        return {"n": 0, "timeout": 1}
    env = H.Env(case, poly=True)
    chk = Checker()
    menu = H.menu_for(case)
    out = {"n": 0, "nt": [], "viol": [], "samples": [], "skipped": 0, "timeout": 0}
    st0, err = _prepare(case, prep, env)
    if st0 is None:
        out["viol"].append((signature(case, prep, [], err), make_case(case, prep, [])))
        out["fires"] = chk.fires
        return out

    def rec(st, hist, idxs, d):
        choices = firsts if not hist else range(len(menu))
        for j in choices:
            if len(out["viol"]) >= 6:
                return
            if time.time() > ctx["deadline"]:
                out["timeout"] = 1
                return
            op = menu[j]
            st2 = st.fork()
            status, payload = H.apply_op(st2, op, env)
            out["n"] += 1
            h2 = hist + [op]
            if status == "skipped":
                out["skipped"] += 1
                continue
            if status == "error":
                out["viol"].append((signature(case, prep, h2, payload), make_case(case, prep, h2)))
                continue
            probs = chk(st2, env, op, payload)
            out["nt"].append(idxs + [j])
            if probs:
                out["viol"].append((signature(case, prep, h2, probs[0]), make_case(case, prep, h2)))
                continue
            if d + 1 < depth:
                rec(st2, h2, idxs + [j], d + 1)

    rec(st0, [], [], 0)
    if prep == "fresh" and 0 in firsts:
        out["samples"].append({"network": H.case_label(case), "state": prep,
                               "history": H.hist_label([menu[0], menu[min(5, len(menu) - 1)]])})
    out["fires"] = chk.fires
    return out


# --------------------------------------------------------------------------
# seeded samples of longer histories on larger random networks
# --------------------------------------------------------------------------
def work_sampled(item):
    k, lo, hi = item
    ctx = _CTX
    if time.time() > ctx["deadline"]:
        return {"n": 0, "timeout": 1}
    rng = random.Random(1000003 * seed() + 17 * k + 5)
    case = H.random_case(rng, nmin=ctx["nmin"], nmax=ctx["nmax"], max_space=ctx["max_space"])
    prep = rng.choice(H.PREP_ORDER)
    length = rng.randint(lo, hi)
    hist = [H.sample_op(rng, case) for _ in range(length)]
    chk = Checker()
    env = H.Env(case, poly=True)
    probs, applied, skipped = H.run_history(case, H.PREPS[prep], hist, chk, env=env)
    out = {"n": applied + skipped, "hist": 1, "nt": [], "viol": [], "samples": [], "skipped": skipped, "timeout": 0,
           "fires": chk.fires}
    if applied:
        out["nt"].append(["s", k])
    if probs:
        kk, p = probs[0]
        h = hist[: kk + 1] if kk >= 0 else []
        # drop the skipped steps of the prefix? keep them: replay re-executes the same list
        out["viol"].append((signature(case, prep, h, p), make_case(case, prep, h)))
    if k < 2:
        out["samples"].append({"network": H.case_label(case), "state": prep, "history": H.hist_label(hist)})
    return out


# --------------------------------------------------------------------------
def _aggregate(rep, results, tag, viols, stats):
    for status, r in results:
        if status == "crash":
            rep.crash(f"C02 worker crashed ({tag}): {r[:600]}")
            continue
        stats["timeout"] += r.get("timeout", 0)
        if not r.get("n"):
            continue
        rep.count(r["n"])
        stats["steps"] += r["n"]
        stats["skipped"] += r.get("skipped", 0)
        for key in r.get("nt", ()):
            rep.nontrivial_case([tag, r.get("id")] + list(key))
        for s in r.get("samples", ()):
            stats["samples"].append(s)
        for k, v in r.get("fires", {}).items():
            rep.fired(k, v)
        viols.extend(r.get("viol", ()))


def run_bounded(rep: Report, tier: str) -> None:
    global _CTX
    quick = tier == "quick"
    t_end = deadline(tier, 75, 1500)
    cases = H.base_cases(seed(), sizes="small")
    rep.rule = (
        "a case = (network, sizes, initial tree, prepared cache state, history); histories are enumerated exhaustively "
        "over the concrete operation menu (38 fixed operations + slice/project/restore of every index) up to the stated "
        "length, longer ones are seeded samples with parameters drawn from the full menus; a case is non-trivial when its "
        "last operation was applicable (did not raise as 'not applicable') so that the checks ran after it; distinct = "
        "distinct (network, tree, state, operation sequence)"
    )
    viols = []
    stats = {"steps": 0, "skipped": 0, "timeout": 0, "samples": []}

    # ---- exhaustive, length <= 2 on the base set --------------------------
    items = []
    for ci, case in enumerate(cases):
        m = len(H.menu_for(case))
        for prep in H.PREP_ORDER:
            # two work items per (pair, state): identical states reached by
            # different histories are contracted once per item
            items.append((ci, prep, list(range(0, m, 2)), 2))
            items.append((ci, prep, list(range(1, m, 2)), 2))
    _CTX = {"cases": cases, "deadline": t_end}
    n0 = rep.evaluations
    res = list(pmap(_tagged_exh, items, chunk=1))
    _aggregate(rep, res, "exh2", viols, stats)
    done = rep.evaluations - n0
    t_out = stats["timeout"]
    rep.scope(
        f"all histories of length <= 2 over the menu x {len(cases)} (network, tree) pairs x {len(H.PREP_ORDER)} prepared cache states",
        done, exhaustive=(t_out == 0),
        bound="3-5 tensors, <= 6 indices, sizes 1-3; menu = 38 fixed ops + 3 per index" + ("" if not t_out else f"; {t_out} work items cut by the time budget"),
    )

    # ---- thorough: length <= 3 on a sub-base ------------------------------
    if not quick:
        sub = [ci for ci in range(len(cases)) if ci % 4 == 0]
        preps3 = ["fresh", "sorted+contracted", "annealed"]
        items = []
        for ci in sub:
            m = len(H.menu_for(cases[ci]))
            for prep in preps3:
                for i1 in range(m):
                    items.append((ci, prep, [i1], 3))
        stats["timeout"] = 0
        n0 = rep.evaluations
        res = list(pmap(_tagged_exh, items, chunk=1))
        _aggregate(rep, res, "exh3", viols, stats)
        rep.scope(
            f"all histories of length <= 3 over the menu x {len(sub)} (network, tree) pairs x {len(preps3)} prepared states",
            rep.evaluations - n0, exhaustive=(stats["timeout"] == 0),
            bound="every 4th pair of the base set" + ("" if not stats["timeout"] else f"; {stats['timeout']} work items cut by the time budget"),
        )

    # ---- seeded samples of longer histories -------------------------------
    nsamp = 320 if quick else 6000
    _CTX = {"cases": cases, "deadline": t_end + (10 if quick else 120), "nmin": 6, "nmax": 10, "max_space": 1024 if quick else 4096}
    items = [(k, 3, 6) for k in range(nsamp)]
    stats["timeout"] = 0
    n0 = rep.evaluations
    res = list(pmap(_tagged_samp, items, chunk=2))
    _aggregate(rep, res, "samp", viols, stats)
    rep.scope(
        f"seeded sample: {nsamp} histories of length 3-6 on random networks (cotengra.utils.rand_equation, 6-10 tensors), random tree, random prepared state",
        rep.evaluations - n0, exhaustive=False,
        bound=f"sample of {nsamp}; index space <= {_CTX['max_space']} assignments" + ("" if not stats["timeout"] else f"; {stats['timeout']} cut by the time budget"),
    )

    for s in sorted(stats["samples"], key=lambda s: (s["network"], s["history"]))[:6]:
        rep.sample(s)
    rep.extra["history_steps_executed"] = stats["steps"]
    rep.extra["steps_skipped_not_applicable"] = stats["skipped"]

    # ---- violations: shortest histories first, at most 5 -------------------
    seen = set()
    viols.sort(key=lambda v: (len(v[1]["history"]), len(v[0]), v[0]))
    for sig, case in viols:
        if sig in seen:
            continue
        seen.add(sig)
        rep.violation(sig, {"module": MODULE, "case": case})
        if len(seen) >= 5:
            break
    rep.extra["violating_histories_found"] = len(viols)

    rep.explanation += (
        "C02 bounded: the real ContractionTree operations are executed along histories; after every applied step a deep "
        "snapshot (harness-side, so checking never populates the caches of the tree under test) is (1) contracted on "
        "polynomial-valued arrays and compared with an independent dense einsum of the ORIGINAL network (projected "
        "indices fixed; value, shape, axis order; also for every option set with a compiled contractor) and (2) checked "
        "against the representation invariant wf (cached legs/involved/size/flops vs a from-scratch evaluator, inds, "
        "recipes vs fresh recomputation, compiled contractors, preprocessing, slicing bookkeeping, completeness, "
        "copy independence). Bounds: exhaustive only up to the stated history length on the stated base set; longer "
        "histories and larger networks are seeded samples. Operations that raise because they are not applicable "
        "(restore of an unsliced index, slice search running out of indices) are skipped and the state reverted. "
    )
    rep.assumptions.append("parallel=False/None everywhere; seeds fixed; global `random` re-seeded before every operation (operations without a seed argument draw from it)")
    rep.trusted_base.append("vt.symval (Poly arithmetic, dense_einsum), vt.props._tree_hist.Spec (from-scratch legs/size/flops), pickle round trip as deep copy")


def _tagged_exh(item):
    r = work_exhaustive(item)
    r["id"] = [item[0], item[1]]
    return r


def _tagged_samp(item):
    r = work_sampled(item)
    r["id"] = item[0]
    return r


# --------------------------------------------------------------------------
def replay(case):
    net = H.case_from_json(case["net"])
    prep = case["prep"]
    hist = [[o[0], dict(o[1])] for o in case["history"]]
    chk = Checker()
    probs, applied, skipped = H.run_history(net, H.PREPS[prep], hist, chk)
    if probs:
        k, p = probs[0]
        return False, f"after step {k} of {H.hist_label(hist)} on {H.case_label(net)}: {p}"
    return True, f"history {H.hist_label(hist)} on {H.case_label(net)} held ({applied} steps applied, {skipped} skipped)"
