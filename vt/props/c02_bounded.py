"""C02 bounded driver: tree transformations never change the value the tree
computes (DESIGN.md section 3, C02: [T3] wf monitor + [T2] polynomial value
equality after every prefix of a history).

Histories = sequences of public operations (menu in `_tree_hist.fixed_menu`
plus remove_ind_ / remove_ind_(project=) / restore_ind_ for every index of the
network), applied to a complete tree that starts in one of six prepared cache
states (seven here: the six of DESIGN 2.5 + 'sliced, sorted, then contracted').  After EVERY applied step, on a deep snapshot made by the harness:

 (1) `tree.contract(polynomial arrays)` equals `symval.dense_einsum` of the
     ORIGINAL network (with the indices projected so far fixed) - value, shape
     and axis order, as polynomials, i.e. for all array values of that shape;
     also for every option set that has a compiled contractor cached; the
     result returned by a `contract` step of the history itself is compared too;
 (2) the representation invariant wf(tree): present cached legs / involved /
     size / flops equal the from-scratch values; root inds == output order
     minus sliced; cached inds are permutations of the legs; cached recipes
     equal what a tree with the same children and children inds computes
     afresh; compiled contractors match the current tree; preprocessing,
     sliced_inputs, multiplicity agree with sliced_inds; sliced_inds ordered
     output-first; tree complete; a tree that was copied is unaffected by later
     operations on the copy.
"""

from __future__ import annotations

import warnings

from ..common import Report, pmap, seed, deadline
from .. import symval
from . import _tree_hist as H

MODULE = "vt.props.c02_bounded"


class Checker:
    poly = True

    def __init__(self):
        self.fires = {}
        self.state_ok = set()

    def fire(self, k, n=1):
        self.fires[k] = self.fires.get(k, 0) + n

    def __call__(self, st, env, op, ret):
        case = env.case
        probs = []
        if op[0] == "contract":
            self.fire("value(contract step of the history)")
            ref = env.reference(st.proj)
            if not symval.equal(ret, ref):
                d = symval.first_diff(ret, ref) or ""
                probs.append("contract returned a " + ("wrong shape" if d.startswith("shape") else "wrong value"))
        S, raw_fp = H.clone_fp(st.tree)
        # every check below is a deterministic function of the complete state
        # of the snapshot (and of the projections requested): a state that is
        # byte-for-byte identical to one already found in order is not
        # examined again
        fp = (raw_fp, tuple(sorted(st.proj.items())))
        if fp in self.state_ok:
            self.fire("identical state already checked (wf + value skipped)")
            if st.orig is not None:
                self.fire("copy-independence")
                probs += ["copy: " + p for p in H.orig_problems(st)]
            return probs
        n_before = len(probs)
        self.fire("wf.structure")
        ps = H.structure_problems(S)
        if not ps:
            try:
                with warnings.catch_warnings():
                    warnings.simplefilter("ignore")
                    if not S.is_complete():
                        ps.append("is_complete() is False")
            except Exception as e:  # noqa: BLE001
                ps.append(f"is_complete() raised {type(e).__name__}")
        probs += ["wf: " + p for p in ps]
        if ps:
            return probs
        spec = H.Spec(case["inputs"], case["output"], case["size_dict"], S.children, S.sliced_inds,
                      [k for k, si in S.sliced_inds.items() if si.project is not None])
        self.fire("wf.slicing")
        probs += ["wf: " + p for p in H.slicing_problems(S, case, st.proj)]
        self.fire("wf.cached-legs/involved/size/flops", len(S.info))
        probs += ["wf: " + p for p in H.cache_problems(S, case, spec)]
        self.fire("wf.tracked-totals")
        probs += ["wf: " + p for p in H.tracked_problems(S, spec)]
        self.fire("wf.inds+preprocessing", len(S.info))
        probs += ["wf: " + p for p in H.inds_problems(S, case, spec)]
        nrec = sum(1 for info in S.info.values() for k in H.RECIPE_KEYS if k in info) + len(S.contraction_cores)
        if nrec:
            self.fire("wf.recipes+compiled-contractors", nrec)
        probs += ["wf: " + p for p in H.recipe_problems(S)]
        self.fire("value(snapshot)")
        probs += ["value: " + p for p in H.value_problems(S, env, st.proj)]
        if len(probs) == n_before:
            self.state_ok.add(fp)
        if st.orig is not None:
            self.fire("copy-independence")
            probs += ["copy: " + p for p in H.orig_problems(st)]
        return probs


def run_bounded(rep: Report, tier: str) -> None:
    rep.rule = (
        "a case = (network, sizes, initial tree, prepared cache state, history); histories are enumerated exhaustively "
        "over the concrete operation menu (fixed operations + slice/project/restore of every index of the network) up "
        "to the stated length, longer ones are seeded samples with parameters drawn from the full menus; a case is "
        "non-trivial when its last operation was applicable (did not raise as 'not applicable') so that the checks "
        "ran after it; distinct = distinct (network, tree, state, operation sequence)"
    )
    viols = H.run_histories(
        rep, tier, pid="C02", module=MODULE, checker=Checker, sizes="small", with_write=False,
        quick_budget_s=240, nsamp_quick=320, nsamp_thorough=6000, seed_value=seed(), pmap=pmap, deadline=deadline,
        preps=H.PREP_ORDER_VALUE,
    )
    H.report_violations(rep, MODULE, viols)
    rep.explanation += (
        "C02 bounded: the real ContractionTree operations are executed along histories; after every applied step a deep "
        "snapshot (harness-side, so checking never populates the caches of the tree under test) is (1) contracted on "
        "polynomial-valued arrays and compared with an independent dense einsum of the ORIGINAL network (projected "
        "indices fixed; value, shape, axis order; also for every option set with a compiled contractor) and (2) checked "
        "against the representation invariant wf (cached legs/involved/size/flops vs a from-scratch evaluator, inds, "
        "recipes vs fresh recomputation, compiled contractors, preprocessing, slicing bookkeeping, completeness, "
        "copy independence). Bounds: exhaustive only up to the stated history length on the stated base set; longer "
        "histories and larger networks are seeded samples. Operations that raise because they are not applicable "
        "(restore of an unsliced index, slice search raising because it ran out of indices) are skipped and the "
        "state reverted. "
    )
    rep.assumptions.append(
        "parallel=False/None everywhere; seeds fixed; the global `random` generator is re-seeded before every "
        "operation (operations without a seed argument draw from it)"
    )
    rep.trusted_base.append(
        "vt.symval (Poly arithmetic, dense_einsum), vt.props._tree_hist.Spec (from-scratch legs/size/flops), "
        "pickle round trip as the harness-side deep copy"
    )


def replay(case):
    return H.replay_history(case, Checker)
