"""C03 driver (see DESIGN.md section 3, C03)."""
from .generic import run_property, replay_property


def run(tier):
    return run_property("C03", tier)


def replay(path):
    return replay_property("C03", path)
