"""C03 bounded driver: reported flops, write, max size and peak match the
definition and the arrays actually produced (DESIGN.md section 3, C03, [T3]).

Part 1 (cost evaluator): an independent evaluator written from the statement
recomputes, from the network alone, per contraction step the product of the
dimensions of all indices involved and of the surviving indices, the totals
(x number of slices), the largest intermediate and the peak concurrent size
for a given step order, and compares them with what the real tree reports.

Part 2 (recording implementation): the real ``tree.contract`` runs on float
arrays with a recording (einsum, tensordot) pair; the shapes of the arrays
produced must be the sizes the tree reports for the same steps.
"""

from __future__ import annotations

import hashlib
import itertools
import json
import random
import time
import warnings

import numpy as np

from ..common import Report, pmap, seed, deadline
from .. import scope

MODULE = "vt.props.c03_bounded"
_DEADLINE = None


def eq_str(inputs, output):
    return ",".join("".join(t) for t in inputs) + "->" + "".join(output)


def ops_str(ops):
    return "[" + ", ".join(f"slice({ix})" if v is None else f"project({ix}={v})" for ix, v in ops) + "]"


def _prod(xs):
    p = 1
    for x in xs:
        p *= x
    return p


# --------------------------------------------------------------------------
# the independent evaluator (from the statement; no cotengra import)
# --------------------------------------------------------------------------
def spec_nodes(n, ssa):
    """[(parent, left, right)] as frozensets of input positions, in path order."""
    nodes = {i: frozenset([i]) for i in range(n)}
    steps = []
    nxt = n
    for a, b in ssa:
        p = nodes[a] | nodes[b]
        steps.append((p, nodes[a], nodes[b]))
        nodes[nxt] = p
        nxt += 1
    return steps


def spec_legs(inputs, output, node, removed):
    """Indices carried by the tensor that results from contracting the inputs
    in `node`: those on some tensor of the node that survive, i.e. that are
    output indices or also sit on a tensor outside the node.  Removed (sliced
    or projected) indices are gone from every tensor.  For a single input this
    is the tensor after summing indices only it carries and taking diagonals
    of repeated ones."""
    inside = set()
    for i in node:
        inside.update(inputs[i])
    outside = set(output)
    for j, t in enumerate(inputs):
        if j not in node:
            outside.update(t)
    return {ix for ix in inside if ix in outside and ix not in removed}


def spec_costs(inputs, output, sd, ssa, ops):
    """Everything the statement defines, from the network alone."""
    n = len(inputs)
    removed = {ix for ix, _v in ops}
    nslices = _prod(sd[ix] for ix, v in ops if v is None)
    steps = spec_nodes(n, ssa)
    size, flops, legs = {}, {}, {}
    for i in range(n):
        leaf = frozenset([i])
        legs[leaf] = spec_legs(inputs, output, leaf, removed)
        size[leaf] = _prod(sd[ix] for ix in legs[leaf])
        flops[leaf] = 0
    for p, l, r in steps:
        legs[p] = spec_legs(inputs, output, p, removed)
        flops[p] = _prod(sd[ix] for ix in legs[l] | legs[r])
        size[p] = _prod(sd[ix] for ix in legs[p])
    return {
        "nslices": nslices,
        "steps": steps,
        "legs": legs,
        "size": size,
        "flops": flops,
        "total_flops": nslices * sum(flops[p] for p, _l, _r in steps),
        "total_write": nslices * sum(size[p] for p, _l, _r in steps),
        "max_size": max(size[p] for p, _l, _r in steps),
    }


def spec_peak(n, size, order_steps):
    """Peak concurrent size for the given sequence of steps: all inputs are
    live at the start; while a step runs its two operands and its result are
    live; afterwards the operands are freed."""
    tot = sum(size[frozenset([i])] for i in range(n))
    peak = tot
    for p, l, r in order_steps:
        tot += size[p]
        peak = max(peak, tot)
        tot -= size[l] + size[r]
    return peak


def selftest_evaluator():
    """Hand-computed examples (done on paper) guarding the evaluator itself."""
    errs = []

    def chk(name, got, want):
        if got != want:
            errs.append(f"{name}: evaluator gives {got}, by hand {want}")

    sd = {"a": 2, "b": 3, "c": 5, "d": 7}
    s = spec_costs((("a", "b"), ("b", "c")), ("a", "c"), sd, ((0, 1),), [])
    chk("ab,bc->ac flops", s["total_flops"], 30)
    chk("ab,bc->ac write", s["total_write"], 10)
    chk("ab,bc->ac peak", spec_peak(2, s["size"], s["steps"]), 6 + 15 + 10)
    s = spec_costs((("a", "b"), ("b", "c"), ("c", "d")), ("a", "d"), sd, ((0, 1), (3, 2)), [])
    chk("chain flops", s["total_flops"], 30 + 70)
    chk("chain write", s["total_write"], 10 + 14)
    chk("chain size", s["max_size"], 14)
    chk("chain peak", spec_peak(3, s["size"], s["steps"]), max(6 + 15 + 35, 6 + 15 + 35 + 10, 35 + 10 + 14))
    s = spec_costs((("a", "b"), ("b", "c"), ("c", "d")), ("a", "d"), sd, ((0, 2), (3, 1)), [])
    chk("chain outer-first flops", s["total_flops"], 210 + 210)
    chk("chain outer-first write", s["total_write"], 210 + 14)
    # hyper index: a,b on three tensors survive the first step
    s = spec_costs((("a", "b"),) * 3, (), sd, ((0, 1), (3, 2)), [])
    chk("ab,ab,ab-> flops", s["total_flops"], 6 + 6)
    chk("ab,ab,ab-> write", s["total_write"], 6 + 1)
    # output index shared by both: batch index survives
    s = spec_costs((("a", "b"), ("a", "b")), ("a",), sd, ((0, 1),), [])
    chk("ab,ab->a flops", s["total_flops"], 6)
    chk("ab,ab->a size", s["max_size"], 2)
    # single-tensor index c and repeated index a are pre-reduced on the input
    s = spec_costs((("a", "a", "c"), ("a", "b")), ("b",), sd, ((0, 1),), [])
    chk("aac,ab->b leaf size", s["size"][frozenset([0])], 2)
    chk("aac,ab->b flops", s["total_flops"], 6)
    chk("aac,ab->b peak", spec_peak(2, s["size"], s["steps"]), 2 + 6 + 3)
    # slicing b: 3 slices of a,c->ac ; projecting b: one of them
    s = spec_costs((("a", "b"), ("b", "c")), ("a", "c"), sd, ((0, 1),), [("b", None)])
    chk("sliced flops", s["total_flops"], 3 * 10)
    chk("sliced write", s["total_write"], 3 * 10)
    chk("sliced size", s["max_size"], 10)
    s = spec_costs((("a", "b"), ("b", "c")), ("a", "c"), sd, ((0, 1),), [("b", 1)])
    chk("projected flops", s["total_flops"], 10)
    # slicing an output index: 2 slices of b,bc->c
    s = spec_costs((("a", "b"), ("b", "c")), ("a", "c"), sd, ((0, 1),), [("a", None)])
    chk("output-sliced flops", s["total_flops"], 2 * 15)
    chk("output-sliced size", s["max_size"], 5)
    return errs


# --------------------------------------------------------------------------
# orders (json round trip)
# --------------------------------------------------------------------------
def order_to_json(order):
    if order is None or isinstance(order, str):
        return order
    return {"rank": [[sorted(k), v] for k, v in sorted(order.rank.items(), key=lambda kv: sorted(kv[0]))]}


def order_from_json(o):
    if o is None or isinstance(o, str):
        return o
    return scope._RankOrder({frozenset(k): v for k, v in o["rank"]})


# --------------------------------------------------------------------------
# one case against the real code
# --------------------------------------------------------------------------
class _Recorder:
    """Stands in for both members of implementation=(..., ...): dispatches on
    the first argument (str => einsum(eq, *arrays), else tensordot(a, b, axes)),
    records operand/result shapes and delegates to numpy."""

    def __init__(self):
        self.calls = []

    def __call__(self, *args, **kwargs):
        if isinstance(args[0], str):
            eq, arrays = args[0], args[1:]
            out = np.einsum(eq, *arrays)
            self.calls.append(("einsum", eq, [tuple(np.shape(a)) for a in arrays], tuple(np.shape(out))))
        else:
            a, b = args[0], args[1]
            axes = args[2] if len(args) > 2 else kwargs.get("axes", 2)
            out = np.tensordot(a, b, axes)
            self.calls.append(("tensordot", axes, [tuple(np.shape(a)), tuple(np.shape(b))], tuple(np.shape(out))))
        return out


def run_case(inputs, output, sd, ssa, ops, tracked, orders, rec_order=None, rec_pe=False, do_record=True, fires=None):
    """Returns None if everything agreed, else (tag, message)."""
    from cotengra import ContractionTree

    if fires is None:
        fires = {}

    def fire(k, c=1):
        fires[k] = fires.get(k, 0) + c

    n = len(inputs)
    spec = spec_costs(inputs, output, sd, ssa, ops)
    kw = {"track_flops": True, "track_write": True, "track_size": True} if tracked else {}
    with warnings.catch_warnings():
        warnings.simplefilter("ignore")
        try:
            tree = ContractionTree.from_path(inputs, output, sd, ssa_path=ssa, **kw)
            for ix, v in ops:
                if v is None:
                    tree.remove_ind_(ix)
                else:
                    tree.remove_ind_(ix, project=v)
        except Exception as e:  # noqa: BLE001
            return "building the tree raised", f"{type(e).__name__}: {str(e)[:120]}"
        try:
            if tree.nslices != spec["nslices"]:
                return "nslices wrong", f"nslices={tree.nslices}, product of sliced sizes={spec['nslices']}"
            want = {"flops": spec["total_flops"], "write": spec["total_write"], "size": spec["max_size"]}
            if not tracked:
                # ask the individual accessors FIRST: on a tree that is not tracking yet each of them runs its
                # own recomputation loop (after contract_stats() they would only read the tracked totals)
                for nm, fn, w in (
                    ("total_flops() asked first", tree.total_flops, want["flops"]),
                    ("total_write() asked first", tree.total_write, want["write"]),
                    ("max_size() asked first", tree.max_size, want["size"]),
                ):
                    got = fn()
                    if got != w:
                        return f"{nm} wrong", f"reported {got}, definition gives {w}"
                fire("accessor asked first (own recomputation loop when untracked, unsliced) == definition")
            stats = tree.contract_stats()
            for k in ("flops", "write", "size"):
                if stats.get(k) != want[k]:
                    return f"contract_stats()['{k}'] wrong", f"reported {stats.get(k)}, definition gives {want[k]}"
            fire("contract_stats == definition")
            for nm, got, w in (
                ("total_flops()", tree.total_flops(), want["flops"]),
                ("contraction_cost()", tree.contraction_cost(), want["flops"]),
                ("total_write()", tree.total_write(), want["write"]),
                ("max_size()", tree.max_size(), want["size"]),
            ):
                if got != w:
                    return f"{nm} wrong", f"reported {got}, definition gives {w}"
            fire("total_flops/total_write/max_size == definition")
            # per node
            if set(tree.children) != {p for p, _l, _r in spec["steps"]}:
                return "tree nodes wrong", f"tree has {sorted(map(sorted, tree.children))}"
            for p, l, r in spec["steps"]:
                if set(tree.children[p]) != {l, r}:
                    return "tree children wrong", f"children of {sorted(p)}"
                gf, gs = tree.get_flops(p), tree.get_size(p)
                if gf != spec["flops"][p]:
                    return "get_flops(node) wrong", f"node {sorted(p)}: reported {gf}, product of involved dimensions {spec['flops'][p]}"
                if gs != spec["size"][p]:
                    return "get_size(node) wrong", f"node {sorted(p)}: reported {gs}, product of surviving dimensions {spec['size'][p]}"
                fire("get_flops/get_size(node) == definition")
            for i in range(n):
                leaf = frozenset([i])
                if tree.get_size(leaf) != spec["size"][leaf] or tree.get_flops(leaf) != 0:
                    return "leaf size/flops wrong", f"input {i}: size {tree.get_size(leaf)} flops {tree.get_flops(leaf)}, definition {spec['size'][leaf]} / 0"
            fire("leaf sizes == definition", n)
            # forced recomputation agrees too
            stats2 = tree.contract_stats(force=True)
            if any(stats2.get(k) != want[k] for k in want):
                return "contract_stats(force=True) wrong", f"reported {stats2}, definition gives {want}"
            # peak for every order
            for order in orders:
                seq = [(p, l, r) for p, l, r in tree.traverse(order)]
                done = {frozenset([i]) for i in range(n)}
                for p, l, r in seq:
                    if l not in done or r not in done or p in done or p != (l | r):
                        return "traverse not bottom-up", f"order {order_to_json(order)}"
                    done.add(p)
                if len(seq) != n - 1 or {p for p, _l, _r in seq} != set(tree.children):
                    return "traverse does not visit every step once", f"order {order_to_json(order)}: {len(seq)} steps"
                want_peak = spec_peak(n, spec["size"], seq)
                got_peak = tree.peak_size(order)
                if got_peak != want_peak:
                    return "peak_size(order) wrong", f"order {order_to_json(order)}: reported {got_peak}, simulation gives {want_peak}"
                fire("peak_size(order) == simulation")
        except Exception as e:  # noqa: BLE001
            return "cost accessors raised", f"{type(e).__name__}: {str(e)[:120]}"
        if ops:
            # giving the indices back (a sliced or a projected one alike) must bring back the figures of the plain tree
            try:
                back = tree.copy()
                for ix, _v in reversed(ops):
                    back.restore_ind_(ix)
                spec0 = spec_costs(inputs, output, sd, ssa, ())
                want0 = {"flops": spec0["total_flops"], "write": spec0["total_write"], "size": spec0["max_size"]}
                if back.nslices != 1:
                    return "nslices wrong after restoring the indices", f"nslices={back.nslices} on a tree without sliced indices"
                got0 = back.contract_stats()
                for k in ("flops", "write", "size"):
                    if got0.get(k) != want0[k]:
                        return f"contract_stats()['{k}'] wrong after restoring the indices", f"reported {got0.get(k)}, definition gives {want0[k]}"
                fire("after restore_ind of every removed index: contract_stats == definition of the plain tree")
            except Exception as e:  # noqa: BLE001
                return "restoring the indices raised", f"{type(e).__name__}: {str(e)[:120]}"

        if not do_record:
            return None
        # ---- recording implementation -------------------------------------------
        arrays = [np.full(tuple(sd[ix] for ix in t), 0.5) for t in inputs]
        rec = _Recorder()
        try:
            seq = [(p, l, r) for p, l, r in tree.traverse(rec_order)]
            out = tree.contract(arrays, order=rec_order, prefer_einsum=rec_pe, implementation=(rec, rec))
        except Exception as e:  # noqa: BLE001
            return "contract with recording implementation raised", f"{type(e).__name__}: {str(e)[:120]}"
        pair = [c for c in rec.calls if len(c[2]) == 2]
        single = [c for c in rec.calls if len(c[2]) == 1]
        ns = spec["nslices"]
        if len(pair) != (n - 1) * ns:
            return "number of pairwise steps wrong", f"{len(pair)} pairwise calls for {n} inputs x {ns} slices"
        if len(single) % ns != 0 or len(single) > n * ns:
            return "number of single-term steps wrong", f"{len(single)} single-operand calls"
        for k, call in enumerate(pair):
            p, l, r = seq[k % (n - 1)]
            shp_l, shp_r = call[2]
            shp_p = call[3]
            for nm, nd, shp in (("result", p, shp_p), ("left operand", l, shp_l), ("right operand", r, shp_r)):
                if _prod(shp) != tree.get_size(nd):
                    return "produced array size != get_size(node)", f"step {k} node {sorted(nd)} {nm}: shape {shp}, tree.get_size={tree.get_size(nd)}"
                wdims = sorted(sd[ix] for ix in spec["legs"][nd])
                if sorted(shp) != wdims:
                    return "produced array dims != surviving indices", f"step {k} node {sorted(nd)} {nm}: shape {shp}, surviving dimensions {wdims}"
            fire("recorded shapes == get_size(node)")
        for call in single:
            # a single-term step turns input i into its pre-reduced form: size must be a leaf size
            if _prod(call[3]) not in {spec["size"][frozenset([i])] for i in range(n)}:
                return "single-term result size is no leaf size", f"{call[1]}: {call[2]} -> {call[3]}"
        fire("pairwise steps == N-1 per slice")
        want_shape = tuple((1 if any(ix == jx and v is not None for jx, v in ops) else sd[ix]) for ix in output)
        if tuple(np.shape(out)) != want_shape:
            return "result shape wrong", f"{np.shape(out)} vs {want_shape}"
    return None


def make_case(inputs, output, sd, ssa, ops, tracked, orders, rec_order, rec_pe, do_record):
    return {
        "inputs": [list(t) for t in inputs],
        "output": list(output),
        "sizes": dict(sd),
        "ssa_path": [list(p) for p in ssa],
        "ops": [[ix, v] for ix, v in ops],
        "tracked": tracked,
        "orders": [order_to_json(o) for o in orders],
        "rec_order": order_to_json(rec_order),
        "rec_prefer_einsum": rec_pe,
        "record": do_record,
    }


def signature(case, tag):
    ops = [(ix, v) for ix, v in case["ops"]]
    return (
        f"C03 {tag} after {ops_str(ops)} on {eq_str(case['inputs'], case['output'])} sizes "
        f"{''.join(f'{k}{v}' for k, v in sorted(case['sizes'].items()))} tree {json.dumps(case['ssa_path'])}"
        f"{' (tracked)' if case['tracked'] else ''}"
    )


def replay(case):
    if case.get("annealed"):
        class _R:
            msg = None

            def nontrivial_case(self, *_a):
                pass

            def count(self, *_a):
                pass

            def fired(self, *_a):
                pass

            def scope(self, *_a, **_k):
                pass

            def violation(self, sig, _b):
                self.msg = sig

        r = _R()
        run_annealed(r, "quick", random.Random(f"{case.get('seed', 0)}|C03|annealed"))
        return (True, "every refined tree reports the definition's figures") if r.msg is None else (False, r.msg)
    inputs = tuple(tuple(t) for t in case["inputs"])
    output = tuple(case["output"])
    sd = {k: int(v) for k, v in case["sizes"].items()}
    ssa = tuple(tuple(p) for p in case["ssa_path"])
    ops = [(ix, (None if v is None else int(v))) for ix, v in case["ops"]]
    r = run_case(
        inputs, output, sd, ssa, ops, bool(case.get("tracked")),
        [order_from_json(o) for o in case.get("orders", [None])],
        order_from_json(case.get("rec_order")), bool(case.get("rec_prefer_einsum")), bool(case.get("record", True)),
    )
    if r is None:
        return True, "reported costs equal the definition and recorded shapes equal the reported sizes"
    return False, f"{eq_str(inputs, output)} tree {list(ssa)} ops {ops_str(ops)}: {r[0]}: {r[1]}"


# --------------------------------------------------------------------------
def _digest(s):
    return hashlib.blake2b(s.encode(), digest_size=8).digest()


def all_subsets(inds, sd, rng, maxlen=3):
    """Every subset of <= maxlen indices x every slice/project assignment,
    applied in a seeded order."""
    out = [()]
    for m in range(1, min(maxlen, len(inds)) + 1):
        for comb in itertools.combinations(inds, m):
            for kinds in itertools.product((0, 1), repeat=m):
                ops = [(ix, (rng.randrange(sd[ix]) if k else None)) for ix, k in zip(comb, kinds)]
                rng.shuffle(ops)
                out.append(tuple(ops))
    return out


def _work(item):
    name, idx, inputs, output, plan = item
    if _DEADLINE is not None and time.time() > _DEADLINE:
        return {"skipped": 1, "name": name}
    rng = random.Random(f"{seed()}|C03|{name}|{idx}")
    n = len(inputs)
    eq = eq_str(inputs, output)
    inds = sorted({s for t in inputs for s in t})
    sd = scope.size_dict_primes(inputs, output, offset=idx % 3)
    if plan["trees"] == "all":
        trees = list(scope.all_trees(n))
    else:
        trees = sorted({scope.random_tree_ssa(n, rng) for _ in range(plan["trees"])})
    from cotengra import ContractionTree

    res = {"name": name, "n": 0, "nrec": 0, "keys": [], "viols": [], "samples": [], "fires": {}, "cases": 0}
    c = idx
    for ssa in trees:
        with warnings.catch_warnings():
            warnings.simplefilter("ignore")
            t0 = ContractionTree.from_path(inputs, output, sd, ssa_path=ssa)
        orders = scope.orders_for(t0, rng, n_random=(1 if n <= 2 else 2))
        if plan["ops"] == "all":
            opss = all_subsets(inds, sd, rng)
        else:
            opss = [()]
            for _ in range(plan["ops"]):
                m = rng.randint(1, min(3, len(inds))) if inds else 0
                perm = rng.sample(inds, m)
                opss.append(tuple((ix, (rng.randrange(sd[ix]) if rng.random() < 0.35 else None)) for ix in perm))
            opss = list(dict.fromkeys(opss))
        for ops in opss:
            c += 1
            tracked = bool(c % 2)
            nsl = _prod(sd[ix] for ix, v in ops if v is None)
            do_record = nsl <= plan.get("rec_max_slices", 40) and (c % plan.get("rec_every", 1) == 0)
            rec_order = orders[(c // 2) % len(orders)]
            rec_pe = bool((c // 3) % 2)
            r = run_case(inputs, output, sd, ssa, ops, tracked, orders, rec_order, rec_pe, do_record, res["fires"])
            res["n"] += 1 + (1 if do_record else 0)
            res["nrec"] += 1 if do_record else 0
            res["cases"] += 1
            if len(set(inds) - {ix for ix, _ in ops}) >= 2:
                res["keys"].append(_digest(f"{eq}|{sorted(sd.items())}|{ssa}|{sorted(ops, key=str)}|{tracked}"))
            if r is not None:
                if len(res["viols"]) < 2:
                    case = make_case(inputs, output, sd, ssa, ops, tracked, orders, rec_order, rec_pe, do_record)
                    res["viols"].append((signature(case, r[0]), case, r[1]))
            elif idx % 41 == 3 and not res["samples"] and len(ops) >= 2 and n >= 3:
                res["samples"].append(make_case(inputs, output, sd, ssa, ops, tracked, orders, rec_order, rec_pe, do_record))
    res["keys"] = b"".join(res["keys"])
    return res


def _plans(tier, rng):
    out = []
    if tier == "quick":
        out.append(("Net(2,3,3) x tree x ALL subsets(<=3) x slice/project x orders", list(scope.networks(2, 3, 3)), True,
                    {"trees": "all", "ops": "all", "rec_every": 2}, "all 3108 networks; distinct prime sizes; recording run on every 2nd case"))
        out.append(("Net(3,3,2) x all trees x ALL subsets(<=3) x slice/project x orders", list(scope.networks(3, 3, 2)), True,
                    {"trees": "all", "ops": "all", "rec_every": 4}, "all 4106 networks; all 3 trees; distinct prime sizes; recording run on every 4th case"))
        out.append(("Net(3,3,3) sample x all trees x sampled subsets", scope.sample_networks(3, 3, 3, 1500, rng), False,
                    {"trees": "all", "ops": 5}, "seeded sample of 1500 of 152423 networks"))
        out.append(("Net(4,4,3) sample x all trees x sampled subsets", scope.sample_networks(4, 4, 3, 400, rng), False,
                    {"trees": "all", "ops": 3}, "seeded sample of 400 networks; all 15 trees"))
        out.append(("Net(5,5,3) sample x all trees x sampled subsets", scope.sample_networks(5, 5, 3, 40, rng), False,
                    {"trees": "all", "ops": 2, "rec_max_slices": 12}, "seeded sample of 40 networks; all 105 trees"))
        out.append(("Net(6,6,3) sample x sampled trees x sampled subsets", scope.sample_networks(6, 6, 3, 40, rng), False,
                    {"trees": 30, "ops": 2, "rec_max_slices": 12}, "seeded sample of 40 networks; 30 random of 945 trees"))
    else:
        # order matters under a time limit: complete small scopes, then the samples of larger networks,
        # then the big scopes "as far as time allows"
        out.append(("Net(2,3,3) x tree x ALL subsets(<=3) x slice/project x orders", list(scope.networks(2, 3, 3)), True,
                    {"trees": "all", "ops": "all"}, "all 3108 networks; recording run on every case"))
        out.append(("Net(3,3,2) x all trees x ALL subsets(<=3) x slice/project x orders", list(scope.networks(3, 3, 2)), True,
                    {"trees": "all", "ops": "all"}, "all 4106 networks; all 3 trees; recording run on every case"))
        out.append(("Net(4,4,3) sample x all trees x sampled subsets", scope.sample_networks(4, 4, 3, 6000, rng), False,
                    {"trees": "all", "ops": 4}, "seeded sample of 6000 networks"))
        out.append(("Net(5,5,3) sample x all trees x sampled subsets", scope.sample_networks(5, 5, 3, 1000, rng), False,
                    {"trees": "all", "ops": 3, "rec_max_slices": 12}, "seeded sample of 1000 networks; all 105 trees"))
        out.append(("Net(6,6,3) sample x sampled trees x sampled subsets", scope.sample_networks(6, 6, 3, 1000, rng), False,
                    {"trees": 100, "ops": 2, "rec_max_slices": 12}, "seeded sample of 1000 networks; 100 random of 945 trees"))
        out.append(("Net(3,3,3) x all trees x sampled subsets", list(scope.networks(3, 3, 3)), False,
                    {"trees": "all", "ops": 4, "rec_every": 2}, "all 152423 networks; all 3 trees; 4 seeded subsets each + unsliced"))
        out.append(("Net(4,3,2) x all trees x sampled subsets", list(scope.networks(4, 3, 2)), False,
                    {"trees": "all", "ops": 2, "rec_every": 2}, "all 63361 networks; all 15 trees; 2 seeded subsets each + unsliced"))
    return out


# --------------------------------------------------------------------------
# trees refined in place by simulated annealing / tempering: their per-node
# figures are INSTALLED by the move evaluator instead of being recomputed
# --------------------------------------------------------------------------
def run_annealed(rep, tier, rng):
    import cotengra as ctg
    from cotengra import ContractionTree

    n_eval = 0
    count = 60 if tier == "quick" else 400
    for k in range(count):
        n = rng.randint(4, 7)
        sd_seed = rng.randint(0, 10**6)
        con = ctg.utils.rand_equation(n, 3, n_out=rng.randint(0, 2), n_hyper_in=rng.randint(1, 2), n_hyper_out=rng.randint(0, 1), d_min=2, d_max=4, seed=sd_seed)
        inputs, output, sd = con.inputs, con.output, dict(con.size_dict)
        ssa = scope.random_tree_ssa(n, rng)
        how = rng.choice(("anneal", "anneal", "size-anneal"))
        sseed = rng.randint(0, 10**6)
        label = f"C03 {how}ed tree (seed {sseed}) of {eq_str(inputs, output)} sizes {''.join(f'{a}{b}' for a, b in sorted(sd.items()))} from tree {list(ssa)}"
        with warnings.catch_warnings():
            warnings.simplefilter("ignore")
            try:
                tree = ContractionTree.from_path(inputs, output, sd, ssa_path=ssa)
                if how == "anneal":
                    tree.simulated_anneal_(tsteps=6, numiter=6, seed=sseed)
                else:
                    tree = tree.simulated_anneal(tsteps=3, numiter=10, minimize="size", seed=sseed)
                got = tree.contract_stats()
                spec = spec_costs(inputs, output, sd, tuple(tree.get_ssa_path()), ())
                want = {"flops": spec["total_flops"], "write": spec["total_write"], "size": spec["max_size"]}
                msg = None
                for kk in ("flops", "write", "size"):
                    if got.get(kk) != want[kk]:
                        msg = f"contract_stats()['{kk}'] = {got.get(kk)} but the definition gives {want[kk]} for the refined tree {tree.get_ssa_path()}"
                        break
                if msg is None:
                    for p, _l, _r in spec["steps"]:
                        if tree.get_size(p) != spec["size"][p] or tree.get_flops(p) != spec["flops"][p] or set(tree.get_legs(p)) != set(spec["legs"][p]):
                            msg = f"node {sorted(p)}: size/flops/legs {tree.get_size(p)}/{tree.get_flops(p)}/{sorted(tree.get_legs(p))} but the definition gives {spec['size'][p]}/{spec['flops'][p]}/{sorted(spec['legs'][p])}"
                            break
            except Exception as e:  # noqa: BLE001
                msg = f"raised {type(e).__name__}: {str(e)[:100]}"
        n_eval += 1
        rep.nontrivial_case(_digest(label))
        if msg is not None:
            rep.violation(label + ": " + msg, {"module": MODULE, "case": {"annealed": True, "seed": seed(), "index": k}})
            break
    rep.count(n_eval)
    rep.fired("annealed trees: every figure == definition on the refined tree", n_eval)
    rep.scope("trees refined by simulated annealing", n_eval, False,
              bound=f"{count} sampled networks of 4-7 tensors with hyper indices, random start tree, seeded annealing (6x6 sweeps) or size-targeted annealing; totals and per-node size/flops/legs against the independent evaluator on the refined tree's own path")
    return n_eval


def run_bounded(rep: Report, tier: str) -> None:
    global _DEADLINE
    errs = selftest_evaluator()
    if errs:
        rep.crash("C03 independent evaluator disagrees with hand-computed examples: " + "; ".join(errs))
        return
    rng = random.Random(f"{seed()}|C03|plans")
    _DEADLINE = deadline(tier, 300, 25 * 60)  # safety net only: the quick workload is sized for ~20 s on 16 idle cores
    rep.rule = (
        "case = (network with >= 2 tensors, distinct prime dimensions, binary tree, set of <= 3 removed indices each sliced "
        "or projected (applied in a seeded order), tracked-from-construction flag); one evaluation = all cost comparisons of "
        "one case (contract_stats, totals, every node's flops/size, leaf sizes, peak_size for None/'dfs'/random/constant "
        "orders), plus one more evaluation when the recording contraction was run for it. A case is non-trivial iff at "
        "least two distinct index symbols remain after removal (so a wrong survival rule changes some product of primes); "
        "distinct = distinct (network, sizes, tree, removed set with kinds and values, tracked)."
    )
    items = []
    meta = {}
    for name, nets, exh, plan, bound in _plans(tier, rng):
        nets = [(i, o) for (i, o) in nets if len(i) >= 2]
        meta[name] = {"nets": len(nets), "exh": exh, "bound": bound, "done": 0, "cases": 0, "rec": 0, "skipped": 0}
        for idx, (i, o) in enumerate(nets):
            items.append((name, idx, i, o, plan))
    if tier == "quick":
        items.reverse()  # large-network scopes first, the many cheap ones fill the tail (load balance);
        # in thorough the complete small scopes stay first so that a time limit can only cut the big ones
    viols = []
    all_samples = []
    for status, r in pmap(_work, items, chunk=4):
        if status == "crash":
            rep.crash("C03 worker: " + r[:1500])
            continue
        m = meta[r["name"]]
        if r.get("skipped"):
            m["skipped"] += 1
            continue
        m["done"] += 1
        m["cases"] += r["cases"]
        m["rec"] += r["nrec"]
        rep.count(r["n"])
        kb = r["keys"]
        for k in range(0, len(kb), 8):
            rep.nontrivial_case(kb[k : k + 8])
        for nm, c in r["fires"].items():
            rep.fired(nm, c)
        viols.extend(r["viols"])
        all_samples.extend(r["samples"])
    # samples: deterministic choice (results arrive in scheduling order)
    all_samples.sort(key=lambda c: (-len(c["inputs"]), json.dumps(c, sort_keys=True)))
    for smp in all_samples[:: max(1, len(all_samples) // 6)][:6]:
        rep.sample(smp)
    for name, m in meta.items():
        rep.scope(
            name, m["cases"], m["exh"] and m["skipped"] == 0,
            bound=m["bound"] + f"; networks done {m['done']}/{m['nets']}; recording contractions {m['rec']}"
            + (f"; {m['skipped']} networks skipped at the time limit" if m["skipped"] else ""),
        )
    viols.sort(key=lambda v: (len(v[1]["inputs"]), len(v[1]["ops"]), sum(map(len, v[1]["inputs"])), len(v[0]), v[0]))
    reported, seen = 0, set()
    for sig, case, _detail in viols:
        if sig in seen:
            continue
        seen.add(sig)
        rep.violation(sig, {"module": MODULE, "case": case})
        reported += 1
        if reported >= 5:
            break
    rep.extra["c03_violating_cases_seen"] = len(viols)
    if not viols:
        run_annealed(rep, tier, random.Random(f"{seed()}|C03|annealed"))
    rep.extra["c03_evaluator_selftest"] = "hand-computed examples reproduced (chain, outer product first, hyper, batch/output-shared, repeated+single-tensor leaf, sliced inner, projected, sliced output)"
    rep.explanation += (
        "C03 bounded: an evaluator written from the statement (an index survives a step iff it is an output index or sits on a "
        "tensor outside the step's subtree; flops(step) = product of the dimensions of all indices on the two operands; "
        "size(step) = product of the surviving ones; totals x number of slices, largest intermediate not multiplied; removed "
        "indices dropped from every tensor; inputs pre-reduced over indices only they carry / repeated ones) was compared with "
        "contract_stats(), contract_stats(force=True), total_flops(), contraction_cost(), total_write(), max_size(), "
        "get_flops/get_size of every node and leaf, and peak_size(order) against an own live-set simulation along "
        "tree.traverse(order) (checked to be a bottom-up enumeration of all N-1 steps). Distinct prime dimensions make every "
        "product identify its index set. Recording part: tree.contract(float arrays, implementation=(rec, rec)) with a recorder "
        "that logs operand/result shapes and delegates to numpy: the number of two-operand calls is (N-1) per slice and the "
        "result and operand shapes of the k-th call have product get_size(node) and dimensions equal to the surviving indices "
        "of the k-th step of traverse(order). Bounds: 2..6 tensors, <= 6 symbols, rank <= 3, <= 3 removed indices. "
    )
    rep.assumptions.append("C03: integer arithmetic only (dtype=None, log=None variants of the accessors)")
    rep.trusted_base.append("numpy einsum/tensordot as the delegate of the recording implementation (shapes only)")
