"""C04 (under construction)"""
from ..common import Report
from .. import t1


def run(tier):
    rep = Report("C04", tier, level="other")
    rep.explanation = "under construction"
    t1.run_t1(rep, ["vt.contracts.utils_maxcounter"], pid="C04", quick=(tier == "quick"))
    return rep.finish()
