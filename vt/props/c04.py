"""C04 driver (see DESIGN.md section 3, C04)."""
from .generic import run_property, replay_property


def run(tier):
    return run_property("C04", tier)


def replay(path):
    return replay_property("C04", path)
