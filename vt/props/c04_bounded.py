"""C04 bounded driver: incrementally tracked costs equal a from-scratch rebuild
after any history (DESIGN.md section 3, C04, [T3] bullet).

Same history machinery as C02 (`_tree_hist`), sizes are distinct primes so
that equal numbers mean equal index sets.  After EVERY applied step, on a
deep snapshot made by the harness, wf_cost(tree):

 * pure inspection: every PRESENT cached legs / involved / size / flops equals
   the from-scratch value (own evaluator `Spec`); `_flops/_write/_sizes` equal
   the totals over the current nodes whenever `_track_*` is set; sliced_inds /
   sliced_inputs / multiplicity agree;
 * queries: contract_stats(), total_flops(), total_write(), max_size(),
   get_legs (index sets; root as a sequence in output order - counts of the
   root are irrelevant and not compared), get_involved keys, get_size,
   get_flops of every node, multiplicity, sliced_inds (keys, sizes, project,
   order), sliced_inputs, preprocessing  ==  those of a FRESHLY built tree
   `from_path(path=tree.get_path())` + `remove_ind_` of the same indices  ==
   the own evaluator's figures;
 * the value returned by a cost query that is a step of the history itself.

Plus: slicing and then unslicing the same <= 3 indices in every order restores
the original figures exactly (exhaustive on the base set).
"""

from __future__ import annotations

import itertools
import time
import warnings

from ..common import Report, pmap, seed, deadline
from . import _tree_hist as H

MODULE = "vt.props.c04_bounded"

_SCTX = {}


def rebuild(S, case):
    """Fresh tree with the same contraction order and the same sliced /
    projected indices."""
    from cotengra.core import ContractionTree

    with warnings.catch_warnings():
        warnings.simplefilter("ignore")
        R = ContractionTree.from_path(
            [tuple(t) for t in case["inputs"]], tuple(case["output"]), dict(case["size_dict"]), path=S.get_path()
        )
        for ix, si in S.sliced_inds.items():
            if si.project is None:
                R.remove_ind_(ix)
            else:
                R.remove_ind_(ix, project=si.project)
    return R


def figures(T):
    """All cost figures and per-node index sets a tree reports (populates the
    caches of T: call it on a throw-away snapshot only)."""
    N = T.N
    f = {}
    with warnings.catch_warnings():
        warnings.simplefilter("ignore")
        f["contract_stats"] = dict(T.contract_stats())
        f["total_flops"] = T.total_flops()
        f["total_write"] = T.total_write()
        f["max_size"] = T.max_size()
        nodes = {}
        for node in T.info:
            legs = T.get_legs(node)
            nodes[node] = (
                tuple(legs) if (len(node) == N and N > 1) else frozenset(legs),
                frozenset(T.get_involved(node)),
                T.get_size(node),
                T.get_flops(node),
            )
        f["nodes"] = nodes
        f["multiplicity"] = T.multiplicity
        f["sliced_inds"] = [(k, si.inner, si.ind, si.size, si.project) for k, si in T.sliced_inds.items()]
        f["sliced_inputs"] = frozenset(T.sliced_inputs)
        T.has_preprocessing()
        f["preprocessing"] = dict(T.preprocessing)
    return f


def diff_figures(a, b, what_a, what_b):
    probs = []
    for k in ("contract_stats", "total_flops", "total_write", "max_size", "multiplicity", "sliced_inds", "sliced_inputs",
              "preprocessing"):
        if a[k] != b[k]:
            va = sorted(a[k]) if isinstance(a[k], frozenset) else a[k]
            vb = sorted(b[k]) if isinstance(b[k], frozenset) else b[k]
            probs.append(f"{k} of the {what_a} {va} != {what_b} {vb}")
    if set(a["nodes"]) != set(b["nodes"]):
        probs.append(f"nodes of the {what_a} differ from the {what_b}")
    else:
        names = ("legs", "involved", "size", "flops")
        for node in sorted(a["nodes"], key=sorted):
            for nm, x, y in zip(names, a["nodes"][node], b["nodes"][node]):
                if x != y:
                    xs = sorted(x) if isinstance(x, frozenset) else x
                    ys = sorted(y) if isinstance(y, frozenset) else y
                    probs.append(f"get_{nm} of node {sorted(node)}: {what_a} {xs} != {what_b} {ys}")
    return probs


def spec_figures_problems(f, spec, what):
    """The reported figures against the own from-scratch evaluator."""
    probs = []
    tot = spec.totals()
    if f["contract_stats"] != tot:
        probs.append(f"contract_stats of the {what} {f['contract_stats']} != from-scratch {tot}")
    if f["total_flops"] != tot["flops"]:
        probs.append(f"total_flops of the {what} {f['total_flops']} != from-scratch {tot['flops']}")
    if f["total_write"] != tot["write"]:
        probs.append(f"total_write of the {what} {f['total_write']} != from-scratch {tot['write']}")
    if f["max_size"] != tot["size"]:
        probs.append(f"max_size of the {what} {f['max_size']} != from-scratch {tot['size']}")
    if f["multiplicity"] != spec.mult:
        probs.append(f"multiplicity of the {what} {f['multiplicity']} != from-scratch {spec.mult}")
    for node, (legs, inv, size, flops) in f["nodes"].items():
        nd = sorted(node)
        if isinstance(legs, tuple):
            if list(legs) != spec.root_legs():
                probs.append(f"get_legs of the root ({what}) {list(legs)} != output order {spec.root_legs()}")
        elif set(legs) != set(spec.legs(node)):
            probs.append(f"get_legs of node {nd} ({what}) {sorted(legs)} != from-scratch {sorted(spec.legs(node))}")
        if set(inv) != set(spec.involved(node)):
            probs.append(f"get_involved of node {nd} ({what}) {sorted(inv)} != from-scratch {sorted(spec.involved(node))}")
        if size != spec.size(node):
            probs.append(f"get_size of node {nd} ({what}) {size} != from-scratch {spec.size(node)}")
        if flops != spec.flops(node):
            probs.append(f"get_flops of node {nd} ({what}) {flops} != from-scratch {spec.flops(node)}")
    return probs


class Checker:
    poly = False

    def __init__(self):
        self.fires = {}
        self.rebuilt = {}
        self.state_ok = set()

    def fire(self, k, n=1):
        self.fires[k] = self.fires.get(k, 0) + n

    def __call__(self, st, env, op, ret):
        case = env.case
        probs = []
        S, raw_fp = H.clone_fp(st.tree)
        self.fire("wf_cost.structure")
        ps = H.structure_problems(S)
        if ps:
            return ["wf_cost: " + p for p in ps]
        spec = H.Spec(case["inputs"], case["output"], case["size_dict"], S.children, S.sliced_inds,
                      [k for k, si in S.sliced_inds.items() if si.project is not None])
        # value returned by a cost query of the history itself
        name = op[0]
        if name in ("contract_stats", "total_flops", "total_write", "max_size"):
            self.fire("returned-by-history-query")
            tot = spec.totals()
            want = {"contract_stats": tot, "total_flops": tot["flops"], "total_write": tot["write"], "max_size": tot["size"]}[name]
            if ret != want:
                probs.append(f"{name}() returned {ret} != from-scratch {want}")
        # every check below is a deterministic function of the complete state
        # of the snapshot (and of the projections requested): a state that is
        # byte-for-byte identical to one already found in order is not
        # examined again
        fp = (raw_fp, tuple(sorted(st.proj.items())))
        if fp in self.state_ok:
            self.fire("identical state already checked (comparison skipped)")
            if st.orig is not None:
                self.fire("copy-independence")
                probs += ["copy: " + p for p in H.orig_problems(st)]
            return probs
        n_before = len(probs)
        # ---- pure inspection of the snapshot
        self.fire("wf_cost.slicing")
        probs += ["wf_cost: " + p for p in H.slicing_problems(S, case, st.proj)]
        self.fire("wf_cost.cached-legs/involved/size/flops", len(S.info))
        probs += ["wf_cost: " + p for p in H.cache_problems(S, case, spec)]
        self.fire("wf_cost.tracked-totals")
        probs += ["wf_cost: " + p for p in H.tracked_problems(S, spec)]
        # ---- queries against a freshly built tree and the own evaluator
        try:
            S1 = H.clone(S)
            with warnings.catch_warnings():
                warnings.simplefilter("ignore")
                # individual queries first, on their own copy (each switches
                # on its own tracker only)
                indiv = {"total_write": S1.total_write(), "max_size": S1.max_size(), "total_flops": S1.total_flops()}
            # the rebuilt tree is a function of (path, sliced/projected
            # indices) only: build it once per distinct key
            key = (S.get_path(), tuple((k, si.project) for k, si in S.sliced_inds.items()))
            fR = self.rebuilt.get(key)
            if fR is None:
                fR = self.rebuilt[key] = figures(rebuild(S, case))
            fS = figures(S)
        except Exception as e:  # noqa: BLE001
            probs.append(f"cost query raised {type(e).__name__}: {str(e)[:60]}")
            return probs
        self.fire("rebuild-comparison", len(fS["nodes"]))
        tot = spec.totals()
        for k, key in (("total_write", "write"), ("max_size", "size"), ("total_flops", "flops")):
            if indiv[k] != tot[key]:
                probs.append(f"{k}() asked first {indiv[k]} != from-scratch {tot[key]}")
        probs += diff_figures(fS, fR, "tree", "rebuilt tree")
        probs += spec_figures_problems(fS, spec, "tree")
        if len(probs) == n_before:
            self.state_ok.add(fp)
        if st.orig is not None:
            self.fire("copy-independence")
            probs += ["copy: " + p for p in H.orig_problems(st)]
        return probs


# --------------------------------------------------------------------------
# slice then unslice the same <= 3 indices in every order
# --------------------------------------------------------------------------
def work_slice_unslice(item):
    ci, prep, with_project = item
    ctx = _SCTX
    case = ctx["cases"][ci]
    out = {"n": 0, "nt": [], "viol": [], "timeout": 0, "id": [ci, prep, with_project], "fired": 0}
    if time.time() > ctx["deadline"]:
        out["timeout"] = 1
        return out
    env = H.Env(case, poly=False)
    st0, err = H._prepare(case, prep, env)
    if st0 is None:
        out["viol"].append((f"C04 slice/unslice on {H.case_label(case)} from state '{prep}': {err}",
                            {"kind": "slice_unslice", "net": H.case_json(case), "prep": prep, "slice": [], "unslice": [], "project": False}))
        return out
    f0 = figures(H.clone(st0.tree))
    inds = H.all_indices(case)
    sd = case["size_dict"]
    kmax = 2 if with_project else 3
    for k in range(1, kmax + 1):
        for sub in itertools.combinations(inds, k):
            for ps in itertools.permutations(sub):
                # slice in order ps once, then fork for every unslice order
                st1 = st0.fork()
                hist = []
                ok = True
                for j, ix in enumerate(ps):
                    kw = {"ind": ix}
                    if with_project and j == 0:
                        kw["project"] = sd[ix] - 1
                    op = ["remove_ind_", kw]
                    hist.append(op)
                    status, payload = H.apply_op(st1, op, env)
                    if status != "ok":
                        ok = False
                        out["viol"].append((f"C04 slice/unslice {H.hist_label(hist)} from state '{prep}' on {H.case_label(case)}: {status} {payload}",
                                            _su_case(case, prep, ps, (), with_project)))
                        break
                if not ok:
                    continue
                for pu in itertools.permutations(sub):
                    if time.time() > ctx["deadline"]:
                        out["timeout"] = 1
                        return out
                    st2 = st1.fork()
                    h2 = list(hist)
                    bad = None
                    for ix in pu:
                        op = ["restore_ind_", {"ind": ix}]
                        h2.append(op)
                        status, payload = H.apply_op(st2, op, env)
                        if status != "ok":
                            bad = f"{status} {payload}"
                            break
                    out["n"] += 1
                    out["nt"].append([list(ps), list(pu)])
                    if bad is None:
                        probs = su_problems(st2.tree, f0, case)
                        out["fired"] += 1
                        bad = probs[0] if probs else None
                    if bad is not None:
                        out["viol"].append((f"C04 slice/unslice {H.hist_label(h2)} from state '{prep}' on {H.case_label(case)}: {H.short(bad)}",
                                            _su_case(case, prep, ps, pu, with_project)))
                        if len(out["viol"]) >= 4:
                            return out
    return out


def _su_case(case, prep, ps, pu, with_project):
    return {"kind": "slice_unslice", "net": H.case_json(case), "prep": prep, "slice": list(ps), "unslice": list(pu),
            "project": bool(with_project)}


def su_problems(tree, f0, case):
    S = H.clone(tree)
    spec = H.Spec(case["inputs"], case["output"], case["size_dict"], S.children, S.sliced_inds, ())
    probs = ["wf_cost: " + p for p in H.cache_problems(S, case, spec)]
    probs += ["wf_cost: " + p for p in H.tracked_problems(S, spec)]
    try:
        f1 = figures(S)
    except Exception as e:  # noqa: BLE001
        return probs + [f"cost query raised {type(e).__name__}"]
    probs += diff_figures(f1, f0, "tree after slicing+unslicing", "original")
    return probs


def replay_slice_unslice(case):
    net = H.case_from_json(case["net"])
    env = H.Env(net, poly=False)
    st, err = H._prepare(net, case["prep"], env)
    if st is None:
        return False, err
    f0 = figures(H.clone(st.tree))
    hist = []
    for j, ix in enumerate(case["slice"]):
        kw = {"ind": ix}
        if case.get("project") and j == 0:
            kw["project"] = net["size_dict"][ix] - 1
        hist.append(["remove_ind_", kw])
    for ix in case["unslice"]:
        hist.append(["restore_ind_", {"ind": ix}])
    for op in hist:
        status, payload = H.apply_op(st, op, env)
        if status != "ok":
            return False, f"{H.op_label(op)}: {status} {payload}"
    probs = su_problems(st.tree, f0, net) if case["unslice"] else []
    if probs:
        return False, f"{H.hist_label(hist)} from state '{case['prep']}' on {H.case_label(net)}: {probs[0]}"
    return True, f"{H.hist_label(hist)} on {H.case_label(net)} restored the original figures"


# --------------------------------------------------------------------------
def run_bounded(rep: Report, tier: str) -> None:
    global _SCTX
    quick = tier == "quick"
    rep.rule = (
        "a case = (network with distinct prime sizes, initial tree, prepared cache state, history) - histories "
        "enumerated exhaustively over the concrete menu up to the stated length plus seeded longer samples - or "
        "(network, tree, state, ordered subset of <= 3 indices sliced, order of unslicing); non-trivial when the last "
        "operation was applicable so that the comparison with the rebuilt tree ran; distinct = distinct tuples"
    )
    viols = H.run_histories(
        rep, tier, pid="C04", module=MODULE, checker=Checker, sizes="primes", with_write=True,
        quick_budget_s=200, nsamp_quick=320, nsamp_thorough=6000, seed_value=seed(), pmap=pmap, deadline=deadline,
    )

    # ---- slice then unslice in every order --------------------------------
    cases = H.base_cases(seed(), sizes="primes")
    preps = ["contracted", "annealed"] if quick else ["fresh", "stats", "contracted", "sorted+contracted", "annealed"]
    items = [(ci, prep, wp) for ci in range(len(cases)) for prep in preps for wp in (False, True)]
    items.sort(key=lambda it: (-len(H.all_indices(cases[it[0]])), it))
    _SCTX = {"cases": cases, "deadline": deadline(tier, 120, 900)}
    n0 = rep.evaluations
    t_out = 0
    for status, r in pmap(work_slice_unslice, items, chunk=1):
        if status == "crash":
            rep.crash(f"C04 slice/unslice worker crashed: {r[:600]}")
            continue
        t_out += r["timeout"]
        rep.count(r["n"])
        rep.fired("slice-unslice restores figures", r["fired"])
        for key in r["nt"]:
            rep.nontrivial_case(["su", r["id"]] + key)
        viols.extend(r["viol"])
    rep.scope(
        f"slice then unslice every subset of <= 3 indices (<= 2 when the first one is projected) in every order x every order x {len(cases)} pairs x states {preps}",
        rep.evaluations - n0, exhaustive=(t_out == 0),
        bound="base set, distinct prime sizes" + ("" if not t_out else f"; {t_out} work items cut by the time budget"),
    )
    rep.sample({"slice_unslice": "remove_ind_ a,b,c in every order then restore_ind_ in every order; figures == original"})

    H.report_violations(rep, MODULE, viols)
    rep.explanation += (
        "C04 bounded: along every history the snapshot's cached and tracked cost figures are compared (a) by pure "
        "inspection with an independent from-scratch evaluator, (b) through the public queries with a freshly built "
        "tree from (get_path(), sliced/projected indices) and with the evaluator; root leg counts are not compared. "
        "Slice-then-unslice of <= 3 indices in every order must restore every figure exactly. Bounds: exhaustive only "
        "up to the stated history length / subset size on the stated base set; longer histories and larger networks "
        "are seeded samples. "
    )
    rep.assumptions.append(
        "parallel=False/None everywhere; seeds fixed; the global `random` generator is re-seeded before every "
        "operation; `contract` steps run on float arrays (their values are not checked here, see C02)"
    )
    rep.trusted_base.append(
        "vt.props._tree_hist.Spec (from-scratch legs/involved/size/flops/totals); ContractionTree.from_path + "
        "remove_ind_ on a fresh tree as the second reference; pickle round trip as the harness-side deep copy"
    )


def replay(case):
    if case.get("kind") == "slice_unslice":
        return replay_slice_unslice(case)
    return H.replay_history(case, Checker)
