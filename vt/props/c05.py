"""C05 driver (see DESIGN.md section 3, C05)."""
from .generic import run_property, replay_property


def run(tier):
    return run_property("C05", tier)


def replay(path):
    return replay_property("C05", path)
