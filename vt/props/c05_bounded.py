"""C05 bounded driver: every pathfinder returns a complete, well-formed
contraction of its network (DESIGN.md section 3, C05, [T3] bullet).

A run-time post-condition is evaluated on the result of every exact entry
point -- presets through array_contract_path / array_contract_tree /
find_path / find_tree, every usable exact function of ``_PATH_FNS`` called
directly with seeded samples of its registered search space, HyperOptimizer
with one method, optimizer objects, explicit linear / SSA / edge paths --
exhaustively over small networks (1-, 2- and 3-tensor scopes including
scalars, disconnected parts, hyper and repeated indices) and on seeded samples
of larger ones.  The post-condition (pf_common.check_tree /
check_linear_path) is written from the statement and shares no code with
cotengra.  An exception or a call that does not return is a violation.
"""

from __future__ import annotations

import random
import time
import warnings

from ..common import Report, pmap, seed, deadline
from .. import scope
from . import pf_common as pc

MODULE = "vt.props.c05_bounded"

PRESETS = ("greedy", "optimal", "optimal-outer", "auto", "auto-hq", "random")
APIS = ("acp", "act", "find_path", "find_tree")
# exact hyper methods whose dependencies are installed here
METHODS = ("greedy", "random-greedy", "labels", "labels-agglom", "kahypar", "kahypar-balanced", "kahypar-agglom", "random")
PARTITION_DIVISIVE = ("labels", "kahypar", "kahypar-balanced")
NEED_MODULE = {"kahypar": "kahypar", "kahypar-balanced": "kahypar", "kahypar-agglom": "kahypar"}
SIZE_VALUES = (2, 3, 2, 5, 1, 2, 3, 4)
CALL_TIMEOUT = 60.0  # CPU seconds (the slowest call of the unchanged tree needs about 6 s on an idle core)

_DEADLINE = None


# --------------------------------------------------------------------------
# executing one entry (shared by the workers and by replay)
# --------------------------------------------------------------------------
def usable_methods():
    import importlib.util

    from cotengra.hyperoptimizers.hyper import _PATH_FNS

    out = []
    for m in METHODS:
        if m not in _PATH_FNS:
            continue
        need = NEED_MODULE.get(m)
        if need and importlib.util.find_spec(need) is None:
            continue
        out.append(m)
    return out


def _call(entry, inputs, output, sd):
    """Run the real entry point.  Returns ('path'|'tree'|'both', value, must_be_complete)."""
    import cotengra as ctg
    from cotengra.interface import find_path, find_tree

    kind = entry["kind"]
    if kind == "preset":
        api, preset = entry["api"], entry["preset"]
        if api == "acp":
            return "path", ctg.array_contract_path(inputs, output, sd, optimize=preset, cache=False), True
        if api == "act":
            return "tree", ctg.array_contract_tree(inputs, output, sd, optimize=preset), True
        if api == "find_path":
            return "path", find_path(inputs, output, sd, optimize=preset), True
        return "tree", find_tree(inputs, output, sd, optimize=preset), True
    if kind == "fn":
        from cotengra.hyperoptimizers.hyper import _PATH_FNS, get_hyper_constants

        m = entry["method"]
        kw = dict(get_hyper_constants()[m])
        kw.update(entry["params"])
        return "tree", _PATH_FNS[m](inputs, output, sd, **kw), True
    if kind == "hyper":
        opt = ctg.HyperOptimizer(
            methods=[entry["method"]], max_repeats=3, optlib="random", parallel=False,
            on_trial_error="raise", seed=entry["seed"],
        )
        if entry.get("api") == "call":
            return "path", opt(inputs, output, sd), True
        tree = opt.search(inputs, output, sd)
        return "both", (tree, opt.path), True
    if kind == "object":
        which = entry["which"]
        if which == "RandomGreedyOptimizer":
            opt = ctg.RandomGreedyOptimizer(max_repeats=4, seed=entry["seed"], parallel=False)
        elif which == "RandomOptimizer":
            opt = ctg.RandomOptimizer(seed=entry["seed"])
        elif which == "GreedyOptimizer":
            opt = ctg.pathfinders.path_basic.GreedyOptimizer(
                costmod=entry["costmod"], temperature=entry["temperature"], accel=False)
        elif which == "OptimalOptimizer":
            opt = ctg.pathfinders.path_basic.OptimalOptimizer(
                minimize=entry["minimize"], search_outer=entry["search_outer"], accel=False)
        else:
            raise ValueError(which)
        if entry["api"] == "find_path":
            return "path", find_path(inputs, output, sd, optimize=opt), True
        if entry["api"] == "acp":
            return "path", ctg.array_contract_path(inputs, output, sd, optimize=opt), True
        if entry["api"] == "act":
            return "tree", ctg.array_contract_tree(inputs, output, sd, optimize=opt), True
        return "tree", find_tree(inputs, output, sd, optimize=opt), True
    if kind == "explicit":
        fmt = entry["format"]
        p = entry["path"]
        if fmt in ("path", "ssa_path"):
            p = tuple(tuple(c) for c in p)
        else:
            p = tuple(p)
        api = entry["api"]
        if api == "from_path":
            tree = ctg.ContractionTree.from_path(inputs, output, sd, autocomplete=True, **{fmt: p})
            return "tree", tree, True
        # through the public dispatchers (linear or edge paths only)
        complete = fmt == "path"
        if api == "acp":
            return "path", ctg.array_contract_path(inputs, output, sd, optimize=p, cache=False), complete
        if api == "find_path":
            return "path", find_path(inputs, output, sd, optimize=p), complete
        if api == "act":
            return "tree", ctg.array_contract_tree(inputs, output, sd, optimize=p), True
        return "tree", find_tree(inputs, output, sd, optimize=p), True
    raise ValueError(kind)


def run_entry(entry, inputs, output, sd):
    """None if the post-condition held, else a message."""
    n = len(inputs)
    pc.seed_all(entry.get("rs", 0))
    with warnings.catch_warnings():
        warnings.simplefilter("ignore")
        try:
            what, val, complete = pc.with_timeout(CALL_TIMEOUT, _call, entry, inputs, output, sd)
        except pc.Timeout:
            return f"did not return within {CALL_TIMEOUT:.0f} s of CPU time"
        except Exception as e:  # noqa: BLE001 - raising on a valid network is the violation
            return f"raised {type(e).__name__}: {str(e)[:100]}"
        try:
            if what in ("path", "both"):
                path = val[1] if what == "both" else val
                msg = pc.check_linear_path(path, n, complete=complete)
                if msg:
                    return f"returned path {_short(path)}: {msg}"
            if what in ("tree", "both"):
                tree = val[0] if what == "both" else val
                msg = pc.check_tree(tree, n)
                if msg:
                    return "returned tree: " + msg
                path = tree.get_path()
                msg = pc.check_linear_path(path, n, complete=True)
                if msg:
                    return f"tree.get_path() {_short(path)}: {msg}"
        except pc.Timeout:
            raise
        except Exception as e:  # noqa: BLE001
            return f"inspecting the result raised {type(e).__name__}: {str(e)[:100]}"
    return None


def _short(path):
    try:
        return str([tuple(c) for c in path])[:120]
    except TypeError:
        return repr(path)[:120]


def entry_label(entry):
    k = entry["kind"]
    if k == "preset":
        return f"{_api_name(entry['api'])}(optimize={entry['preset']!r})"
    if k == "fn":
        over = {x: entry["params"][x] for x in ("cutoff", "groupsize") if x in entry.get("forced", ())}
        return f"_PATH_FNS[{entry['method']!r}]" + (f" with {over}" if over else "")
    if k == "hyper":
        return f"HyperOptimizer(methods=[{entry['method']!r}], max_repeats=3, optlib='random')." + (
            "__call__" if entry.get("api") == "call" else "search")
    if k == "object":
        return f"{_api_name(entry['api'])}(optimize={entry['which']}(...))"
    if k == "explicit":
        if entry["api"] == "from_path":
            return f"ContractionTree.from_path({entry['format']}=...)"
        return f"{_api_name(entry['api'])}(optimize=<explicit {entry['format']}>)"
    return k


def _api_name(api):
    return {"acp": "array_contract_path", "act": "array_contract_tree"}.get(api, api)


def replay(case):
    inputs, output, sd = pc.net_from_case(case)
    msg = run_entry(case["entry"], inputs, output, sd)
    if msg is None:
        return True, f"{entry_label(case['entry'])} on {pc.eq_str(inputs, output)}: complete well-formed contraction"
    return False, f"{entry_label(case['entry'])} on {pc.eq_str(inputs, output)}: {msg}"


# --------------------------------------------------------------------------
# building the entries for one network
# --------------------------------------------------------------------------
def random_explicit_ssa(n, rng, max_arity=3, unary=True):
    """A random complete SSA path with steps of arity 1..max_arity."""
    ids = list(range(n))
    nxt = n
    path = []
    guard = 0
    while len(ids) > 1:
        guard += 1
        if unary and guard < 3 * n and rng.random() < 0.15:
            a = 1
        else:
            a = rng.randint(2, min(max_arity, len(ids)))
        con = rng.sample(ids, a)
        for c in con:
            ids.remove(c)
        ids.append(nxt)
        nxt += 1
        path.append(tuple(con))
    return tuple(path)


def build_entries(inputs, output, plan, rng, methods, spaces):
    n = len(inputs)
    entries = []
    rs = rng.randrange(1 << 30)

    def add(e):
        e["rs"] = rs
        entries.append(e)

    # the exhaustive presets are exponential in the number of tensors: beyond 9 tensors a slow answer is
    # not a missing answer, so they are only asked on networks where they answer within seconds
    presets = PRESETS if n <= 9 else tuple(p for p in PRESETS if not p.startswith("optimal"))
    for preset in presets:
        for api in APIS:
            add({"kind": "preset", "api": api, "preset": preset})
    # direct calls of the registered finders
    for m in methods:
        for k in range(plan["fn_samples"]):
            params = pc.sample_space(spaces[m], rng)
            add({"kind": "fn", "method": m, "params": params})
        for k in range(plan.get("fn_forced", 0)):
            params = pc.sample_space(spaces[m], rng)
            forced = []
            if m in ("labels", "kahypar"):
                params["cutoff"] = rng.choice((2, 3))
                forced.append("cutoff")
            elif m == "kahypar-balanced":
                params["cutoff"] = 2
                forced.append("cutoff")
            elif m == "kahypar-agglom":
                # groupsize is a registered parameter of kahypar-agglom (2..64); small values reach the partitioner
                params["groupsize"] = rng.choice((2, 3))
                forced.append("groupsize")
            else:
                continue
            add({"kind": "fn", "method": m, "params": params, "forced": forced})
    hm = list(methods)
    rng.shuffle(hm)
    for m in hm[: plan["hyper_methods"]]:
        add({"kind": "hyper", "method": m, "seed": rng.randrange(1 << 30), "api": rng.choice(("search", "search", "call"))})
    # optimizer objects
    objs = [
        {"kind": "object", "which": "RandomGreedyOptimizer", "seed": rng.randrange(1 << 30)},
        {"kind": "object", "which": "RandomOptimizer", "seed": rng.randrange(1 << 30)},
        {"kind": "object", "which": "GreedyOptimizer", "costmod": rng.uniform(0.1, 4.0),
         "temperature": rng.choice((0.0, rng.uniform(0.001, 1.0)))},
        {"kind": "object", "which": "OptimalOptimizer",
         "minimize": rng.choice(("flops", "size", "write", "max", "combo", "limit", "combo-256")),
         "search_outer": rng.choice((False, True))},
    ]
    if n > 9:
        objs = [o for o in objs if o["which"] != "OptimalOptimizer"]  # exponential: see the presets above
    for o in objs[: plan["objects"]] if plan["objects"] < len(objs) else objs:
        o["api"] = rng.choice(("find_path", "find_tree", "acp", "act"))
        add(o)
    # explicit paths
    for k in range(plan["explicit"]):
        ssa = random_explicit_ssa(n, rng, max_arity=3 if k % 2 else 2, unary=(k % 3 == 2))
        add({"kind": "explicit", "format": "ssa_path", "api": "from_path", "path": pc.path_json(ssa)})
        lin = pc.my_ssa_to_linear(ssa, n)
        add({"kind": "explicit", "format": "path", "api": rng.choice(("from_path", "acp", "act", "find_path", "find_tree")),
             "path": pc.path_json(lin)})
        inds = sorted({ix for t in inputs for ix in t})
        if inds:
            rng.shuffle(inds)
            if k % 2:
                inds = inds[: rng.randint(1, len(inds))]
            add({"kind": "explicit", "format": "edge_path", "api": rng.choice(("from_path", "from_path", "find_tree", "find_path", "act")),
                 "path": list(inds)})
    return entries


def _work(item):
    name, idx, inputs, output, plan = item
    if (_DEADLINE is not None and time.time() > _DEADLINE) or pc.too_many_timeouts():
        return {"skipped": 1, "name": name}
    from cotengra.hyperoptimizers.hyper import get_hyper_space

    rng = random.Random(f"{seed()}|C05|{name}|{idx}")
    methods = usable_methods()
    spaces = get_hyper_space()
    sd = pc.random_sizes(inputs, output, SIZE_VALUES, rng)
    n = len(inputs)
    feats = scope.features(inputs, output)
    featured = bool(feats & {"repeated", "scalar", "hyper", "single-tensor-index", "disconnected"})
    nontrivial = n >= 3 or (n == 2 and featured) or (n == 1 and ("repeated" in feats or "single-tensor-index" in feats))
    eq = pc.eq_str(inputs, output)
    entries = build_entries(inputs, output, plan, rng, methods, spaces)
    keys, viols, samples = [], [], []
    fires = {}
    extra = {}
    for e in entries:
        if pc.too_many_timeouts():
            break
        msg = run_entry(e, inputs, output, sd)
        lab = entry_label(e)
        kname = e["kind"] + (":" + e.get("method", e.get("preset", e.get("which", e.get("format", "")))))
        fires[kname] = fires.get(kname, 0) + 1
        if e["kind"] == "fn" and e["method"] in PARTITION_DIVISIVE and n > e["params"].get("cutoff", 10):
            extra["divisive_partitioner_reached(n>cutoff)"] = extra.get("divisive_partitioner_reached(n>cutoff)", 0) + 1
        if e["kind"] == "fn" and e["method"].endswith("agglom") and n > e["params"].get("groupsize", 4):
            extra["agglomerative_partitioner_reached(n>groupsize)"] = extra.get("agglomerative_partitioner_reached(n>groupsize)", 0) + 1
        if nontrivial:
            keys.append(pc.digest(f"{eq}|{lab}"))
        if msg is not None:
            if len(viols) < 3:
                case = pc.net_case(inputs, output, sd)
                case["entry"] = e
                viols.append((f"C05 {lab} on {eq} sizes {pc.sizes_str(sd)}: {msg}", case))
        elif idx % 211 == 7 and nontrivial and len(samples) < 1 and e["kind"] in ("fn", "hyper"):
            case = pc.net_case(inputs, output, sd)
            case["entry"] = e
            samples.append(case)
    return {"name": name, "n": sum(fires.values()), "keys": b"".join(keys), "viols": viols, "samples": samples,
            "fires": fires, "extra": extra}


# --------------------------------------------------------------------------
# scopes
# --------------------------------------------------------------------------
def big_networks(count, rng, nmin=5, nmax=8, k=6, r=3, extra_scalars=False):
    out = []
    for _ in range(count):
        n = rng.randint(nmin, nmax)
        (net,) = scope.sample_networks(n, k, r, 1, rng)
        out.append(net)
    return out


def degenerate_networks():
    """Index-free and fully disconnected networks large enough to enter the
    partitioners with their registered cutoffs (cutoff >= 10, groupsize 4)."""
    out = []
    for n in (5, 11, 12):
        out.append((tuple(() for _ in range(n)), ()))
        ins = tuple((scope.SYMS[i],) for i in range(n))
        out.append((ins, ()))
        out.append((ins, tuple(scope.SYMS[i] for i in range(0, n, 2))))
    # a 12-tensor ring and a 12-tensor chain with a hyper index, plain connected cases above the cutoff
    ring = tuple((scope.SYMS[i], scope.SYMS[(i + 1) % 12]) for i in range(12))
    out.append((ring, ()))
    out.append((ring, ("a", "g")))
    star = tuple(("a", scope.SYMS[i + 1]) for i in range(11)) + (("b", "c"),)
    out.append((star, ("a",)))
    return out


def _plans(tier, rng):
    full = {"fn_samples": 8, "fn_forced": 3, "hyper_methods": 8, "objects": 4, "explicit": 3}
    light = {"fn_samples": 2, "fn_forced": 1, "hyper_methods": 2, "objects": 4, "explicit": 2}
    out = []
    out.append(("Net(1,3,3) complete", list(scope.networks(1, 3, 3)), True, full,
                "all 1-tensor networks (rank <= 3 over <= 3 symbols, every output order); 8+3 parameter samples per finder"))
    if tier == "quick":
        out.append(("Net(2,3,3) complete", list(scope.networks(2, 3, 3)), True, light,
                    "all 3108 networks; every preset x 4 entry points; 2+1 parameter samples per registered finder (seeded per network)"))
        out.append(("Net(3,3,2) complete", list(scope.networks(3, 3, 2)), True, full,
                    "all 4106 networks; every preset x 4 entry points; 8+3 parameter samples per registered finder"))
        out.append(("Net(3,3,3) sample", scope.sample_networks(3, 3, 3, 800, rng), False, full, "seeded sample of 800 of 152423; 8+3 parameter samples"))
        out.append(("Net(4,4,2) sample", scope.sample_networks(4, 4, 2, 1000, rng), False, full, "seeded sample of 1000 of 318811; 8+3 parameter samples"))
        out.append(("Net(5..8,6,3) sample", big_networks(1000, rng), False, full,
                    "seeded sample of 1000 networks with 5-8 tensors over 6 symbols, rank <= 3; 8 samples of each registered space + 3 with small cutoff/groupsize"))
        out.append(("Net(13..14,8,3) sample", big_networks(24, rng, 13, 14, 8, 3), False, light,
                    "seeded sample of 24 networks with 13-14 tensors: above the registered cutoffs, and 'auto' leaves the optimal regime (hyper-optimizer branch)"))
    else:
        out.append(("Net(2,3,3) complete", list(scope.networks(2, 3, 3)), True, full, "all 3108 networks; 8+3 parameter samples"))
        out.append(("Net(3,3,2) complete", list(scope.networks(3, 3, 2)), True, full, "all 4106 networks; 8+3 parameter samples"))
        out.append(("Net(3,3,3) complete", list(scope.networks(3, 3, 3)), True, light, "all 152423 networks; 2+1 parameter samples"))
        out.append(("Net(4,4,2) sample", scope.sample_networks(4, 4, 2, 20000, rng), False, full, "seeded sample of 20000 of 318811"))
        out.append(("Net(5..8,6,3) sample", big_networks(10000, rng), False, full, "seeded sample of 10000 networks"))
        out.append(("Net(9..14,8,3) sample", big_networks(400, rng, 9, 14, 8, 3), False, full,
                    "seeded sample of 400 networks with 9-14 tensors (above the registered cutoffs; 'auto' leaves the optimal regime)"))
    out.append(("degenerate and above-cutoff networks (11-12 tensors)", degenerate_networks(), True, full,
                "index-free, fully disconnected, ring and star networks with 5/11/12 tensors: the registered cutoffs (>= 10) and groupsize are exceeded"))
    return out


def run_bounded(rep: Report, tier: str) -> None:
    global _DEADLINE
    rng = random.Random(f"{seed()}|C05|plans")
    _DEADLINE = deadline(tier, 300, 30 * 60)  # safety net only; the quick scopes are sized to finish well before
    methods = usable_methods()
    from cotengra.hyperoptimizers.hyper import _PATH_FNS

    rep.rule = (
        "case = (network with one seeded size assignment from {1,2,3,4,5}, entry point with its parameters); one evaluation = one "
        "call of the real entry point followed by the post-condition (complete tree: leaves partition range(N), every parent the "
        "disjoint union of its two children, N-1 internal nodes, root = all; linear path: replayed on N items, positions in range "
        "and distinct, one tensor left). Non-trivial iff the network has >= 3 tensors, or 2 tensors and a structural feature "
        "(repeated / scalar / hyper / single-tensor index / disconnected), or 1 tensor with something to pre-reduce; distinct = "
        "distinct (network, entry point label) pairs (parameter samples of the same finder are not counted separately)."
    )
    rep.explanation += (
        "C05 bounded: post-condition on presets " + ", ".join(PRESETS) + " through array_contract_path/array_contract_tree/"
        "find_path/find_tree; direct calls of _PATH_FNS " + ", ".join(methods) + " with seeded samples of get_hyper_space() plus "
        "get_hyper_constants(), and extra samples with cutoff in {2,3} / groupsize in {2,3} so that the partitioners run on small "
        "networks; HyperOptimizer(methods=[m], max_repeats=3, optlib='random', parallel=False, on_trial_error='raise'); optimizer "
        "objects (RandomGreedyOptimizer(parallel=False), RandomOptimizer, GreedyOptimizer, OptimalOptimizer); explicit linear, SSA "
        "(arity 1-3 steps) and edge paths through ContractionTree.from_path(autocomplete=True) and the dispatchers. Exceptions and "
        f"calls that do not return within {CALL_TIMEOUT:.0f} s of CPU time are violations. "
    )
    skipped = sorted(set(_PATH_FNS) - set(methods) - {"greedy-compressed", "greedy-span", "greedy-span-max"})
    rep.assumptions.append(
        "registered finders not exercised because their third-party dependency is not installed here (igraph / flowcutter / quickbb): "
        + ", ".join(skipped)
    )
    rep.assumptions.append(
        "unseeded randomness inside the finders is made reproducible by seeding Python's global `random` (cotengra's get_rng(None)) per case"
    )
    rep.trusted_base.append("pf_common.check_tree / check_linear_path (the post-condition itself), kahypar (third-party partitioner)")
    agg = pc.Agg(rep, MODULE)
    items = []
    for name, nets, exh, plan, bound in _plans(tier, rng):
        nets = list(nets)
        agg.declare(name, len(nets), exh, bound)
        for idx, (i, o) in enumerate(nets):
            items.append((name, idx, i, o, plan))
    # expensive items first so that the pool drains evenly
    items.sort(key=lambda it: len(it[2]))  # small networks first: the smallest failing input is found before any time limit
    for status, r in pmap(_work, items, chunk=8):
        agg.add(status, r, "C05")
    agg.finish()
