"""C06 - slices partition the contraction exactly and are reassembled correctly."""
from ..common import Report
from .. import t1


def run(tier):
    rep = Report("C06", tier, level="other")
    rep.explanation = "under construction"
    t1.run_t1(rep, ["vt.contracts.core_slicing"], pid="C06", quick=(tier == "quick"))
    return rep.finish()
