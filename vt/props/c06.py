"""C06 driver (see DESIGN.md section 3, C06)."""
from .generic import run_property, replay_property


def run(tier):
    return run_property("C06", tier)


def replay(path):
    return replay_property("C06", path)
