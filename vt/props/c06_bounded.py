"""C06 bounded driver: slices partition the contraction exactly and are
reassembled correctly (DESIGN.md section 3, C06, [T2] bullet).

case = (network, size assignment, binary tree, ordered list of <= 3 removed
indices, each either sliced or projected to a value, contraction options).
The tree is built with ``ContractionTree.from_path`` and the indices are
removed with ``tree.remove_ind_(ix)`` / ``tree.remove_ind_(ix, project=v)``.
Oracles are written from the statement and use only ``symval.dense_einsum``
(sum over all index assignments, optionally with fixed index values).
"""

from __future__ import annotations

import hashlib
import itertools
import json
import random
import time
import warnings

import numpy as np

from ..common import Report, pmap, seed, deadline
from .. import scope, symval

MODULE = "vt.props.c06_bounded"
IMPLS = (None, "cotengra", "autoray")
_DEADLINE = None


def eq_str(inputs, output):
    return ",".join("".join(t) for t in inputs) + "->" + "".join(output)


def ops_str(ops):
    return "[" + ", ".join(f"slice({ix})" if v is None else f"project({ix}={v})" for ix, v in ops) + "]"


def _unwrap(x):
    a = symval.as_array(x)
    return a[()] if a.ndim == 0 else a


def _fire(fires, k, n=1):
    fires[k] = fires.get(k, 0) + n


def run_case(inputs, output, sd, ssa, ops, pe=False, impl=None, fires=None):
    """Execute one case; returns None if all contracts held, else (tag, message)."""
    from cotengra import ContractionTree

    if fires is None:
        fires = {}
    arrays = symval.make_arrays(inputs, sd)
    opts = {"prefer_einsum": pe, "implementation": impl}
    removed = [ix for ix, _v in ops]
    projected = {ix: v for ix, v in ops if v is not None}
    sliced = [ix for ix, v in ops if v is None]
    want_nslices = 1
    for ix in sliced:
        want_nslices *= sd[ix]

    with warnings.catch_warnings():
        warnings.simplefilter("ignore")
        try:
            tree = ContractionTree.from_path(inputs, output, sd, ssa_path=ssa)
            for ix, v in ops:
                if v is None:
                    tree.remove_ind_(ix)
                else:
                    tree.remove_ind_(ix, project=v)
        except Exception as e:  # noqa: BLE001
            return "remove_ind raised", f"{type(e).__name__}: {str(e)[:120]}"

        # ---- (a) numbering -------------------------------------------------
        try:
            nslices = tree.nslices
            mult = tree.multiplicity
            keys = [dict(tree.slice_key(i)) for i in range(want_nslices)]
        except Exception as e:  # noqa: BLE001
            return "slice_key raised", f"{type(e).__name__}: {str(e)[:120]}"
        if nslices != want_nslices or mult != want_nslices:
            return "nslices wrong", f"nslices={nslices} multiplicity={mult}, product of sliced sizes={want_nslices}"
        seen = set()
        for i, key in enumerate(keys):
            if set(key) != set(removed):
                return "slice_key indices wrong", f"slice_key({i})={key} but removed indices are {removed}"
            for ix, val in key.items():
                if ix in projected:
                    if val != projected[ix]:
                        return "slice_key projected value wrong", f"slice_key({i})[{ix}]={val}, projected to {projected[ix]}"
                elif not (isinstance(val, int) and 0 <= val < sd[ix]):
                    return "slice_key value out of range", f"slice_key({i})[{ix}]={val}, size {sd[ix]}"
            seen.add(tuple(key[ix] for ix in removed))
        if len(seen) != want_nslices:
            return "slice_key not injective", f"{want_nslices} slice numbers give only {len(seen)} distinct value combinations"
        _fire(fires, "slice numbers <-> value combinations bijective")

        # ---- (e) slice_arrays ------------------------------------------------
        for i, key in enumerate(keys):
            try:
                got = tree.slice_arrays(arrays, i)
            except Exception as e:  # noqa: BLE001
                return "slice_arrays raised", f"slice {i}: {type(e).__name__}: {str(e)[:120]}"
            if len(got) != len(arrays):
                return "slice_arrays length", f"slice {i}: {len(got)} arrays for {len(arrays)} inputs"
            for c, term in enumerate(inputs):
                want = arrays[c][tuple(key[ix] if ix in key else slice(None) for ix in term)] if term else arrays[c]
                wshape = tuple(sd[ix] for ix in term if ix not in key)
                g = symval.as_array(got[c])
                if g.shape != wshape or not symval.equal(g, want):
                    return "slice_arrays wrong", f"slice {i} input {c} ({''.join(term)}): shape {g.shape}, expected {wshape} = axes of non-removed indices at key {key}"
            _fire(fires, "slice_arrays indexes exactly the removed axes")

        # ---- (b) contract == reference ---------------------------------------
        ref = symval.dense_einsum(inputs, output, arrays, sd, fixed=projected)
        try:
            res = tree.contract(arrays, **opts)
        except Exception as e:  # noqa: BLE001
            return "contract raised", f"{type(e).__name__}: {str(e)[:120]}"
        if symval.as_array(res).shape != ref.shape:
            return "contract shape wrong", f"shape {symval.as_array(res).shape}, reference {ref.shape}"
        if not symval.equal(res, ref):
            return "contract value differs", str(symval.first_diff(res, ref))[:200]
        _fire(fires, "contract(sliced tree) == dense reference")

        # ---- (c) every slice, and the hand-placed sum -------------------------
        rem_out_shape = tuple(sd[ix] for ix in output if ix not in removed)
        total = np.empty(ref.shape, dtype=object)
        for idx in np.ndindex(ref.shape):
            total[idx] = symval.Poly()
        for i, key in enumerate(keys):
            try:
                s = tree.contract_slice(arrays, i, **opts)
            except Exception as e:  # noqa: BLE001
                return "contract_slice raised", f"slice {i}: {type(e).__name__}: {str(e)[:120]}"
            sa = symval.as_array(s)
            if sa.shape != rem_out_shape:
                return "contract_slice shape wrong", f"slice {i}: shape {sa.shape}, expected {rem_out_shape}"
            sref = symval.dense_einsum(inputs, output, arrays, sd, fixed=key).reshape(rem_out_shape)
            if not symval.equal(sa, sref):
                return "contract_slice value differs", f"slice {i} key {key}: " + str(symval.first_diff(sa, sref))[:160]
            place = tuple((0 if ix in projected else key[ix]) if ix in key else slice(None) for ix in output)
            if rem_out_shape == ():
                total[place] = total[place] + _unwrap(s)
            else:
                total[place] = total[place] + sa
            _fire(fires, "contract_slice(i) == reference at slice_key(i)")
        if not symval.equal(total, ref):
            return "hand-placed sum of slices differs", str(symval.first_diff(total, ref))[:200]
        _fire(fires, "sum/stack of slices by hand == reference")

        # gather_slices on the real per-slice results, given lazily like contract does
        try:
            g = tree.gather_slices(tree.contract_slice(arrays, i, **opts) for i in range(want_nslices))
        except Exception as e:  # noqa: BLE001
            return "gather_slices raised", f"{type(e).__name__}: {str(e)[:120]}"
        if symval.as_array(g).shape != ref.shape or not symval.equal(g, ref):
            return "gather_slices differs", f"shape {symval.as_array(g).shape} vs {ref.shape}: " + str(symval.first_diff(g, ref))[:160]
        _fire(fires, "gather_slices == reference")

        # ---- (d) output chunks tile the output exactly once -------------------
        out_sliced = [ix for ix in output if ix in sliced]
        out_proj = [ix for ix in output if ix in projected]
        want_nchunks = 1
        for ix in out_sliced:
            want_nchunks *= sd[ix]
        try:
            nchunks = tree.nchunks
            chunks = list(tree.gen_output_chunks(arrays, with_key=True, **opts))
        except Exception as e:  # noqa: BLE001
            return "gen_output_chunks raised", f"{type(e).__name__}: {str(e)[:120]}"
        if nchunks != want_nchunks or len(chunks) != want_nchunks:
            return "nchunks wrong", f"nchunks={nchunks}, generated {len(chunks)}, product of sliced output sizes={want_nchunks}"
        seen = set()
        for item in chunks:
            try:
                chunk, key = item
                key = dict(key)
            except Exception:  # noqa: BLE001
                return "gen_output_chunks item malformed", repr(item)[:120]
            if not (set(out_sliced) <= set(key) <= set(out_sliced) | set(out_proj)):
                return "chunk key indices wrong", f"key {key}, sliced output indices {out_sliced}, projected output {out_proj}"
            for ix, val in key.items():
                if ix in projected:
                    if val != projected[ix]:
                        return "chunk key projected value wrong", f"key {key}"
                elif not (isinstance(val, int) and 0 <= val < sd[ix]):
                    return "chunk key value out of range", f"key {key}"
            kt = tuple(key[ix] for ix in out_sliced)
            if kt in seen:
                return "chunk generated twice", f"key {key}"
            seen.add(kt)
            section = ref[tuple((0 if ix in projected else key[ix]) if ix in removed else slice(None) for ix in output)]
            ca = symval.as_array(chunk)
            if ca.shape != rem_out_shape:
                return "chunk shape wrong", f"key {key}: shape {ca.shape}, expected {rem_out_shape}"
            if not symval.equal(ca, section):
                return "chunk value differs", f"key {key}: " + str(symval.first_diff(ca, symval.as_array(section)))[:160]
        if len(seen) != want_nchunks:
            return "chunks do not tile the output", f"{len(seen)} distinct sections of {want_nchunks}"
        # without keys the same chunks in the same order
        try:
            plain = list(tree.gen_output_chunks(arrays, **opts))
        except Exception as e:  # noqa: BLE001
            return "gen_output_chunks(with_key=False) raised", f"{type(e).__name__}: {str(e)[:120]}"
        if len(plain) != len(chunks) or not all(symval.equal(a, b[0]) for a, b in zip(plain, chunks)):
            return "gen_output_chunks(with_key=False) differs from with_key=True", ""
        _fire(fires, "output chunks tile the output exactly once")
    return None


def make_case(inputs, output, sd, ssa, ops, pe, impl):
    return {
        "inputs": [list(t) for t in inputs],
        "output": list(output),
        "sizes": dict(sd),
        "ssa_path": [list(p) for p in ssa],
        "ops": [[ix, v] for ix, v in ops],
        "prefer_einsum": pe,
        "implementation": impl,
    }


def signature(case, tag):
    ops = [(ix, v) for ix, v in case["ops"]]
    return (
        f"C06 {tag} after {ops_str(ops)} on {eq_str(case['inputs'], case['output'])} sizes "
        f"{''.join(f'{k}{v}' for k, v in sorted(case['sizes'].items()))} tree {json.dumps(case['ssa_path'])} "
        f"(prefer_einsum={case['prefer_einsum']}, implementation={case['implementation']!r})"
    )


def replay(case):
    symval.register_autoray()
    inputs = tuple(tuple(t) for t in case["inputs"])
    output = tuple(case["output"])
    sd = {k: int(v) for k, v in case["sizes"].items()}
    ssa = tuple(tuple(p) for p in case["ssa_path"])
    ops = [(ix, (None if v is None else int(v))) for ix, v in case["ops"]]
    r = run_case(inputs, output, sd, ssa, ops, bool(case.get("prefer_einsum")), case.get("implementation"))
    if r is None:
        return True, "numbering, slice_arrays, contract, per-slice values, gather_slices and output chunks all agree with the dense reference"
    return False, f"{eq_str(inputs, output)} tree {list(ssa)} ops {ops_str(ops)}: {r[0]}: {r[1]}"


# --------------------------------------------------------------------------
def all_ops(inds, sd, rng, maxlen=3):
    """Every ordered subset of <= maxlen indices, each sliced or projected
    (projection value drawn with rng)."""
    out = []
    for m in range(1, min(maxlen, len(inds)) + 1):
        for perm in itertools.permutations(inds, m):
            for kinds in itertools.product((0, 1), repeat=m):
                out.append(tuple((ix, (rng.randrange(sd[ix]) if k else None)) for ix, k in zip(perm, kinds)))
    return out


def kinds_of(inputs, output, ops):
    app = {}
    for t in inputs:
        for s in set(t):
            app[s] = app.get(s, 0) + 1
    removed = {ix for ix, _ in ops}
    ks = set()
    for ix, v in ops:
        if ix in output:
            ks.add("output")
            if app[ix] >= 2:
                ks.add("hyper")
        else:
            if app[ix] == 1:
                ks.add("single-tensor")
            elif app[ix] == 2:
                ks.add("inner")
            else:
                ks.add("hyper")
        if any(t.count(ix) > 1 for t in inputs):
            ks.add("repeated")
        ks.add("projected" if v is not None else "sliced")
    if any(t and all(ix in removed for ix in t) for t in inputs):
        ks.add("fully-sliced-tensor")
    return ks


def _digest(s):
    return hashlib.blake2b(s.encode(), digest_size=8).digest()


def _work(item):
    """item = (name, idx, inputs, output, plan); plan: trees 'all'|int, ops 'all'|int, nsizes int."""
    name, idx, inputs, output, plan = item
    if _DEADLINE is not None and time.time() > _DEADLINE:
        return {"skipped": 1, "name": name}
    symval.register_autoray()
    rng = random.Random(f"{seed()}|C06|{name}|{idx}")
    n = len(inputs)
    eq = eq_str(inputs, output)
    inds = sorted({s for t in inputs for s in t})
    if plan["trees"] == "all":
        trees = list(scope.all_trees(n))
    else:
        trees = sorted({scope.random_tree_ssa(n, rng) for _ in range(plan["trees"])})
    res = {"name": name, "n": 0, "keys": [], "viols": [], "samples": [], "fires": {}, "kinds": {}, "cases": 0}
    if not inds:
        res["keys"] = b""
        return res
    c = idx
    for _si in range(plan.get("nsizes", 1)):
        # dimensions from {1,2,3}: mostly 2, some 1 and 3
        sd = {ix: rng.choice((1, 2, 2, 2, 3, 3)) for ix in inds}
        for ssa in trees:
            if plan["ops"] == "all":
                opss = all_ops(inds, sd, rng)
            else:
                opss = []
                for _ in range(plan["ops"]):
                    m = rng.randint(1, min(3, len(inds)))
                    perm = rng.sample(inds, m)
                    opss.append(tuple((ix, (rng.randrange(sd[ix]) if rng.random() < 0.35 else None)) for ix in perm))
                opss = list(dict.fromkeys(opss))
            for ops in opss:
                c += 1
                pe = bool(c % 2)
                impl = IMPLS[(c // 2) % 3]
                r = run_case(inputs, output, sd, ssa, ops, pe, impl, res["fires"])
                res["n"] += 1
                res["cases"] += 1
                ks = kinds_of(inputs, output, ops)
                for k in ks:
                    res["kinds"][k] = res["kinds"].get(k, 0) + 1
                if any(sd[ix] >= 2 for ix, _ in ops):
                    szs = "".join(f"{k}{v}" for k, v in sorted(sd.items()))
                    res["keys"].append(_digest(f"{eq}|{szs}|{ssa}|{ops}"))
                if r is not None:
                    if len(res["viols"]) < 2:
                        case = make_case(inputs, output, sd, ssa, ops, pe, impl)
                        res["viols"].append((signature(case, r[0]), case, r[1]))
                elif idx % 53 == 7 and not res["samples"] and len(ops) >= 2 and "output" in ks and "sliced" in ks:
                    res["samples"].append(make_case(inputs, output, sd, ssa, ops, pe, impl))
    res["keys"] = b"".join(res["keys"])
    return res


def _plans(tier, rng):
    def ge1(nets):
        return [(i, o) for (i, o) in nets if any(len(t) for t in i)]

    out = []
    if tier == "quick":
        out.append(("Net(2,3,2) x tree x ALL ordered subsets(<=3) x slice/project", ge1(scope.networks(2, 3, 2)), True,
                    {"trees": "all", "ops": "all", "nsizes": 1}, "all 225 networks (the one without any index is skipped); one seeded size assignment from {1,2,3} each"))
        out.append(("Net(2,2,3) x tree x ALL ordered subsets x slice/project", ge1(scope.networks(2, 2, 3)), True,
                    {"trees": "all", "ops": "all", "nsizes": 2}, "all 516 networks; two seeded size assignments from {1,2,3} each"))
        out.append(("Net(3,2,2) x all trees x ALL ordered subsets x slice/project", ge1(scope.networks(3, 2, 2)), True,
                    {"trees": "all", "ops": "all", "nsizes": 1}, "all 778 networks; all 3 trees"))
        out.append(("Net(2,3,3) x tree x sampled ordered subsets", ge1(scope.networks(2, 3, 3)), False,
                    {"trees": "all", "ops": 8, "nsizes": 1}, "all 3108 networks; 8 seeded (ordered subset, slice/project) choices each"))
        out.append(("Net(3,3,2) x all trees x sampled ordered subsets", ge1(scope.networks(3, 3, 2)), False,
                    {"trees": "all", "ops": 3, "nsizes": 1}, "all 4106 networks; all 3 trees; 3 seeded choices per tree"))
        out.append(("Net(3,4,3) sample x all trees x sampled subsets", scope.sample_networks(3, 4, 3, 800, rng), False,
                    {"trees": "all", "ops": 3, "nsizes": 1}, "seeded sample of 800 networks"))
        out.append(("Net(4,4,3) sample x all trees x sampled subsets", scope.sample_networks(4, 4, 3, 200, rng), False,
                    {"trees": "all", "ops": 2, "nsizes": 1}, "seeded sample of 200 networks; all 15 trees"))
        out.append(("Net(5,5,3) sample x sampled trees x sampled subsets", scope.sample_networks(5, 5, 3, 60, rng), False,
                    {"trees": 8, "ops": 2, "nsizes": 1}, "seeded sample of 60 networks; 8 random trees each"))
    else:
        out.append(("Net(2,3,2) x tree x ALL ordered subsets(<=3) x slice/project", ge1(scope.networks(2, 3, 2)), True,
                    {"trees": "all", "ops": "all", "nsizes": 6}, "all 225 networks; 6 seeded size assignments from {1,2,3}"))
        out.append(("Net(2,2,3) x tree x ALL ordered subsets x slice/project", ge1(scope.networks(2, 2, 3)), True,
                    {"trees": "all", "ops": "all", "nsizes": 6}, "all 516 networks"))
        out.append(("Net(3,2,2) x all trees x ALL ordered subsets x slice/project", ge1(scope.networks(3, 2, 2)), True,
                    {"trees": "all", "ops": "all", "nsizes": 4}, "all 778 networks; all 3 trees"))
        out.append(("Net(2,3,3) x tree x ALL ordered subsets x slice/project", ge1(scope.networks(2, 3, 3)), True,
                    {"trees": "all", "ops": "all", "nsizes": 1}, "all 3108 networks"))
        out.append(("Net(3,3,2) x all trees x ALL ordered subsets x slice/project", ge1(scope.networks(3, 3, 2)), True,
                    {"trees": "all", "ops": "all", "nsizes": 1}, "all 4106 networks; all 3 trees"))
        out.append(("Net(3,3,3) sample x all trees x sampled subsets", scope.sample_networks(3, 3, 3, 20000, rng), False,
                    {"trees": "all", "ops": 4, "nsizes": 1}, "seeded sample of 20000 networks"))
        out.append(("Net(4,4,3) sample x all trees x sampled subsets", scope.sample_networks(4, 4, 3, 3000, rng), False,
                    {"trees": "all", "ops": 3, "nsizes": 1}, "seeded sample of 3000 networks; all 15 trees"))
        out.append(("Net(5,5,3) sample x sampled trees x sampled subsets", scope.sample_networks(5, 5, 3, 1500, rng), False,
                    {"trees": 20, "ops": 3, "nsizes": 1}, "seeded sample of 1500 networks; 20 random trees each"))
    return out


def run_bounded(rep: Report, tier: str) -> None:
    global _DEADLINE
    rng = random.Random(f"{seed()}|C06|plans")
    _DEADLINE = deadline(tier, 300, 25 * 60)  # safety net only: the quick workload is sized for ~15 s on 16 idle cores
    rep.rule = (
        "case = (network, size assignment from {1,2,3}, binary tree, ordered list of <= 3 distinct indices each either "
        "sliced or projected to a value, (prefer_einsum, implementation) rotated); one evaluation = one such case with all "
        "of: numbering bijection over all slice numbers, slice_arrays, contract, every contract_slice, hand-placed sum, "
        "gather_slices, output chunks. A case is non-trivial iff at least one removed index has dimension >= 2 (so that "
        "slicing/projecting is not a no-op); distinct = distinct (network, sizes, tree, ordered ops with projection values)."
    )
    items = []
    meta = {}
    for name, nets, exh, plan, bound in _plans(tier, rng):
        nets = [(i, o) for (i, o) in nets if any(len(t) for t in i)]
        meta[name] = {"nets": len(nets), "exh": exh, "bound": bound, "done": 0, "cases": 0, "skipped": 0}
        for idx, (i, o) in enumerate(nets):
            items.append((name, idx, i, o, plan))
    if tier == "quick":
        items.reverse()  # large-network scopes first, the many cheap ones fill the tail (load balance);
        # in thorough the complete small scopes stay first so that a time limit can only cut the big ones
    viols = []
    kinds = {}
    all_samples = []
    for status, r in pmap(_work, items, chunk=4):
        if status == "crash":
            rep.crash("C06 worker: " + r[:1500])
            continue
        m = meta[r["name"]]
        if r.get("skipped"):
            m["skipped"] += 1
            continue
        m["done"] += 1
        m["cases"] += r["cases"]
        rep.count(r["n"])
        kb = r["keys"]
        for k in range(0, len(kb), 8):
            rep.nontrivial_case(kb[k : k + 8])
        for nm, c in r["fires"].items():
            rep.fired(nm, c)
        for nm, c in r["kinds"].items():
            kinds[nm] = kinds.get(nm, 0) + c
        viols.extend(r["viols"])
        all_samples.extend(r["samples"])
    # samples: deterministic choice (results arrive in scheduling order)
    all_samples.sort(key=lambda c: (-len(c["inputs"]), json.dumps(c, sort_keys=True)))
    for smp in all_samples[:: max(1, len(all_samples) // 6)][:6]:
        rep.sample(smp)
    for name, m in meta.items():
        rep.scope(
            name, m["cases"], m["exh"] and m["skipped"] == 0,
            bound=m["bound"] + f"; networks done {m['done']}/{m['nets']}"
            + (f"; {m['skipped']} networks skipped at the time limit" if m["skipped"] else ""),
        )
    rep.extra["c06_cases_by_kind_of_removed_index"] = dict(sorted(kinds.items()))
    viols.sort(key=lambda v: (len(v[1]["inputs"]), len(v[1]["ops"]), sum(map(len, v[1]["inputs"])), len(v[0]), v[0]))
    reported, seen = 0, set()
    for sig, case, _detail in viols:
        if sig in seen:
            continue
        seen.add(sig)
        rep.violation(sig, {"module": MODULE, "case": case})
        reported += 1
        if reported >= 5:
            break
    rep.extra["c06_violating_cases_seen"] = len(viols)
    rep.explanation += (
        "C06 bounded-symbolic: after tree.remove_ind_(ix[, project=v]) for every ordered list of <= 3 indices (inner, output, "
        "hyper, single-tensor, repeated; size-1 dimensions; tensors whose indices are all removed), checked on polynomial "
        "arrays: (a) nslices == multiplicity == product of the sliced sizes and slice_key maps 0..nslices-1 one-to-one onto "
        "in-range value combinations with projected indices at their value; (b) tree.contract(arrays) == dense reference "
        "with projected indices fixed (projected output axis has length 1), shape included; (c) every contract_slice(i) == "
        "dense reference with all removed indices fixed at slice_key(i), the hand-placed sum/stack of the slices and "
        "tree.gather_slices both == reference; (d) gen_output_chunks(with_key=True) yields nchunks chunks whose keys are "
        "distinct value combinations of the sliced output indices, each equal to the corresponding section of the "
        "reference, so the sections tile the output exactly once, and with_key=False yields the same chunks; "
        "(e) slice_arrays(arrays, i) indexes exactly the axes carrying removed indices at the key values. "
        "Bounds: 2..5 tensors, <= 5 symbols, rank <= 3, dimensions {1,2,3}, <= 3 removed indices (<= 27 slices). "
    )
    rep.assumptions.append("C06: equality as integer polynomials; strip_exponent gathering (float-only path) is covered by C19, not here")
    rep.trusted_base.append("vt.symval (Poly arithmetic, dense_einsum with fixed indices), numpy object-array indexing/stack")
