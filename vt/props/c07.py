"""C07 driver (see DESIGN.md section 3, C07)."""
from .generic import run_property, replay_property


def run(tier):
    return run_property("C07", tier)


def replay(path):
    return replay_property("C07", path)
