"""C07 bounded driver: the slice finder's predicted costs are real and its
targets are honoured (DESIGN.md section 3, C07, [T3] bullet).

(A) `SliceFinder(tree, ...).search(max_repeats)` over networks x trees (plain /
    already sliced on one index / one index projected / annealed) x target kind
    and value x allow_outer in {True, False, 'only'} x objective x temperature x
    seed x max_repeats.  Whenever it RETURNS `(ix_sl, cost)`:
      t2 = tree.copy(); t2.remove_ind_(ix) for ix in ix_sl
      cost.size == t2.max_size()
      cost.total_flops * tree.multiplicity == t2.total_flops()
      cost.nslices * tree.multiplicity == t2.multiplicity
      every specified target holds on t2 (size <= target_size; number of
      slices >= target_slices "on top of the current number of slices", i.e.
      t2.multiplicity >= target_slices * tree.multiplicity; overhead
      t2.total_flops()/tree.total_flops() <= target_overhead, relative to the
      tree handed in)
      allow_outer=False => no output index chosen; 'only' => only output indices.
    Searches that RAISE (ran out of indices, no cached slicing meets the
    target, an index that takes part in no contraction was picked) are outside
    the statement ("whenever the search returns"): counted, not flagged.
(B) `tree.slice(...)` / `tree.slice_(...)` (also reslice=True): sliced_inds of
    the result contain the previous ones (unless reslice), the target holds on
    the result, and the value is unchanged (polynomial arrays, small sizes).
(C) `ContractionCosts.from_contraction_tree(tree).remove(ix)` (chained for
    every ordered pair): size, flops, nslices and the per-contraction
    (involved, legs, size, flops) tuples equal those of `tree.remove_ind(ix)`.
"""

from __future__ import annotations

import itertools
import random
import time
import warnings

from ..common import Report, pmap, seed, deadline
from .. import symval
from . import _tree_hist as H

MODULE = "vt.props.c07_bounded"

OBJECTIVES = ("flops", "size", "write", "combo", "limit")
TEMPS = (0, 0.01, 1.0)
OUTERS = (True, False, "only")
VARIANTS = ("plain", "sliced1", "projected1", "annealed")
EXPECTED_RAISES = (RuntimeError, ValueError, KeyError)

_CTX = {}


# --------------------------------------------------------------------------
def make_tree(case, variant):
    """The tree handed to the slice finder."""
    t = H.build_tree(case)
    good = H.resolve_prep([["remove_ind_", {"ind": "@0"}]], case)[0][1]["ind"]
    with warnings.catch_warnings():
        warnings.simplefilter("ignore")
        if variant == "sliced1":
            t.remove_ind_(good)
        elif variant == "projected1":
            t.remove_ind_(good, project=0)
        elif variant == "annealed":
            t.simulated_anneal_(tsteps=1, numiter=1, tstart=1e6, tfinal=1e6, seed=0)
        elif variant != "plain":
            raise ValueError(variant)
    return t


def targets_for(tree):
    """Target menus relative to the tree's own figures."""
    with warnings.catch_warnings():
        warnings.simplefilter("ignore")
        sizes = sorted({tree.get_size(p) for p in tree.children})
    mx = sizes[-1]
    med = sizes[len(sizes) // 2]
    tsz = []
    for v in (1, 2, med, max(mx - 1, 1), mx):
        if v not in tsz:
            tsz.append(v)
    out = [{"target_size": v} for v in tsz]
    out += [{"target_slices": v} for v in (2, 6, 100)]
    out += [{"target_overhead": v} for v in (1.0, 1.5, 4)]
    out.append({"target_size": med, "target_overhead": 4})
    out.append({"target_slices": 2, "target_size": 2})
    return out


def sliced_figures(tree, ix_sl, memo=None):
    """(max_size, total_flops, multiplicity) of the tree actually sliced."""
    key = frozenset(ix_sl)
    if memo is not None and key in memo:
        return memo[key]
    with warnings.catch_warnings():
        warnings.simplefilter("ignore")
        t2 = tree.copy()
        for ix in sorted(ix_sl):
            t2.remove_ind_(ix)
        r = (t2.max_size(), t2.total_flops(), t2.multiplicity)
    if memo is not None:
        memo[key] = r
    return r


def check_search_result(tree, base, ix_sl, cost, cfg, memo=None):
    """Problems of one returned (ix_sl, cost).  base = (max_size, total_flops,
    multiplicity) of the tree handed in."""
    probs = []
    output = set(tree.output)
    already = set(tree.sliced_inds)
    ix_sl = set(ix_sl)
    if ix_sl & already:
        return [f"chose {sorted(ix_sl & already)} which the tree handed in has already sliced"]
    if cfg["allow_outer"] is False and ix_sl & output:
        probs.append(f"allow_outer=False but output indices {sorted(ix_sl & output)} chosen")
    if cfg["allow_outer"] == "only" and ix_sl - output:
        probs.append(f"allow_outer='only' but inner indices {sorted(ix_sl - output)} chosen")
    try:
        size2, flops2, mult2 = sliced_figures(tree, ix_sl, memo)
    except Exception as e:  # noqa: BLE001
        return probs + [f"slicing the tree on the returned indices {sorted(ix_sl)} raised {type(e).__name__}"]
    _size0, flops0, mult0 = base
    if cost.size != size2:
        probs.append(f"predicted size {cost.size} != max_size {size2} of the tree sliced on {sorted(ix_sl)}")
    if cost.total_flops * mult0 != flops2:
        probs.append(f"predicted total_flops {cost.total_flops} x {mult0} != total_flops {flops2} of the tree sliced on {sorted(ix_sl)}")
    if cost.nslices * mult0 != mult2:
        probs.append(f"predicted nslices {cost.nslices} x {mult0} != multiplicity {mult2} of the tree sliced on {sorted(ix_sl)}")
    ts, tn, to = cfg.get("target_size"), cfg.get("target_slices"), cfg.get("target_overhead")
    if ts is not None and size2 > ts:
        probs.append(f"target_size {ts} not honoured: sliced tree has max_size {size2}")
    if tn is not None and mult2 < tn * mult0:
        probs.append(f"target_slices {tn} not honoured: {mult2} slices on top of {mult0}")
    if to is not None and flops2 / flops0 > to:
        probs.append(f"target_overhead {to} not honoured: overhead {flops2}/{flops0}")
    return probs


def run_search(tree, cfg):
    """-> ('ok', (ix_sl, cost)) | ('raised', class name) | ('error', text)"""
    from cotengra.slicer import SliceFinder

    kw = {k: cfg[k] for k in ("target_size", "target_slices", "target_overhead") if cfg.get(k) is not None}
    random.seed(4242)
    try:
        with warnings.catch_warnings():
            warnings.simplefilter("ignore")
            sf = SliceFinder(tree, temperature=cfg["temperature"], minimize=cfg["minimize"], allow_outer=cfg["allow_outer"],
                             seed=cfg["seed"], **kw)
            ix_sl, cost = sf.search(cfg["max_repeats"])
    except EXPECTED_RAISES as e:
        msg = str(e)
        if isinstance(e, RuntimeError):
            kind = "RuntimeError(ran out of valid indices)" if "Ran out" in msg else "RuntimeError(other)"
        elif isinstance(e, ValueError):
            kind = "ValueError(empty candidate set)" if ("empty" in msg) else "ValueError(other)"
        else:
            kind = "KeyError(index in no contraction picked)"
        return "raised", kind
    except Exception as e:  # noqa: BLE001
        return "error", f"search raised unexpected {type(e).__name__}"
    return "ok", (ix_sl, cost)


def cfg_label(cfg):
    keys = ("target_size", "target_slices", "target_overhead", "allow_outer", "minimize", "temperature", "seed", "max_repeats")
    return ",".join(f"{k}={cfg[k]!r}" for k in keys if cfg.get(k) is not None)


def sig_search(case, variant, cfg, prob):
    return f"C07 SliceFinder({cfg_label(cfg)}).search on {H.case_label(case)} [{variant}]: {H.short(prob)}"


def base_figures(tree):
    with warnings.catch_warnings():
        warnings.simplefilter("ignore")
        return (tree.max_size(), tree.total_flops(), tree.multiplicity)


# --------------------------------------------------------------------------
# (A) searches
# --------------------------------------------------------------------------
def configs(tree, seeds, repeats, objectives, rng=None, sample=None):
    tg = targets_for(tree)
    allc = []
    for t, ao, mn, temp, sd, mr in itertools.product(tg, OUTERS, objectives, TEMPS, seeds, repeats):
        cfg = {"target_size": None, "target_slices": None, "target_overhead": None}
        cfg.update(t)
        cfg.update({"allow_outer": ao, "minimize": mn, "temperature": temp, "seed": sd, "max_repeats": mr})
        allc.append(cfg)
    if sample is not None and len(allc) > sample:
        allc = rng.sample(allc, sample)
    return allc


def work_search(item):
    kind, ci, variant, objective = item
    ctx = _CTX
    out = {"n": 0, "nt": [], "viol": [], "raised": {}, "returned": 0, "nonempty": 0, "timeout": 0, "id": [kind, ci, variant, objective],
           "samples": []}
    if time.time() > ctx["deadline"]:
        out["timeout"] = 1
        return out
    if kind == "rand":
        rng = random.Random(99991 * ctx["seed"] + 31 * ci + 7)
        case = H.random_case(rng, nmin=6, nmax=10, max_space=10**30, sizes="primes")
        cfgs_kw = {"seeds": (0, 1), "repeats": (1, 4), "objectives": OBJECTIVES, "rng": rng, "sample": ctx["rand_sample"]}
    else:
        case = ctx[kind][ci]
        cfgs_kw = {"seeds": ctx["seeds"], "repeats": (1, 4), "objectives": (objective,)}
    tree = make_tree(case, variant)
    base = base_figures(tree)
    memo = {}
    for k, cfg in enumerate(configs(tree, **cfgs_kw)):
        status, payload = run_search(tree, cfg)
        out["n"] += 1
        if status == "raised":
            out["raised"][payload] = out["raised"].get(payload, 0) + 1
            continue
        rc = {"kind": "search", "net": H.case_json(case), "variant": variant, "cfg": cfg}
        if status == "error":
            out["viol"].append((sig_search(case, variant, cfg, payload), rc))
            continue
        ix_sl, cost = payload
        out["returned"] += 1
        if ix_sl:
            out["nonempty"] += 1
            out["nt"].append(k)
        probs = check_search_result(tree, base, ix_sl, cost, cfg, memo)
        if probs:
            out["viol"].append((sig_search(case, variant, cfg, probs[0]), rc))
            if len(out["viol"]) >= 6:
                break
        elif ix_sl and not out["samples"] and ci == 0:
            out["samples"].append({"network": H.case_label(case), "tree_variant": variant, "search": cfg_label(cfg),
                                   "returned": sorted(ix_sl), "predicted": {"size": cost.size, "total_flops": cost.total_flops, "nslices": cost.nslices}})
    return out


# --------------------------------------------------------------------------
# (B) tree.slice / tree.slice_ postconditions
# --------------------------------------------------------------------------
def slice_configs(tree):
    out = []
    for t in targets_for(tree):
        for ao in OUTERS:
            for reslice in (False, True):
                for inplace in (False, True):
                    cfg = {"target_size": None, "target_slices": None, "target_overhead": None}
                    cfg.update(t)
                    cfg.update({"allow_outer": ao, "reslice": reslice, "inplace": inplace, "seed": 0, "max_repeats": 4})
                    out.append(cfg)
    return out


def run_slice(tree, cfg):
    kw = {k: cfg[k] for k in ("target_size", "target_slices", "target_overhead") if cfg.get(k) is not None}
    random.seed(4242)
    try:
        with warnings.catch_warnings():
            warnings.simplefilter("ignore")
            fn = tree.slice_ if cfg["inplace"] else tree.slice
            res = fn(allow_outer=cfg["allow_outer"], reslice=cfg["reslice"], seed=cfg["seed"], max_repeats=cfg["max_repeats"], **kw)
    except EXPECTED_RAISES as e:
        if H._in_slicer(e.__traceback__):
            return "raised", type(e).__name__
        return "error", f"slice raised {type(e).__name__} outside the slice finder"
    except Exception as e:  # noqa: BLE001
        return "error", f"slice raised unexpected {type(e).__name__}"
    return "ok", res


def check_slice_result(tree0, before, res, cfg, env, value_memo):
    """tree0: pristine copy of the tree the call was made on; before: its
    (keys, max_size, total_flops, multiplicity, unsliced total_flops)."""
    probs = []
    keys0, _size0, flops0, mult0, flops_unsliced = before
    with warnings.catch_warnings():
        warnings.simplefilter("ignore")
        keys = list(res.sliced_inds)
        size2, flops2, mult2 = res.max_size(), res.total_flops(), res.multiplicity
    if not cfg["reslice"] and not set(keys) >= set(keys0):
        probs.append(f"sliced_inds {keys} of the result do not contain the previous {keys0}")
    new = set(keys) - set(keys0)
    output = set(tree0.output)
    if cfg["allow_outer"] is False and new & output:
        probs.append(f"allow_outer=False but output indices {sorted(new & output)} sliced")
    if cfg["allow_outer"] == "only" and new - output:
        probs.append(f"allow_outer='only' but inner indices {sorted(new - output)} sliced")
    ts, tn, to = cfg.get("target_size"), cfg.get("target_slices"), cfg.get("target_overhead")
    if ts is not None and size2 > ts:
        probs.append(f"target_size {ts} not honoured: result has max_size {size2}")
    if tn is not None and mult2 < tn * mult0:
        probs.append(f"target_slices {tn} not honoured: {mult2} slices, {mult0} before")
    ref_flops = flops_unsliced if cfg["reslice"] else flops0
    if to is not None and flops2 / ref_flops > to:
        probs.append(f"target_overhead {to} not honoured: {flops2}/{ref_flops}")
    # value unchanged (full einsum: no projections in these cases)
    S, fp = H.clone_fp(res)
    if fp not in value_memo:
        vp = H.value_problems(S, env, {}, opts_list=[{}])
        if vp:
            probs.append("value after slicing: " + vp[0])
        else:
            value_memo.add(fp)
    return probs


def sig_slice(case, variant, cfg, prob):
    keys = ("target_size", "target_slices", "target_overhead", "allow_outer", "reslice", "seed", "max_repeats")
    lab = ",".join(f"{k}={cfg[k]!r}" for k in keys if cfg.get(k) is not None)
    return f"C07 tree.{'slice_' if cfg['inplace'] else 'slice'}({lab}) on {H.case_label(case)} [{variant}]: {H.short(prob)}"


def slice_before(tree):
    with warnings.catch_warnings():
        warnings.simplefilter("ignore")
        u = tree.unslice_all() if tree.sliced_inds else tree
        return (list(tree.sliced_inds), tree.max_size(), tree.total_flops(), tree.multiplicity, u.total_flops())


def work_slice(item):
    ci, variant = item
    ctx = _CTX
    case = ctx["small"][ci]
    out = {"n": 0, "nt": [], "viol": [], "raised": {}, "timeout": 0, "id": ["slice", ci, variant], "fired": 0}
    if time.time() > ctx["deadline"]:
        out["timeout"] = 1
        return out
    env = H.Env(case, poly=True)
    tree = make_tree(case, variant)
    before = slice_before(H.clone(tree))
    value_memo = set()
    for k, cfg in enumerate(slice_configs(tree)):
        t = H.clone(tree)
        status, payload = run_slice(t, cfg)
        out["n"] += 1
        rc = {"kind": "slice", "net": H.case_json(case), "variant": variant, "cfg": cfg}
        if status == "raised":
            out["raised"][payload] = out["raised"].get(payload, 0) + 1
            continue
        if status == "error":
            out["viol"].append((sig_slice(case, variant, cfg, payload), rc))
            continue
        res = payload
        probs = []
        if cfg["inplace"] and res is not t:
            probs.append("slice_ did not return the tree itself")
        if not cfg["inplace"]:
            if res is t:
                probs.append("slice returned the tree itself instead of a copy")
            elif list(t.sliced_inds) != before[0] or t.multiplicity != before[3]:
                probs.append("slice (not inplace) changed the sliced indices of the original tree")
        probs += check_slice_result(tree, before, res, cfg, env, value_memo)
        out["fired"] += 1
        if list(res.sliced_inds) != before[0]:
            out["nt"].append(k)
        if probs:
            out["viol"].append((sig_slice(case, variant, cfg, probs[0]), rc))
            if len(out["viol"]) >= 4:
                break
    return out


# --------------------------------------------------------------------------
# (C) ContractionCosts.remove vs tree.remove_ind
# --------------------------------------------------------------------------
def costs_vs_tree(cost, t2, mult0):
    probs = []
    with warnings.catch_warnings():
        warnings.simplefilter("ignore")
        stats = t2.contract_stats()
        if cost.size != stats["size"]:
            probs.append(f"size {cost.size} != {stats['size']}")
        if cost.total_flops * mult0 != stats["flops"]:
            probs.append(f"total_flops {cost.total_flops} x {mult0} != {stats['flops']}")
        if cost.flops * t2.multiplicity != stats["flops"]:
            probs.append(f"flops {cost.flops} x {t2.multiplicity} != {stats['flops']}")
        if cost.nslices * mult0 != t2.multiplicity:
            probs.append(f"nslices {cost.nslices} x {mult0} != {t2.multiplicity}")
        want = [
            (set(t2.get_involved(node)), set(t2.get_legs(node)), t2.get_size(node), t2.get_flops(node))
            for node in t2.info if len(node) != 1
        ]
    have = [(set(c[0]), set(c[1]), c[2], c[3]) for c in cost.contractions]
    if have != want:
        for i, (h, w) in enumerate(zip(have, want)):
            if h != w:
                probs.append(f"contraction {i}: (involved, legs, size, flops) {sorted(h[0]), sorted(h[1]), h[2], h[3]} != tree's {sorted(w[0]), sorted(w[1]), w[2], w[3]}")
                break
        else:
            probs.append("number of contractions differs")
    return probs


def run_costs_case(case, variant, seq):
    """-> ('ok'|'raised', problems)"""
    from cotengra.slicer import ContractionCosts
    from cotengra.scoring import get_score_fn

    tree = make_tree(case, variant)
    mult0 = tree.multiplicity
    with warnings.catch_warnings():
        warnings.simplefilter("ignore")
        cost = ContractionCosts.from_contraction_tree(tree)
        p0 = costs_vs_tree(cost, tree.copy(), mult0)
        if p0:
            return "ok", ["from_contraction_tree: " + p0[0]]
        t2 = tree
        scorer = get_score_fn("flops")
        for ix in seq:
            # score every candidate first, exactly as SliceFinder.trial does
            # before it calls remove() (this also materialises the lazily
            # created reduction counters remove() deletes)
            for jx in list(cost.size_dict):
                scorer.score_slice_index(cost, jx)
            try:
                cost = cost.remove(ix)
            except KeyError:
                return "raised", []
            t2 = t2.remove_ind(ix)
        return "ok", costs_vs_tree(cost, t2, mult0)


def work_costs(item):
    flavour, ci, variant = item
    ctx = _CTX
    case = ctx[flavour][ci]
    out = {"n": 0, "nt": [], "viol": [], "raised": {}, "timeout": 0, "id": ["costs", flavour, ci, variant], "fired": 0}
    tree = make_tree(case, variant)
    inds = [ix for ix in H.all_indices(case) if ix not in tree.sliced_inds]
    seqs = [(ix,) for ix in inds] + list(itertools.permutations(inds, 2))
    for k, seq in enumerate(seqs):
        out["n"] += 1
        try:
            status, probs = run_costs_case(case, variant, seq)
        except Exception as e:  # noqa: BLE001
            status, probs = "ok", [f"raised unexpected {type(e).__name__}"]
        if status == "raised":
            out["raised"]["ContractionCosts.remove KeyError(index in no contraction)"] = out["raised"].get("ContractionCosts.remove KeyError(index in no contraction)", 0) + 1
            continue
        out["fired"] += 1
        out["nt"].append(k)
        if probs:
            out["viol"].append((f"C07 ContractionCosts.remove{seq} vs tree.remove_ind on {H.case_label(case)} [{variant}]: {H.short(probs[0])}",
                                {"kind": "costs", "net": H.case_json(case), "variant": variant, "seq": list(seq)}))
            if len(out["viol"]) >= 3:
                break
    return out


# --------------------------------------------------------------------------
def run_bounded(rep: Report, tier: str) -> None:
    global _CTX
    quick = tier == "quick"
    t_end = deadline(tier, 100, 1200)
    primes = H.base_cases(seed(), sizes="primes")
    small = H.base_cases(seed(), sizes="small")
    _CTX = {"primes": primes, "small": small, "deadline": t_end, "seed": seed(), "seeds": (0, 1) if quick else (0, 1, 2, 3),
            "rand_sample": 150 if quick else 600}
    rep.rule = (
        "a search case = (network, sizes, tree, variant of the tree handed in [plain / one index sliced / one index "
        "projected / annealed], target kind+value, allow_outer, objective, temperature, seed, max_repeats); non-trivial "
        "when the search RETURNED a non-empty index set (then every predicted figure is compared with the tree actually "
        "sliced); a slice case is non-trivial when the call changed the sliced set; a costs case when remove() did not "
        "raise; distinct = distinct tuples"
    )
    viols = []
    raised = {}
    stats = {"returned": 0, "nonempty": 0, "timeout": 0}
    samples = []

    def agg(results, tag):
        n = 0
        for status, r in results:
            if status == "crash":
                rep.crash(f"C07 worker crashed ({tag}): {r[:600]}")
                continue
            stats["timeout"] += r.get("timeout", 0)
            rep.count(r["n"])
            n += r["n"]
            for k, v in r.get("raised", {}).items():
                raised[tag + ": " + k] = raised.get(tag + ": " + k, 0) + v
            stats["returned"] += r.get("returned", 0)
            stats["nonempty"] += r.get("nonempty", 0)
            for key in r.get("nt", ()):
                rep.nontrivial_case([tag, r["id"], key])
            viols.extend(r.get("viol", ()))
            samples.extend(r.get("samples", ()))
            if r.get("fired"):
                rep.fired(tag, r["fired"])
        return n

    # (A) searches on the base set, prime sizes (all objectives) and small sizes (ties, size-1 dims)
    items = [("primes", ci, v, ob) for ci in range(len(primes)) for v in VARIANTS for ob in OBJECTIVES]
    items += [("small", ci, v, ob) for ci in range(len(small)) for v in VARIANTS for ob in ("flops", "size", "combo")]
    stats["timeout"] = 0
    n = agg(list(pmap(work_search, items, chunk=2)), "search")
    rep.scope(
        f"SliceFinder.search: {len(primes)} (network, tree) pairs (prime sizes) x {len(VARIANTS)} tree variants x 13 targets x allow_outer x 5 objectives x 3 temperatures x {len(_CTX['seeds'])} seeds x max_repeats {{1,4}}; same pairs with sizes 1-3 x 4 variants x 3 objectives",
        n, exhaustive=(stats["timeout"] == 0),
        bound="base set of 3-5 tensor networks" + ("" if not stats["timeout"] else f"; {stats['timeout']} work items cut by the time budget"),
    )
    nrand = 160 if quick else 800
    items = [("rand", k, VARIANTS[k % len(VARIANTS)], None) for k in range(nrand)]
    stats["timeout"] = 0
    n = agg(list(pmap(work_search, items, chunk=1)), "search")
    rep.scope(
        f"SliceFinder.search: seeded sample of {nrand} random networks (rand_equation, 6-10 tensors, prime sizes, random tree) x {_CTX['rand_sample']} sampled configurations each",
        n, exhaustive=False, bound=f"sample of {nrand} networks x {_CTX['rand_sample']} configurations" + ("" if not stats["timeout"] else f"; {stats['timeout']} cut by the time budget"),
    )
    rep.fired("search returned: predicted size/flops/nslices == sliced tree, targets, forbidden indices", stats["returned"])

    # (B) tree.slice / slice_
    items = [(ci, v) for ci in range(len(small)) for v in ("plain", "sliced1")]
    stats["timeout"] = 0
    n = agg(list(pmap(work_slice, items, chunk=1)), "tree.slice postconditions")
    rep.scope(
        f"tree.slice / tree.slice_: {len(small)} pairs (sizes 1-3) x 2 variants x 13 targets x allow_outer x reslice x inplace, value checked on polynomial arrays",
        n, exhaustive=(stats["timeout"] == 0), bound="base set" + ("" if not stats["timeout"] else f"; {stats['timeout']} cut by the time budget"),
    )

    # (C) ContractionCosts.remove chains
    items = [(fl, ci, v) for fl in ("primes", "small") for ci in range(len(primes)) for v in VARIANTS]
    n = agg(list(pmap(work_costs, items, chunk=4)), "ContractionCosts.remove == tree.remove_ind")
    rep.scope(
        f"ContractionCosts.remove for every index and every ordered pair x {len(primes)} pairs x 2 size flavours x {len(VARIANTS)} variants",
        n, exhaustive=True, bound="base set",
    )

    for s in sorted(samples, key=lambda s: (s["network"], s["tree_variant"], s["search"]))[:4]:
        rep.sample(s)
    rep.extra["searches_returned"] = stats["returned"]
    rep.extra["searches_returned_nonempty"] = stats["nonempty"]
    rep.extra["raised_outside_the_property"] = dict(sorted(raised.items()))
    H.report_violations(rep, MODULE, viols)
    rep.explanation += (
        "C07 bounded: every RETURNED slice search is replayed on the real tree (copy + remove_ind_ of the returned "
        "indices) and the predicted size / total flops / number of slices, the specified targets and the forbidden "
        "set are compared; tree.slice/slice_ postconditions incl. value on polynomial arrays; ContractionCosts.remove "
        "chains against tree.remove_ind for every index and ordered pair. Searches that raise are outside the "
        "statement and only counted (raised_outside_the_property). Bounds: the stated base set and parameter menus "
        "are complete; larger networks are a seeded sample. "
    )
    rep.assumptions.append("target_slices is read as documented: 'on top of the current number of slices'; overhead is relative to the tree handed in (for reslice=True: to the unsliced tree)")
    rep.trusted_base.append("ContractionTree.copy/remove_ind_/max_size/total_flops as the reference for 'the tree actually sliced' (their agreement with a from-scratch evaluator is C04); vt.symval for the value check")


# --------------------------------------------------------------------------
def replay(case):
    net = H.case_from_json(case["net"])
    variant = case["variant"]
    kind = case.get("kind")
    if kind == "search":
        cfg = case["cfg"]
        tree = make_tree(net, variant)
        base = base_figures(tree)
        status, payload = run_search(tree, cfg)
        if status == "raised":
            return True, f"search raised {payload} (outside the property)"
        if status == "error":
            return False, payload
        ix_sl, cost = payload
        probs = check_search_result(tree, base, ix_sl, cost, cfg)
        if probs:
            return False, sig_search(net, variant, cfg, probs[0])
        return True, f"search({cfg_label(cfg)}) returned {sorted(ix_sl)}; predictions and targets hold"
    if kind == "slice":
        cfg = case["cfg"]
        env = H.Env(net, poly=True)
        tree = make_tree(net, variant)
        before = slice_before(H.clone(tree))
        t = H.clone(tree)
        status, payload = run_slice(t, cfg)
        if status == "raised":
            return True, f"slice raised {payload} inside the slice finder (outside the property)"
        if status == "error":
            return False, payload
        probs = check_slice_result(tree, before, payload, cfg, env, set())
        if probs:
            return False, sig_slice(net, variant, cfg, probs[0])
        return True, "slice postconditions hold"
    if kind == "costs":
        status, probs = run_costs_case(net, variant, tuple(case["seq"]))
        if status == "raised":
            return True, "ContractionCosts.remove raised KeyError (index in no contraction)"
        if probs:
            return False, f"ContractionCosts.remove{tuple(case['seq'])} on {H.case_label(net)} [{variant}]: {probs[0]}"
        return True, "costs agree"
    return True, "unknown case kind"
