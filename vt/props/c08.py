"""C08 driver (see DESIGN.md section 3, C08)."""
from .generic import run_property, replay_property


def run(tier):
    return run_property("C08", tier)


def replay(path):
    return replay_property("C08", path)
