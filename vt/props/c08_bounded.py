"""C08 bounded driver: the hyper-optimizer returns its best trial and reports
that trial's true costs.

Real ``HyperOptimizer(optlib='random')`` on small networks x method subsets x
objectives x the five post-processing option sets, run (a) serially, (b) on a
harness executor whose futures complete in every permutation (<= 5 trials) or
in sampled permutations (more), (c) with trial functions that raise, (d) once
each on the real thread / process pools (schedule = whatever the machine does).

The oracle is the property statement: the returned tree is a complete tree of
the QUERIED contraction; the winner's recorded score is the minimum over all
trials that ran; no more than ``max_repeats`` trials ran; the winner's recorded
flops/write/size (and score) are those of the returned tree AND of a fresh
rebuild of it from ``get_path()`` + ``sliced_inds``; the six per-trial record
lists are aligned with the trials actually executed (recorded through a spy
around the trial function); failing trials get score inf and do not disturb the
others.
"""

from __future__ import annotations

import concurrent.futures
import copy
import itertools
import json
import math
import os
import random
import time

from ..common import Report, deadline, pmap, seed
from ._optutil import eq_str, fresh_rebuild, quiet, rand_net, seed_globals, tree_query_mismatch

MOD = "vt.props.c08_bounded"

_SUB = {"subtree_size": 3, "maxiter": 5}


_STRONG = {"subtree_size": 6, "maxiter": 40}


def _post_opts(name, target_size):
    if name.endswith("+"):
        # the same post-processing with settings strong enough to really change a 20-30 tensor tree
        base = name[:-1]
        sub = dict(_STRONG)
        if base == "reconf":
            return {"reconf_opts": sub}
        if base == "reconf_forest":
            return {"reconf_opts": {"forested": True, "num_trees": 2, "num_restarts": 2, "subtree_size": 6, "subtree_maxiter": 40, "parallel": False}}
        if base == "slicing_reconf":
            return {"slicing_reconf_opts": {"target_size": target_size, "reconf_opts": sub}}
        if base == "slicing_reconf_forest":
            return {"slicing_reconf_opts": {"target_size": target_size, "forested": True, "num_trees": 2, "max_repeats": 4, "parallel": False, "reconf_opts": sub}}
        if base == "anneal":
            return {"simulated_annealing_opts": {"tsteps": 5, "numiter": 20}}
        raise ValueError(name)
    if name == "none":
        return {}
    if name == "slicing":
        return {"slicing_opts": {"target_size": target_size}}
    if name == "reconf":
        return {"reconf_opts": dict(_SUB)}
    if name == "slicing_reconf":
        return {"slicing_reconf_opts": {"target_size": target_size, "reconf_opts": dict(_SUB)}}
    if name == "anneal":
        return {"simulated_annealing_opts": {"tsteps": 2, "numiter": 2}}
    if name == "reconf_forest":
        return {"reconf_opts": {"forested": True, "num_trees": 2, "num_restarts": 1, "subtree_size": 3, "subtree_maxiter": 5, "parallel": False}}
    if name == "slicing_reconf_forest":
        return {"slicing_reconf_opts": {"target_size": target_size, "forested": True, "num_trees": 2, "max_repeats": 2, "parallel": False, "reconf_opts": dict(_SUB)}}
    raise ValueError(name)


POSTS = ["none", "slicing", "reconf", "slicing_reconf", "anneal", "reconf_forest", "slicing_reconf_forest"]
OBJECTIVES = ["flops", "size", "write", "combo", "limit", "combo-32", "limit-4"]
FLAKY = "verif-flaky"


# ---------------------------------------------------------------------------
# harness executor with scripted completion order
# ---------------------------------------------------------------------------


class HarnessStall(Exception):
    pass


class ScriptedFuture:
    def __init__(self, pool, idx, fn, args, kwargs):
        self.pool = pool
        self.idx = idx
        self.consumed = 0
        self.cancelled = False
        self._exc = None
        self._res = None
        try:
            self._res = fn(*args, **kwargs)
        except BaseException as e:  # noqa: BLE001
            self._exc = e

    def done(self):
        return self.pool._is_done(self)

    def result(self, timeout=None):
        self.consumed += 1
        self.pool._polls = 0
        self.pool.consumption_order.append(self.idx)
        if self._exc is not None:
            raise self._exc
        return self._res

    def cancel(self):
        self.cancelled = True
        return False


class ScriptedPool(concurrent.futures.Executor):
    """Runs each submitted call synchronously; ``done()`` is true only for the
    ``width`` outstanding (submitted, result not yet fetched) futures of lowest
    scripted priority, so the consumer sees completions in the scripted order."""

    def __init__(self, priority, width=1, workers=1, max_polls=20000):
        self.priority = list(priority)
        self.width = width
        self._max_workers = workers
        self.futures = []
        self.consumption_order = []
        self._polls = 0
        self.max_polls = max_polls

    def _rank(self, f):
        return self.priority[f.idx] if f.idx < len(self.priority) else 10**6 + f.idx

    def _is_done(self, f):
        self._polls += 1
        if self._polls > self.max_polls:
            raise HarnessStall(f"no future consumed after {self.max_polls} polls")
        out = sorted((g for g in self.futures if not g.consumed), key=self._rank)
        return any(g is f for g in out[: self.width])

    def submit(self, fn, /, *args, **kwargs):
        f = ScriptedFuture(self, len(self.futures), fn, args, kwargs)
        self.futures.append(f)
        return f

    def shutdown(self, wait=True, **kw):
        pass


# ---------------------------------------------------------------------------
# spy around the (outermost) trial function
# ---------------------------------------------------------------------------


def _freeze(x):
    if isinstance(x, dict):
        return tuple(sorted((str(k), _freeze(v)) for k, v in x.items()))
    if isinstance(x, (list, tuple)):
        return tuple(_freeze(v) for v in x)
    if isinstance(x, float):
        return repr(x)
    return x


class SpyTrialFn:
    """Picklable wrapper: tags every returned trial with the keyword arguments
    it was called with; in-process it also keeps a log."""

    def __init__(self, fn, log=None):
        self.fn = fn
        self.log = log

    def __call__(self, *args, **kwargs):
        trial = self.fn(*args, **kwargs)
        trial["_verif_call"] = dict(kwargs)
        if self.log is not None:
            self.log.append(
                {
                    "call": dict(kwargs),
                    "score": trial.get("score"),
                    "flops": trial.get("flops"),
                    "write": trial.get("write"),
                    "size": trial.get("size"),
                    "has_tree": "tree" in trial,
                }
            )
        return trial

    def __getstate__(self):
        return {"fn": self.fn, "log": None}


class _Flaky:
    """Temporary hyper method: a greedy trial that raises on scripted calls."""

    def __init__(self, fail_calls, exc):
        self.fail_calls = set(fail_calls)
        self.exc = exc
        self.ncalls = 0
        self.raised = 0
        self.raised_calls = []

    def __call__(self, inputs, output, size_dict, temperature=0.0, costmod=1.0):
        from cotengra.pathfinders.path_greedy import trial_greedy
        from cotengra.utils import BadTrial

        k = self.ncalls
        self.ncalls += 1
        if k in self.fail_calls:
            self.raised += 1
            self.raised_calls.append({"temperature": temperature, "costmod": costmod, "method": FLAKY})
            if self.exc == "BadTrial":
                raise BadTrial
            if self.exc == "KeyError":
                raise KeyError("verif: scripted trial failure")
            raise ValueError("verif: scripted trial failure")
        return trial_greedy(inputs, output, size_dict, temperature=temperature, costmod=costmod)


class _registered_flaky:
    def __init__(self, flaky):
        self.flaky = flaky

    def __enter__(self):
        from cotengra.hyperoptimizers import hyper

        hyper.register_hyper_function(
            FLAKY,
            self.flaky,
            {
                "temperature": {"type": "FLOAT_EXP", "min": 0.001, "max": 1.0},
                "costmod": {"type": "FLOAT", "min": 0.1, "max": 4.0},
            },
        )
        return self.flaky

    def __exit__(self, *a):
        from cotengra.hyperoptimizers import hyper

        for d in (hyper._PATH_FNS, hyper._HYPER_SEARCH_SPACE, hyper._HYPER_CONSTANTS):
            d.pop(FLAKY, None)
        return False


# ---------------------------------------------------------------------------
# one case
# ---------------------------------------------------------------------------


def _net_of(case):
    if "net" in case:
        return rand_net(*case["net"])
    inputs = tuple(tuple(t) for t in case["inputs"])
    return inputs, tuple(case["output"]), {k: int(v) for k, v in case["size_dict"].items()}


def _desc(case):
    pool = case["pool"]
    if pool["kind"] == "scripted":
        pd = f"scripted(order={pool['order']},width={pool.get('width', 1)},workers={pool.get('workers', 1)})"
    else:
        pd = pool["kind"]
    fail = case.get("fail")
    fd = f" fail={fail['exc']}@{fail['calls']}" if fail else ""
    net = f"rand_equation{tuple(case['net'])}" if "net" in case else eq_str(case["inputs"], case["output"])
    return (
        f"net={net} methods={case['methods']} minimize={case['minimize']} post={case['post']} "
        f"R={case['R']} pool={pd}{fd} sampler_seed={case.get('sseed', 0)}"
    )


def _isinf(x):
    return isinstance(x, float) and math.isinf(x)


def _make_pool(pool):
    kind = pool["kind"]
    if kind == "serial":
        return False, None, None
    if kind == "scripted":
        p = ScriptedPool(pool["order"], width=pool.get("width", 1), workers=pool.get("workers", 1))
        return p, p, None
    if kind == "threads-obj":
        ex = concurrent.futures.ThreadPoolExecutor(pool.get("workers", 3))
        return ex, None, ex
    if kind == "processes-obj":
        import multiprocessing as mp

        ex = concurrent.futures.ProcessPoolExecutor(pool.get("workers", 3), mp_context=mp.get_context("fork"))
        return ex, None, ex
    if kind in ("threads", "concurrent.futures", "loky"):
        return kind, None, None
    raise ValueError(kind)


def run_case(case):
    """Execute one search and evaluate the C08 postconditions.

    Returns dict(problems=[(check, detail)], nontrivial=bool, fired={...},
    info={...})."""
    from cotengra.hyperoptimizers import hyper

    inputs, output, size_dict = _net_of(case)
    R = case["R"]
    methods = list(case["methods"])
    fail = case.get("fail")
    problems = []
    fired = {}

    def fire(name):
        fired[name] = fired.get(name, 0) + 1

    in_process = case["pool"]["kind"] in ("serial", "scripted", "threads", "threads-obj")
    log = [] if in_process else None
    reported = []

    flaky = _Flaky(fail["calls"], fail["exc"]) if fail else _Flaky((), "ValueError")
    parallel, spool, to_close = _make_pool(case["pool"])
    seed_globals(1000003 * case.get("sseed", 0) + 17)
    t0 = time.time()
    try:
        with quiet(), _registered_flaky(flaky):
            opt = hyper.HyperOptimizer(
                methods=methods,
                minimize=case["minimize"],
                max_repeats=R,
                parallel=parallel,
                optlib="random",
                on_trial_error=case.get("on_trial_error", "ignore"),
                seed=case.get("sseed", 0),
                **copy.deepcopy(_post_opts(case["post"], case.get("target_size", 16))),
            )
            orig_setup = opt.setup

            def setup(*a, **k):
                fn, args = orig_setup(*a, **k)
                return SpyTrialFn(fn, log), args

            opt.setup = setup
            orig_report = opt._maybe_report_result

            def report(setting, trial):
                reported.append((copy.deepcopy(setting), trial))
                return orig_report(setting, trial)

            opt._maybe_report_result = report
            constants = copy.deepcopy(hyper.get_hyper_constants())
            try:
                tree = opt.search(inputs, output, size_dict)
                raised = None
            except HarnessStall as e:
                tree, raised = None, e
            except Exception as e:  # noqa: BLE001
                tree, raised = None, e
    finally:
        if to_close is not None:
            to_close.shutdown(wait=True)
    info = {"wall": round(time.time() - t0, 4)}

    scores = list(opt.scores)
    n_rec = len(scores)
    all_failed = n_rec > 0 and all(_isinf(s) for s in scores)

    if raised is not None:
        if isinstance(raised, HarnessStall):
            problems.append(("search never consumes the completed futures (livelock)", str(raised)))
        elif all_failed and isinstance(raised, KeyError) and raised.args == ("tree",):
            # every trial failed: there is no tree to return.  With a scripted failure or a slicing target (which may be
            # unreachable: SliceFinder legitimately raises) that is outside "whenever the search returns"; otherwise no
            # trial has a reason to fail and the search has not returned a tree for a perfectly good query.
            info["all_failed"] = True
            if not fail and case["post"] in ("none", "reconf", "anneal", "reconf_forest", "reconf+", "reconf_forest+", "anneal+"):
                why = _why_trial_fails(case)
                problems.append((f"every trial failed without a scripted failure ({why})", ""))
            return {"problems": problems, "nontrivial": False, "fired": fired, "info": info}
        else:
            problems.append((f"search raised {type(raised).__name__}({', '.join(map(repr, raised.args))})", ""))
        return {"problems": problems, "nontrivial": False, "fired": fired, "info": info}

    # ---- 1. complete tree of the queried contraction ----------------------
    fire("tree_is_of_query")
    why = tree_query_mismatch(tree, inputs, output, size_dict)
    if why:
        problems.append(("returned tree is not a complete tree of the query", why))
        return {"problems": problems, "nontrivial": True, "fired": fired, "info": info}

    # ---- 2. no more trials than requested; record lists same length --------
    fire("trial_count")
    lens = {
        "scores": len(opt.scores),
        "costs_flops": len(opt.costs_flops),
        "costs_write": len(opt.costs_write),
        "costs_size": len(opt.costs_size),
        "method_choices": len(opt.method_choices),
        "param_choices": len(opt.param_choices),
    }
    if len(set(lens.values())) != 1:
        problems.append(("per-trial record lists have different lengths", json.dumps(lens)))
    if n_rec > R:
        problems.append(("more trials recorded than max_repeats", f"{n_rec} > {R}"))
    if log is not None and len(log) > R:
        problems.append(("more trials executed than max_repeats", f"{len(log)} > {R}"))
    if spool is not None and len(spool.futures) > R:
        problems.append(("more trials submitted than max_repeats", f"{len(spool.futures)} > {R}"))
    if n_rec == 0:
        problems.append(("no trial recorded although a tree was returned", ""))
        return {"problems": problems, "nontrivial": True, "fired": fired, "info": info}

    # ---- 3. best is the arg-min -------------------------------------------
    fire("best_is_min")
    best = opt.best
    if best["score"] != min(scores):
        problems.append(("best['score'] != min(opt.scores)", f"{best['score']!r} vs {min(scores)!r} scores={scores}"))
    if log is not None:
        ran = [e["score"] for e in log]
        if ran and best["score"] != min(ran):
            problems.append(
                ("best['score'] is not the minimum over the trials that ran", f"{best['score']!r} vs min {min(ran)!r} of {ran}")
            )
    if best.get("tree") is not tree:
        problems.append(("search() result is not best['tree']", ""))

    # ---- 4. recorded figures of the winner == returned tree == fresh rebuild
    fire("winner_figures")
    with quiet():
        stats = tree.contract_stats()
        sliced = tuple(tree.sliced_inds)
        fresh = fresh_rebuild(inputs, output, size_dict, tree.get_path(), sliced)
        fstats = fresh.contract_stats()
        for k in ("flops", "write", "size"):
            if best.get(k) != stats[k]:
                problems.append((f"best['{k}'] != returned tree's contract_stats()", f"{best.get(k)!r} vs {stats[k]!r}"))
            if best.get(k) != fstats[k]:
                problems.append(
                    (f"best['{k}'] != stats of a fresh rebuild of the returned tree", f"{best.get(k)!r} vs {fstats[k]!r} (tree says {stats[k]!r})")
                )
        try:
            expect = opt.objective({"tree": fresh}) ** opt.score_compression
            if not abs(best["score"] - expect) < 1e-4:
                problems.append(("best['score'] is not the score of the returned tree", f"{best['score']!r} vs {expect!r}"))
        except Exception as e:  # noqa: BLE001
            problems.append(("objective could not be evaluated on the fresh rebuild", f"{type(e).__name__}: {e}"))
    info["sliced"] = len(sliced)
    info["post_changed"] = "original_flops" in best and (best["original_flops"], best["original_write"], best["original_size"]) != (
        best.get("flops"), best.get("write"), best.get("size"))

    # ---- 5. winner's params are those of the call that produced it ---------
    fire("winner_params")
    call = best.get("_verif_call")
    if call is None:
        problems.append(("winning trial did not pass through the trial function", ""))
    else:
        bp = dict(best.get("params", {}))
        m = bp.pop("method", None)
        exp = {**bp, **constants.get(m, {}), "method": m}
        if _freeze(exp) != _freeze(call):
            problems.append(("best['params'] are not the arguments of the winning trial", f"{exp} vs call {call}"))

    # ---- 6. record rows aligned with the trials executed -------------------
    fire("rows_aligned")
    rows = []
    for i in range(min(lens.values())):
        m = opt.method_choices[i]
        exp_call = {**opt.param_choices[i], **constants.get(m, {}), "method": m}
        rows.append(
            (_freeze(exp_call), repr(opt.scores[i]), repr(opt.costs_flops[i]), repr(opt.costs_write[i]), repr(opt.costs_size[i]))
        )
    # (a) against what was handed to _maybe_report_result, in order
    rep_rows = [
        (_freeze(t.get("_verif_call", {"?": "no call"})), repr(t["score"]), repr(t.get("flops")), repr(t.get("write")), repr(t.get("size")))
        for _s, t in reported
    ]
    if rows != rep_rows:
        bad = [i for i, (a, b) in enumerate(itertools.zip_longest(rows, rep_rows)) if a != b]
        problems.append(("record row does not describe the trial reported at that position", f"rows {bad} differ"))
    for i, (s, t) in enumerate(reported):
        c = t.get("_verif_call")
        if c is not None:
            exp = {**s["params"], **constants.get(s["method"], {}), "method": s["method"]}
            if _freeze(exp) != _freeze(c):
                problems.append(("setting reported with a trial that was run with other arguments", f"report #{i}: {exp} vs {c}"))
                break
    # (b) as a multiset against the spy's log of executed trials
    if log is not None:
        log_rows = sorted(
            (_freeze(e["call"]), repr(e["score"]), repr(e["flops"]), repr(e["write"]), repr(e["size"])) for e in log
        )
        if sorted(rows) != log_rows:
            problems.append(
                ("recorded trials are not exactly the trials that ran", f"{len(rows)} recorded vs {len(log_rows)} executed; multisets differ")
            )

    # ---- 7. failing trials --------------------------------------------------
    if fail:
        fire("failed_trials_skipped")
        n_inf = sum(1 for s in scores if _isinf(s))
        # (other trials may fail for their own reasons, e.g. an unreachable slicing target)
        if log is not None and n_inf < flaky.raised:
            problems.append(("fewer inf-score records than trials that raised", f"{n_inf} vs {flaky.raised}"))
        if log is not None:
            bad_calls = {_freeze(c) for c in flaky.raised_calls}
            for e in log:
                if _freeze(e["call"]) in bad_calls and not _isinf(e["score"]):
                    problems.append(("a trial that raised was given a finite score", f"{e['call']}"))
                    break
            ok_fin = [e["score"] for e in log if _freeze(e["call"]) not in bad_calls]
            info["others_finite"] = sum(1 for x in ok_fin if not _isinf(x))
        for i, s in enumerate(scores):
            if _isinf(s) and not (_isinf(opt.costs_flops[i]) and _isinf(opt.costs_size[i])):
                problems.append(("failed trial recorded with finite costs", f"row {i}"))
        if _isinf(best["score"]):
            problems.append(("best is a failed trial although others succeeded", ""))

    if spool is not None:
        dbl = [f.idx for f in spool.futures if f.consumed > 1]
        if dbl:
            problems.append(("a future's result was reported more than once", f"futures {dbl}"))
        info["consumed"] = list(spool.consumption_order)

    distinct = {(repr(a), repr(b), repr(c)) for a, b, c in zip(opt.costs_flops, opt.costs_write, opt.costs_size)}
    nontrivial = n_rec >= 2 and (len(distinct) >= 2 or bool(fail))
    info.update(n_rec=n_rec, distinct=len(distinct), flops=stats["flops"])
    return {"problems": problems, "nontrivial": nontrivial, "fired": fired, "info": info}


def _why_trial_fails(case):
    """Re-run one trial with on_trial_error='raise' to name the hidden error."""
    from cotengra.hyperoptimizers import hyper

    inputs, output, size_dict = _net_of(case)
    try:
        with quiet():
            seed_globals(5)
            opt = hyper.HyperOptimizer(methods=list(case["methods"]), minimize=case["minimize"], max_repeats=1, parallel=False,
                                       optlib="random", on_trial_error="raise", seed=case.get("sseed", 0),
                                       **copy.deepcopy(_post_opts(case["post"], case.get("target_size", 16))))
            opt.search(inputs, output, size_dict)
        return "a single trial with on_trial_error='raise' succeeds"
    except Exception as e:  # noqa: BLE001
        return f"{type(e).__name__}: {e}"


def _work(case):
    out = run_case(case)
    viol = []
    for check, detail in out["problems"][:2]:
        viol.append((f"C08 {check} :: {_desc(case)}", case, detail))
    key = json.dumps(case, sort_keys=True) if out["nontrivial"] else None
    info = out["info"]
    info["case"] = _desc(case)
    return (1, key, viol, out["fired"], info)


def replay(case):
    out = run_case(case)
    if out["problems"]:
        return False, "; ".join(f"{c} [{d}]" for c, d in out["problems"]) + " :: " + _desc(case)
    return True, "all C08 postconditions held :: " + _desc(case)


# ---------------------------------------------------------------------------
# scopes
# ---------------------------------------------------------------------------


def _available_methods():
    from cotengra.hyperoptimizers.hyper import list_hyper_functions

    have = set(list_hyper_functions())
    import importlib.util

    ms = [m for m in ("greedy", "random-greedy", "labels", "random") if m in have]
    if "kahypar" in have and importlib.util.find_spec("kahypar"):
        ms.append("kahypar")
    return ms


def _nets(rng, count):
    nets = []
    shapes = [
        (5, 2, 1, 0, 0), (6, 3, 2, 1, 0), (7, 3, 0, 0, 1), (8, 3, 2, 1, 1), (9, 3, 1, 1, 0), (10, 3, 2, 0, 0),
        (6, 4, 0, 1, 1), (8, 2, 1, 0, 0), (7, 4, 3, 0, 0), (10, 2, 0, 1, 0), (5, 3, 2, 0, 1), (9, 4, 1, 1, 1),
    ]
    for i in range(count):
        n, reg, n_out, hin, hout = shapes[i % len(shapes)]
        nets.append([n, reg, n_out, hin, hout, 2, 3, rng.randrange(10**6)])
    return nets


def _method_subsets(ms):
    subs = []
    pref = [["greedy"], ["random-greedy", "labels"], ["kahypar", "random"], ["random"], ["greedy", "random-greedy", "labels", "kahypar"],
            ["labels", "random"]]
    for s in pref:
        s2 = [m for m in s if m in ms]
        if s2 and s2 not in subs:
            subs.append(s2)
    return subs


def build_cases(tier):
    rng = random.Random(seed() * 7919 + 8)
    ms = _available_methods()
    subs = _method_subsets(ms)
    quick = tier == "quick"
    scopes = []  # (name, cases, exhaustive, bound)

    # A: serial, full cross product
    nets = _nets(rng, 12 if quick else 60)
    Rs = [1, 3, 6] if quick else [1, 2, 4, 8]
    A = []
    for net in nets:
        for sub in subs:
            for obj in OBJECTIVES:
                for post in POSTS:
                    for R in Rs:
                        A.append({"net": net, "methods": sub, "minimize": obj, "post": post, "R": R,
                                  "pool": {"kind": "serial"}, "sseed": rng.randrange(1000)})
    scopes.append(("serial: nets x method subsets x objectives x 5 post-processing sets x R", A, True,
                   f"{len(nets)} rand_equation networks (5-10 tensors, hyper/output indices), {len(subs)} method subsets of {ms}, "
                   f"objectives {OBJECTIVES}, R in {Rs}"))

    # B: scripted pool, every completion permutation
    B = []
    netsB = _nets(rng, 6 if quick else 20)
    for ni, net in enumerate(netsB):
        for si, sub in enumerate(subs[:3] if quick else subs):
            for post in POSTS:
                obj = OBJECTIVES[(ni + si + POSTS.index(post)) % len(OBJECTIVES)]
                for R in ((3, 4) if quick else (2, 3, 4)):
                    ss = rng.randrange(1000)
                    for perm in itertools.permutations(range(R)):
                        B.append({"net": net, "methods": sub, "minimize": obj, "post": post, "R": R,
                                  "pool": {"kind": "scripted", "order": list(perm), "width": 1, "workers": 1}, "sseed": ss})
    scopes.append(("harness pool: every completion permutation of R<=4 trials", B, True,
                   f"{len(netsB)} networks x method subsets x 5 post sets (objective rotated) x all R! orders, one future done at a time"))

    B5 = []
    for ni, net in enumerate(netsB[: (2 if quick else 5)]):
        for post in POSTS:
            obj = OBJECTIVES[(ni + POSTS.index(post)) % len(OBJECTIVES)]
            ss = rng.randrange(1000)
            sub = subs[(ni + POSTS.index(post)) % len(subs)]
            for perm in itertools.permutations(range(5)):
                B5.append({"net": net, "methods": sub, "minimize": obj, "post": post, "R": 5,
                           "pool": {"kind": "scripted", "order": list(perm), "width": 1, "workers": 1}, "sseed": ss})
    scopes.append(("harness pool: every completion permutation of 5 trials", B5, True,
                   "all 120 orders (pre_dispatch = 5, so all 5 futures are outstanding together)"))

    # C: sampled permutations, more trials / several futures done at once / wider windows
    C = []
    for _ in range(400 if quick else 10000):
        R = rng.choice([5, 6, 7, 8, 10])
        perm = list(range(R))
        rng.shuffle(perm)
        C.append({"net": rng.choice(nets), "methods": rng.choice(subs), "minimize": rng.choice(OBJECTIVES), "post": rng.choice(POSTS),
                  "R": R, "pool": {"kind": "scripted", "order": perm, "width": rng.choice([1, 2, 3]), "workers": rng.choice([1, 4])},
                  "sseed": rng.randrange(1000)})
    scopes.append(("harness pool: sampled completion orders, 5-10 trials, 1-3 futures done at once, pre_dispatch 5 or 8", C, False,
                   f"seeded sample of {len(C)}"))

    # E: larger networks where the post-processing really changes the tree (recorded figures must follow it)
    E = []
    big = [[24, 4, 2, 0, 0, 2, 3, rng.randrange(10**6)], [30, 5, 1, 0, 0, 2, 3, rng.randrange(10**6)], [20, 4, 3, 1, 0, 2, 3, rng.randrange(10**6)]]
    for ni, net in enumerate(big if quick else big * 3):
        for post in ("reconf+", "reconf_forest+", "slicing_reconf+", "slicing_reconf_forest+", "anneal+"):
            for pool in ({"kind": "serial"}, {"kind": "scripted", "order": [1, 0, 2], "width": 1, "workers": 1}):
                E.append({"net": net if quick else net[:7] + [rng.randrange(10**6)], "methods": ["greedy"], "minimize": OBJECTIVES[(ni + len(E)) % 3], "post": post, "R": 3,
                          "pool": pool, "sseed": rng.randrange(1000), "target_size": 2**12})
    scopes.append(("larger networks (20-30 tensors) with post-processing strong enough to change the tree", E, False,
                   "3 networks x 5 strong post-processing sets (incl. the forested reconfigurations) x serial / scripted pool"))

    # D: failing trials
    D = []
    for ni, net in enumerate(netsB[: (3 if quick else 6)]):
        for post in POSTS:
            for R in (3, 4):
                for k in range(1, R):
                    for fs in itertools.combinations(range(R), k):
                        exc = ["ValueError", "BadTrial", "KeyError"][(len(D)) % 3]
                        obj = OBJECTIVES[(ni + len(fs) + R) % len(OBJECTIVES)]
                        ss = rng.randrange(1000)
                        pools = [{"kind": "serial"}]
                        perms = list(itertools.permutations(range(R)))
                        for perm in (perms if (R == 3 or not quick) else rng.sample(perms, 4)):
                            pools.append({"kind": "scripted", "order": list(perm), "width": 1, "workers": 1})
                        for pool in pools:
                            D.append({"net": net, "methods": [FLAKY], "minimize": obj, "post": post, "R": R, "pool": pool,
                                      "fail": {"calls": list(fs), "exc": exc}, "sseed": ss})
    # mixed with a healthy method
    for _ in range(100 if quick else 1000):
        R = rng.choice([4, 5, 6])
        perm = list(range(R))
        rng.shuffle(perm)
        fs = sorted(rng.sample(range(R), rng.randint(1, R - 1)))
        D.append({"net": rng.choice(nets), "methods": [FLAKY, rng.choice(ms)], "minimize": rng.choice(OBJECTIVES), "post": rng.choice(POSTS),
                  "R": R, "pool": rng.choice([{"kind": "serial"}, {"kind": "scripted", "order": perm, "width": 1, "workers": 1}]),
                  "fail": {"calls": fs, "exc": rng.choice(["ValueError", "BadTrial", "KeyError"])}, "sseed": rng.randrange(1000),
                  "on_trial_error": rng.choice(["ignore", "warn"])})
    scopes.append(("failing trials: every proper non-empty subset of R in {3,4} calls raises, serial + harness pool orders; plus mixed-method sample",
                   D, False, "subsets exhaustive; completion orders exhaustive for R=3, sampled (4 of 24) for R=4 in quick; mixed sample seeded"))
    return scopes, ms


def _real_pool_cases(rng, nets, subs):
    out = []
    kinds = ["threads-obj", "threads", "processes-obj", "concurrent.futures", "loky"]
    for i, kind in enumerate(kinds):
        for post in ("none", "reconf", "slicing_reconf"):
            out.append({"net": nets[i % len(nets)], "methods": [m for m in subs[-2] if m != "random"] or subs[0],
                        "minimize": OBJECTIVES[i % len(OBJECTIVES)], "post": post, "R": 8, "pool": {"kind": kind, "workers": 3},
                        "sseed": rng.randrange(1000)})
    return out


def run_bounded(rep: Report, tier: str) -> None:
    os.environ.setdefault("COTENGRA_NUM_WORKERS", "3")
    dl = deadline(tier, 300, 1800)
    rep.rule = (
        "a case = (rand_equation parameters, method subset, objective, post-processing set, max_repeats, pool kind + scripted "
        "completion order, scripted failing calls, sampler seed); distinct by that tuple; non-trivial iff the search returned a tree, "
        ">= 2 trials were recorded and (they have >= 2 distinct (flops, write, size) triples or some trial was made to fail) - i.e. the "
        "arg-min and the row alignment are not vacuous."
    )
    scopes, ms = build_cases(tier)
    stop = False
    nviol = 0
    n_allfailed = n_sliced = n_changed = 0
    slowest = 0.0
    for name, cases, exhaustive, bound in scopes:
        done = 0
        if not stop:
            for st, res in pmap(_work, cases, chunk=8):
                if st == "crash":
                    rep.crash(f"C08 worker: {res[:1500]}")
                    continue
                n, key, viol, fired, info = res
                done += n
                rep.count(n)
                if key is not None:
                    rep.nontrivial_case(key)
                for k, v in fired.items():
                    rep.fired(k, v)
                slowest = max(slowest, info.get("wall", 0.0))
                for sig, case, detail in viol:
                    if nviol < 5 and rep.violation(sig, {"module": MOD, "case": case, "detail": detail}):
                        nviol += 1
                if done <= 1:
                    rep.sample(info)
                if info.get("all_failed"):
                    n_allfailed += 1
                if info.get("sliced"):
                    n_sliced += 1
                if info.get("post_changed"):
                    n_changed += 1
                if time.time() > dl or nviol >= 5:
                    stop = True
                    break
        rep.scope(name, done, exhaustive and done == len(cases), bound + ("" if done == len(cases) else f" [stopped after {done}/{len(cases)}: time budget/violation cap]"))

    # real pools (run in this process: pool workers cannot be children of daemonic pmap workers)
    rng = random.Random(seed() * 31 + 5)
    subs = _method_subsets(ms)
    done = 0
    skipped = []
    used = []
    for case in _real_pool_cases(rng, _nets(rng, 5), subs):
        if time.time() > dl + 20:
            break
        kind = case["pool"]["kind"]
        try:
            out = run_case(case)
        except (ImportError, ModuleNotFoundError, OSError, NotImplementedError) as e:
            skipped.append(f"{kind}: {type(e).__name__}: {e}")
            continue
        done += 1
        rep.count()
        used.append(kind)
        for k, v in out["fired"].items():
            rep.fired(k, v)
        for check, detail in out["problems"][:2]:
            if nviol < 5 and rep.violation(f"C08 {check} :: {_desc(case)}", {"module": MOD, "case": case, "detail": detail}):
                nviol += 1
    try:
        from cotengra import parallel as _par

        _par.ThreadPoolHandler.shutdown()
        _par.ProcessPoolHandler.shutdown()
    except Exception:  # noqa: BLE001
        pass
    rep.scope("real pools (ThreadPoolExecutor / ProcessPoolExecutor objects, parallel='threads' | 'concurrent.futures' | 'loky')", done, False,
              "3 post sets each, 8 trials, 3 workers; completion order is whatever the machine produced on this run (not controlled)")
    rep.extra["real_pools_used"] = sorted(set(used))
    rep.extra["real_pools_skipped"] = skipped
    rep.extra["slowest_case_s"] = slowest
    rep.extra["searches_where_every_trial_failed"] = n_allfailed
    rep.extra["returned_trees_with_sliced_indices"] = n_sliced
    rep.extra["winners_changed_by_post_processing"] = n_changed
    rep.extra["hyper_methods_used"] = ms
    rep.explanation += (
        "C08 bounded: real HyperOptimizer(optlib='random', seeded sampler) on rand_equation networks of 5-10 tensors; objectives "
        f"{OBJECTIVES} ('max' is not an objective name in this tree); post-processing none | slicing_opts(target_size=16) | "
        "reconf_opts(subtree_size=3,maxiter=5) | slicing_reconf_opts | simulated_annealing_opts(tsteps=2,numiter=2) | the forested variants of the two reconfigurations. Checked after "
        "every search: tree complete and of the queried contraction; len(records) <= max_repeats and #executed <= max_repeats (spy); "
        "best.score == min(scores) == min over executed trials; best flops/write/size == tree.contract_stats() == stats of a fresh "
        "rebuild from get_path()+sliced_inds; best.score == objective(fresh tree)**score_compression (1e-4); best.params == arguments "
        "of the winning call; the six record lists row-by-row equal what was reported and, as a multiset, equal the executed trials; "
        "failed trials have score/costs inf and never win. The schedule quantifier is met ONLY for the harness pool: every permutation "
        "of completion for <= 5 trials (one future done at a time), sampled orders / several done at once for 5-10 trials; real "
        "thread/process pools run once each with an uncontrolled schedule. "
    )
    rep.assumptions.append("C08: global `random` is seeded per case so that unseeded trial functions are reproducible; the scripted pool runs trials synchronously at submit time (completion ORDER is adversarial, execution overlap is not modelled)")
    rep.trusted_base.append("cotengra ContractionTree.from_path/remove_ind_/contract_stats used for the fresh rebuild (checked independently by C03/C04)")
