"""C09 driver (see DESIGN.md section 3, C09)."""
from .generic import run_property, replay_property


def run(tier):
    return run_property("C09", tier)


def replay(path):
    return replay_property("C09", path)
