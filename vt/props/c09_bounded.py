"""C09 bounded driver: the 'optimal' pathfinder really is optimal
(DESIGN.md section 3, C09, [T3] bullet).

For every connected network with nothing to pre-simplify (exact side
condition: pf_common.nothing_to_presimplify) ALL (2n-3)!! binary trees are
enumerated (scope.all_trees) and every objective is computed for every tree
with cost functions written here from the statement.  The path returned by
the real ``optimize_optimal(inputs, output, size_dict, minimize, cost_cap,
search_outer)`` must (a) be a valid complete pairwise path, (b) attain the
minimum objective VALUE over all trees (search_outer=True) or over all
outer-product-free trees (search_outer=False), ties allowed, and (c) with
search_outer=False be outer-product free itself.
"""

from __future__ import annotations

import random
import time
import warnings

from ..common import Report, pmap, seed, deadline
from .. import scope
from . import pf_common as pc

MODULE = "vt.props.c09_bounded"

OBJECTIVES = ("flops", "size", "write", "max", "combo", "combo-256", "limit", "limit-256")
CAPS = (2, 17, 10**6)
SIZES = (2, 3, 5, 7)
CALL_TIMEOUT = 30.0  # CPU seconds (legitimate calls take milliseconds)

_DEADLINE = None
_TREES = {}


# --------------------------------------------------------------------------
# independent cost model over subsets of tensors (repeat-free networks)
# --------------------------------------------------------------------------
def trees_as_masks(n):
    """Every binary tree over n leaves as a tuple of (maskA, maskB) steps."""
    if n not in _TREES:
        out = []
        for ssa in scope.all_trees(n):
            cur = {i: 1 << i for i in range(n)}
            nxt = n
            steps = []
            for a, b in ssa:
                ma, mb = cur.pop(a), cur.pop(b)
                steps.append((ma, mb))
                cur[nxt] = ma | mb
                nxt += 1
            out.append((tuple(steps), ssa))
        _TREES[n] = out
    return _TREES[n]


class Model:
    """Costs of contracting subsets of a repeat-free network, from the
    statement: the tensor of a set S of inputs carries the indices that occur
    in S and also outside S or in the output; a step costs the product of the
    dimensions of all indices on its two operands."""

    def __init__(self, inputs, output, sd):
        self.n = len(inputs)
        self.sd = sd
        self.where = {}
        for i, t in enumerate(inputs):
            for ix in t:
                self.where[ix] = self.where.get(ix, 0) | (1 << i)
        self.out = set(output)
        self.full = (1 << self.n) - 1
        self._legs = {}
        self._pair = {}

    def legs(self, s):
        r = self._legs.get(s)
        if r is None:
            keep = frozenset(
                ix for ix, w in self.where.items() if (w & s) and ((w & ~s & self.full) or ix in self.out)
            )
            size = 1
            for ix in keep:
                size *= self.sd[ix]
            r = self._legs[s] = (keep, size)
        return r

    def pair(self, a, b):
        """(flops, size of result, operands share an index)"""
        key = (a, b) if a < b else (b, a)
        r = self._pair.get(key)
        if r is None:
            la, _ = self.legs(a)
            lb, _ = self.legs(b)
            fl = 1
            for ix in la | lb:
                fl *= self.sd[ix]
            share = any((w & a) and (w & b) for w in self.where.values())
            r = self._pair[key] = (fl, self.legs(a | b)[1], share)
        return r

    def tree_values(self, steps):
        """All objective values of one tree + whether it is outer-product free."""
        fl = wr = 0
        mx = sz = 0
        c64 = c256 = l64 = l256 = 0
        opfree = True
        for a, b in steps:
            f, s, sh = self.pair(a, b)
            fl += f
            wr += s
            if f > mx:
                mx = f
            if s > sz:
                sz = s
            c64 += f + 64 * s
            c256 += f + 256 * s
            l64 += max(f, 64 * s)
            l256 += max(f, 256 * s)
            if not sh:
                opfree = False
        return (fl, sz, wr, mx, c64, c256, l64, l256), opfree


def value_of_path(inputs, output, sd, ssa_path, obj):
    """Objective value of a returned path with the general step rule
    (pf_common.simulate), independent of the subset model above."""
    steps, _ = pc.simulate(inputs, output, sd, ssa_path, reduce_leaves=True)
    return _value(steps, obj)


def _value(steps, obj):
    fs = [(s["flops"], s["size"]) for s in steps]
    if obj == "flops":
        return sum(f for f, _ in fs)
    if obj == "size":
        return max(s for _, s in fs)
    if obj == "write":
        return sum(s for _, s in fs)
    if obj == "max":
        return max(f for f, _ in fs)
    name, _, k = obj.partition("-")
    k = int(k) if k else 64
    if name == "combo":
        return sum(f + k * s for f, s in fs)
    if name == "limit":
        return sum(max(f, k * s) for f, s in fs)
    raise ValueError(obj)


def path_opfree(inputs, ssa_path):
    n = len(inputs)
    cur = {i: frozenset(inputs[i]) for i in range(n)}
    nxt = n
    for con in ssa_path:
        if len(con) == 2:
            a, b = (cur.pop(x) for x in con)
            if not (a & b):
                return False
            cur[nxt] = a | b
        else:
            cur[nxt] = frozenset().union(*(cur.pop(x) for x in con))
        nxt += 1
    return True


def enumerate_minima(inputs, output, sd):
    """{obj: (min over all trees, argmin ssa, min over OP-free trees, argmin ssa, nontrivial_all, nontrivial_opfree)}"""
    n = len(inputs)
    model = Model(inputs, output, sd)
    best_all = [None] * len(OBJECTIVES)
    best_op = [None] * len(OBJECTIVES)
    worst_all = [None] * len(OBJECTIVES)
    worst_op = [None] * len(OBJECTIVES)
    n_op = 0
    for steps, ssa in trees_as_masks(n):
        vals, opfree = model.tree_values(steps)
        n_op += opfree
        for k, v in enumerate(vals):
            if best_all[k] is None or v < best_all[k][0]:
                best_all[k] = (v, ssa)
            if worst_all[k] is None or v > worst_all[k]:
                worst_all[k] = v
            if opfree:
                if best_op[k] is None or v < best_op[k][0]:
                    best_op[k] = (v, ssa)
                if worst_op[k] is None or v > worst_op[k]:
                    worst_op[k] = v
    out = {}
    for k, obj in enumerate(OBJECTIVES):
        out[obj] = {
            "all": best_all[k], "op": best_op[k],
            "nt_all": worst_all[k] != best_all[k][0],
            "nt_op": best_op[k] is not None and worst_op[k] != best_op[k][0],
        }
    return out, n_op, len(trees_as_masks(n))


# --------------------------------------------------------------------------
# one call of the real finder + comparison
# --------------------------------------------------------------------------
def call_optimal(inputs, output, sd, how):
    """how = {"via": "fn"|"preset", ...}.  Returns an SSA path."""
    n = len(inputs)
    if how["via"] == "fn":
        from cotengra.pathfinders.path_basic import optimize_optimal

        p = optimize_optimal(
            inputs, output, dict(sd), minimize=how["obj"], cost_cap=how["cap"],
            search_outer=how["outer"], use_ssa=how.get("use_ssa", True),
        )
        if not how.get("use_ssa", True):
            msg = pc.check_linear_path(p, n)
            if msg:
                raise _BadPath(f"returned linear path {p}: {msg}")
            p = pc.my_linear_to_ssa(p, n)
        return tuple(tuple(c) for c in p), None
    # preset through find_path + ContractionTree.from_path
    import cotengra as ctg
    from cotengra.interface import find_path

    preset = "optimal-outer" if how["outer"] else "optimal"
    lin = find_path(inputs, output, dict(sd), optimize=preset)
    msg = pc.check_linear_path(lin, n)
    if msg:
        raise _BadPath(f"preset {preset!r} returned linear path {lin}: {msg}")
    tree = ctg.ContractionTree.from_path(inputs, output, dict(sd), path=lin)
    return pc.my_linear_to_ssa(lin, n), tree.contract_stats()["flops"]


class _BadPath(Exception):
    pass


def check_one(inputs, output, sd, how, minima):
    """None or a violation message."""
    obj = how["obj"]
    with warnings.catch_warnings():
        warnings.simplefilter("ignore")
        try:
            ssa, tree_flops = pc.with_timeout(CALL_TIMEOUT, call_optimal, inputs, output, sd, how)
        except pc.Timeout:
            return f"did not return within {CALL_TIMEOUT:.0f} s of CPU time"
        except _BadPath as e:
            return str(e)
        except Exception as e:  # noqa: BLE001
            return f"raised {type(e).__name__}: {str(e)[:100]}"
    msg = pc.check_ssa_path(ssa, len(inputs))
    if msg:
        return f"returned ssa path {list(ssa)}: {msg}"
    if any(len(c) > 2 for c in ssa):
        return f"returned ssa path {list(ssa)} has a step of more than two tensors"
    val = value_of_path(inputs, output, sd, ssa, obj)
    m = minima[obj]
    if how["outer"]:
        target, arg, cls = m["all"][0], m["all"][1], "all"
    else:
        if m["op"] is None:
            return "HARNESS: connected network without outer-product-free tree"
        target, arg, cls = m["op"][0], m["op"][1], "outer-product-free"
        if not path_opfree(inputs, ssa):
            return f"search_outer=False but the returned path {list(ssa)} contains an outer product"
    if val < m["all"][0]:
        return f"HARNESS: path value {val} below the enumerated minimum {m['all'][0]}"
    if val != target:
        return (
            f"returned path {list(ssa)} has {obj} = {val} but the minimum over {cls} trees is {target} "
            f"(e.g. ssa path {list(arg)})"
        )
    if tree_flops is not None and tree_flops != val:
        return f"tree built from the preset's path reports flops {tree_flops}, path costs {val}"
    return None


def how_label(how):
    if how["via"] == "fn":
        return (
            f"optimize_optimal(minimize={how['obj']!r}, search_outer={how['outer']}, cost_cap={how['cap']}"
            + ("" if how.get("use_ssa", True) else ", use_ssa=False") + ")"
        )
    return f"find_path(optimize={'optimal-outer' if how['outer'] else 'optimal'!r}) + from_path"


def replay(case):
    inputs, output, sd = pc.net_from_case(case)
    if not pc.nothing_to_presimplify(inputs, output):
        return True, "network is outside the side condition of C09"
    minima, _, _ = enumerate_minima(inputs, output, sd)
    msg = check_one(inputs, output, sd, case["how"], minima)
    lab = f"{how_label(case['how'])} on {pc.eq_str(inputs, output)} sizes {pc.sizes_str(sd)}"
    if msg is None:
        return True, lab + ": attains the enumerated minimum"
    return False, lab + ": " + msg


# --------------------------------------------------------------------------
# worker
# --------------------------------------------------------------------------
def _work(item):
    name, idx, inputs, output, plan = item
    if (_DEADLINE is not None and time.time() > _DEADLINE) or pc.too_many_timeouts():
        return {"skipped": 1, "name": name}
    rng = random.Random(f"{seed()}|C09|{name}|{idx}")
    eq = pc.eq_str(inputs, output)
    keys, viols, samples = [], [], []
    fires = {}
    extra = {}
    n_eval = 0
    for si in range(plan["sizes"]):
        sd = pc.random_sizes(inputs, output, SIZES, rng)
        minima, n_op, n_all = enumerate_minima(inputs, output, sd)
        extra["trees_enumerated"] = extra.get("trees_enumerated", 0) + n_all
        extra["outer_product_free_trees"] = extra.get("outer_product_free_trees", 0) + n_op
        hows = []
        combos = [(o, so, cap) for o in OBJECTIVES for so in (False, True) for cap in CAPS]
        if plan["combos"] != "all":
            rng.shuffle(combos)
            combos = combos[: plan["combos"]]
        for k, (o, so, cap) in enumerate(combos):
            hows.append({"via": "fn", "obj": o, "outer": so, "cap": cap, "use_ssa": (k + idx) % 7 != 0})
        hows.append({"via": "preset", "obj": "flops", "outer": False})
        hows.append({"via": "preset", "obj": "flops", "outer": True})
        for how in hows:
            if pc.too_many_timeouts():
                break
            msg = check_one(inputs, output, sd, how, minima)
            n_eval += 1
            fires["optimal==min over " + ("all trees" if how["outer"] else "OP-free trees")] = (
                fires.get("optimal==min over " + ("all trees" if how["outer"] else "OP-free trees"), 0) + 1
            )
            m = minima[how["obj"]]
            if m["nt_all"] if how["outer"] else m["nt_op"]:
                keys.append(pc.digest(f"{eq}|{pc.sizes_str(sd)}|{how_label(how)}"))
            if msg is not None and len(viols) < 3:
                case = pc.net_case(inputs, output, sd)
                case["how"] = how
                viols.append((f"C09 {how_label(how)} on {eq} sizes {pc.sizes_str(sd)}: {msg}", case))
            elif msg is None and idx % 53 == 3 and not samples and (m["nt_all"] if how["outer"] else m["nt_op"]):
                case = pc.net_case(inputs, output, sd)
                case["how"] = how
                case["minimum"] = m["all"][0] if how["outer"] else m["op"][0]
                samples.append(case)
    return {"name": name, "n": n_eval, "keys": b"".join(keys), "viols": viols, "samples": samples,
            "fires": fires, "extra": extra}


# --------------------------------------------------------------------------
# scopes
# --------------------------------------------------------------------------
def complete_scope(n, k, r):
    out = []
    for ins in pc.setnets(n, k, r, min_rank=1):
        if not pc.is_connected(ins):
            continue
        for o in pc.output_sets(ins):
            if pc.nothing_to_presimplify(ins, o):
                out.append((ins, o))
    return out


def sampled_scope(n, k, r, count, rng):
    out = []
    seen = set()
    guard = 0
    while len(out) < count and guard < count * 2000:
        guard += 1
        ins = []
        for _ in range(n):
            ln = rng.randint(1, r)
            ins.append(tuple(sorted(rng.sample(range(k), ln))))
        m = {}
        for t in ins:
            for s in t:
                m.setdefault(s, len(m))
        ins = tuple(tuple(sorted(scope.SYMS[m[s]] for s in t)) for t in ins)
        used = sorted({s for t in ins for s in t})
        # every index confined to one tensor must be an output index; add a few more
        where = {}
        for i, t in enumerate(ins):
            for s in t:
                where.setdefault(s, set()).add(i)
        o = {s for s, ts in where.items() if len(ts) == 1}
        for s in used:
            if s not in o and rng.random() < 0.15:
                o.add(s)
        o = tuple(sorted(o))
        if (ins, o) in seen or not pc.nothing_to_presimplify(ins, o):
            continue
        seen.add((ins, o))
        out.append((ins, o))
    return out


def _plans(tier, rng):
    out = []
    allc = {"sizes": 2, "combos": "all"}
    if tier == "quick":
        out.append(("n=3: repeat-free Net(3,4,3), all 3 trees", complete_scope(3, 4, 3), True, allc,
                    "every connected network of 3 tensors (index sets of rank 1-3 over <= 4 symbols, every output set) with nothing to pre-simplify; "
                    "2 seeded size assignments from {2,3,5,7}; 8 objectives x search_outer x cost_cap in {2,17,10^6}"))
        out.append(("n=4: repeat-free Net(4,4,2), all 15 trees", complete_scope(4, 4, 2), True, allc,
                    "every such network of 4 tensors (rank 1-2 over <= 4 symbols); 2 size assignments; all 48 option combinations"))
        out.append(("n=4: repeat-free Net(4,4,3) sample, all 15 trees", sampled_scope(4, 4, 3, 1500, rng), False, {"sizes": 1, "combos": "all"},
                    "seeded sample of 1500 networks"))
        out.append(("n=5: sample over 5 symbols rank<=3, all 105 trees", sampled_scope(5, 5, 3, 1200, rng), False, {"sizes": 1, "combos": "all"},
                    "seeded sample of 1200 networks"))
        out.append(("n=6: sample over 6 symbols rank<=3, all 945 trees", sampled_scope(6, 6, 3, 500, rng), False, {"sizes": 1, "combos": "all"},
                    "seeded sample of 500 networks"))
    else:
        big = {"sizes": 4, "combos": "all"}
        out.append(("n=3: repeat-free Net(3,4,3), all 3 trees", complete_scope(3, 4, 3), True, big, "complete; 4 size assignments"))
        out.append(("n=4: repeat-free Net(4,4,2), all 15 trees", complete_scope(4, 4, 2), True, big, "complete; 4 size assignments"))
        out.append(("n=4: repeat-free Net(4,4,3), all 15 trees", complete_scope(4, 4, 3), True, {"sizes": 1, "combos": "all"}, "complete; 1 size assignment"))
        out.append(("n=5: sample over 5 symbols rank<=3, all 105 trees", sampled_scope(5, 5, 3, 15000, rng), False, allc, "seeded sample of 15000"))
        out.append(("n=6: sample over 6 symbols rank<=3, all 945 trees", sampled_scope(6, 6, 3, 8000, rng), False, allc, "seeded sample of 8000"))
        out.append(("n=7: sample over 7 symbols rank<=3, all 10395 trees", sampled_scope(7, 7, 3, 1500, rng), False, {"sizes": 1, "combos": "all"},
                    "seeded sample of 1500"))
    return out


def run_bounded(rep: Report, tier: str) -> None:
    global _DEADLINE
    rng = random.Random(f"{seed()}|C09|plans")
    _DEADLINE = deadline(tier, 300, 30 * 60)  # safety net only
    rep.rule = (
        "case = (network satisfying the side condition, size assignment from {2,3,5,7}, objective, search_outer, initial cost_cap "
        "or preset); one evaluation = one call of the real optimal finder compared with the minimum of my own objective over the "
        "exhaustive list of binary trees. Non-trivial iff the trees of the searched class do not all have the same objective value "
        "(otherwise every path is optimal); distinct = distinct (network, sizes, call label)."
    )
    rep.explanation += (
        "C09 bounded: objectives " + ", ".join(OBJECTIVES) + " (flops = sum over steps of the product of the dimensions of all "
        "indices on the two operands; size = largest tensor produced by a step; write = sum of the sizes of the tensors produced; "
        "max = most expensive step; combo-k = sum(flops + k*size), k = 64 by default; limit-k = sum(max(flops, k*size))); outer-"
        "product-free tree = every step's two operands share an index; side condition = connected, no repeated index in a tensor, "
        "no scalar, no two tensors with the same index set, no index on one tensor only unless it is an output index, no index on "
        "all tensors. Tensors are enumerated as index SETS (order inside a tensor is immaterial for costs), all ordered n-tuples, "
        "canonical up to relabelling, every output SET. Also the presets 'optimal' / 'optimal-outer' through find_path + "
        "ContractionTree.from_path (tree flops must equal the minimum). "
    )
    rep.trusted_base.append("scope.all_trees enumerates every binary tree ((2n-3)!! checked at start-up); cost model in c09_bounded.Model")
    for n in range(3, 8 if tier != "quick" else 7):
        want = 1
        for k in range(3, 2 * n - 2, 2):
            want *= k
        if len(trees_as_masks(n)) != want or len({t[0] for t in trees_as_masks(n)}) != want:
            rep.crash(f"C09: scope.all_trees({n}) gave {len(trees_as_masks(n))} trees, expected {want} distinct")
            return
    agg = pc.Agg(rep, MODULE)
    items = []
    for name, nets, exh, plan, bound in _plans(tier, rng):
        agg.declare(name, len(nets), exh, bound + f"; {len(nets)} networks")
        for idx, (i, o) in enumerate(nets):
            items.append((name, idx, i, o, plan))
    items.sort(key=lambda it: len(it[2]))  # small networks first: the smallest failing input is found before any time limit
    for status, r in pmap(_work, items, chunk=4):
        agg.add(status, r, "C09")
        if status == "ok":
            for sig, _c in r.get("viols", []):
                if ": HARNESS" in sig:
                    rep.crash("C09 harness inconsistency: " + sig[:300])
    agg.viols = [v for v in agg.viols if ": HARNESS" not in v[0]]
    agg.finish()
