"""C10 driver (see DESIGN.md section 3, C10)."""
from .generic import run_property, replay_property


def run(tier):
    return run_property("C10", tier)


def replay(path):
    return replay_property("C10", path)
