"""C10 bounded driver: path formats convert into each other and into trees
without loss (DESIGN.md section 3, C10, [T3] bullet).

Four families of cases, all against the real code:

A  tree x traversal order: ``traverse(order)`` yields every internal node once,
   children before parents; ``get_path(order)`` / ``get_ssa_path(order)`` are
   valid complete paths creating exactly the tree's nodes in traversal order,
   agree with each other under an independent SSA->linear conversion, and
   ``from_path`` of either rebuilds the same tree (same parent -> {children}).
B  ``linear_to_ssa`` / ``ssa_to_linear`` are mutually inverse (up to the order
   inside a step) and equal to independent converters, for paths with steps of
   arity 1-3.
C  edge paths: for every permutation (and prefixes) of a network's index set,
   ``edge_path_to_ssa`` emits exactly the steps of an independent simulation
   (contract the current tensors carrying the index, if at least two),
   ``edge_path_to_linear`` is its linear form and
   ``from_path(edge_path=..., autocomplete=True)`` is a complete tree containing
   every such node.
D  incomplete prefixes with ``autocomplete=True`` give a complete tree that
   contains the prefix nodes; single-tensor steps ``(i,)`` do not change the tree.
"""

from __future__ import annotations

import itertools
import random
import time
import warnings

from ..common import Report, pmap, seed, deadline
from .. import scope
from . import pf_common as pc

MODULE = "vt.props.c10_bounded"
_DEADLINE = None
CALL_TIMEOUT = 60.0  # CPU seconds per case (legitimate cases take milliseconds)


def _guarded(fn, *a):
    """Run one check under the CPU-time limit; a call into the real code that
    does not return is reported as a violation."""
    try:
        return pc.with_timeout(CALL_TIMEOUT, fn, *a)
    except pc.Timeout:
        return f"did not return within {CALL_TIMEOUT:.0f} s of CPU time"


# --------------------------------------------------------------------------
# orders
# --------------------------------------------------------------------------
def order_to_json(order):
    if order is None or isinstance(order, str):
        return order
    return {"rank": [[sorted(k), v] for k, v in sorted(order.rank.items(), key=lambda kv: (len(kv[0]), sorted(kv[0])))]}


def order_from_json(o):
    if o is None or isinstance(o, str):
        return o
    return scope._RankOrder({frozenset(k): v for k, v in o["rank"]})


def order_label(order):
    if order is None or isinstance(order, str):
        return repr(order)
    items = sorted(order.rank.items(), key=lambda kv: (len(kv[0]), sorted(kv[0])))
    vals = [v for _k, v in items]
    if len(set(vals)) <= 1:
        return "const"
    srt = sorted(set(vals))
    return "rank" + ",".join(str(srt.index(v)) for v in vals)


def internal_nodes(ssa, n):
    return pc.ssa_nodes(ssa, n)


def orders_for(ssa, n, ordinary, mode, rng):
    """mode: 'all' (every total ranking) or int (that many random rankings)."""
    nodes = internal_nodes(ssa, n)
    out = [None, "dfs"]
    if ordinary:
        out.append("surface_order")
    if n >= 3:
        if mode == "all":
            for perm in itertools.permutations(range(len(nodes))):
                out.append(scope._RankOrder({nd: perm[i] for i, nd in enumerate(nodes)}))
        else:
            for _ in range(mode):
                perm = list(range(len(nodes)))
                rng.shuffle(perm)
                out.append(scope._RankOrder({nd: perm[i] for i, nd in enumerate(nodes)}))
        out.append(scope._RankOrder({nd: 0 for nd in nodes}))
        for _ in range(2):
            out.append(scope._RankOrder({nd: rng.randint(0, 1) for nd in nodes}))
        out.append(scope._RankOrder({nd: float(-len(nd)) for nd in nodes}))  # parents ranked before children
    return out


# --------------------------------------------------------------------------
# family A
# --------------------------------------------------------------------------
def check_tree_order(inputs, output, sd, ssa, order, tree=None):
    """None or message."""
    from cotengra import ContractionTree

    n = len(inputs)
    with warnings.catch_warnings():
        warnings.simplefilter("ignore")
        try:
            if tree is None:
                tree = ContractionTree.from_path(inputs, output, sd, ssa_path=ssa)
            nodes = pc.ssa_nodes(ssa, n)
            cur = {i: frozenset([i]) for i in range(n)}
            nxt = n
            want = {}
            for con in ssa:
                a, b = (cur.pop(x) for x in con)
                want[a | b] = frozenset((a, b))
                cur[nxt] = a | b
                nxt += 1
            got = pc.tree_pairs(tree)
            if got != want:
                return "from_path(ssa_path) built different nodes than the path describes"
            # traverse
            trav = list(tree.traverse(order))
            if len(trav) != n - 1:
                return f"traverse yields {len(trav)} steps, tree has {n - 1} internal nodes"
            ready = {frozenset([i]) for i in range(n)}
            seq = []
            for step in trav:
                if len(step) != 3:
                    return f"traverse yields {step!r}"
                p, l, r = (frozenset(x) for x in step)
                if want.get(p) != frozenset((l, r)):
                    return f"traverse yields ({sorted(p)}, {sorted(l)}, {sorted(r)}) which is not a node of the tree with its children"
                if p in ready:
                    return f"traverse yields node {sorted(p)} twice"
                if l not in ready or r not in ready:
                    return f"traverse yields parent {sorted(p)} before its child"
                ready.add(p)
                seq.append(p)
            if set(seq) != set(want):
                return "traverse does not yield every internal node"
            # linear path
            path = tree.get_path(order)
            msg = pc.check_linear_path(path, n)
            if msg:
                return f"get_path = {list(path)}: {msg}"
            if any(len(c) != 2 for c in path):
                return f"get_path = {list(path)} has a step that is not a pair"
            pnodes = pc.ssa_nodes(pc.my_linear_to_ssa(path, n), n)
            if pnodes != seq:
                return f"get_path = {list(path)} does not create the tree's nodes in traversal order"
            ssap = tree.get_ssa_path(order)
            msg = pc.check_ssa_path(ssap, n)
            if msg:
                return f"get_ssa_path = {list(ssap)}: {msg}"
            if pc.ssa_nodes(ssap, n) != seq:
                return f"get_ssa_path = {list(ssap)} does not create the tree's nodes in traversal order"
            if pc.my_ssa_to_linear(ssap, n) != pc.norm_path(path):
                return f"get_path = {list(path)} is not the linear form of get_ssa_path = {list(ssap)}"
            t2 = ContractionTree.from_path(inputs, output, sd, path=path)
            if pc.tree_pairs(t2) != want:
                return f"from_path(path=get_path) = {list(path)} rebuilds a different tree"
            t3 = ContractionTree.from_path(inputs, output, sd, ssa_path=ssap)
            if pc.tree_pairs(t3) != want:
                return f"from_path(ssa_path=get_ssa_path) = {list(ssap)} rebuilds a different tree"
            if len(nodes) != n - 1:
                return "HARNESS: ssa path is not binary"
        except Exception as e:  # noqa: BLE001
            return f"raised {type(e).__name__}: {str(e)[:100]}"
    return None


# --------------------------------------------------------------------------
# family B
# --------------------------------------------------------------------------
def check_converters(ssa, n, infer_n):
    from cotengra.pathfinders.path_basic import linear_to_ssa, ssa_to_linear

    try:
        N = None if infer_n else n
        lin = ssa_to_linear([tuple(c) for c in ssa], N)
        mine = pc.my_ssa_to_linear(ssa, n)
        if pc.norm_path(lin) != mine:
            return f"ssa_to_linear({list(ssa)}, {N}) = {[list(c) for c in lin]}, expected {list(mine)}"
        msg = pc.check_linear_path(lin, n, complete=False)
        if msg:
            return f"ssa_to_linear({list(ssa)}, {N}) = {[list(c) for c in lin]}: {msg}"
        back = linear_to_ssa([tuple(c) for c in lin], N)
        if pc.norm_path(back) != pc.norm_path(ssa):
            return f"linear_to_ssa(ssa_to_linear(p)) = {[list(c) for c in back]} != p = {list(ssa)}"
        # the other direction, starting from a linear path with unsorted positions
        q = [tuple(reversed(c)) if k % 2 else tuple(c) for k, c in enumerate(mine)]
        s = linear_to_ssa(q, N)
        if pc.norm_path(s) != pc.norm_path(ssa):
            return f"linear_to_ssa({q}, {N}) = {[list(c) for c in s]}, expected {list(pc.norm_path(ssa))}"
        msg = pc.check_ssa_path(s, n, complete=False)
        if msg:
            return f"linear_to_ssa({q}, {N}) = {[list(c) for c in s]}: {msg}"
        back2 = ssa_to_linear(s, N)
        if pc.norm_path(back2) != pc.norm_path(q):
            return f"ssa_to_linear(linear_to_ssa(q)) = {[list(c) for c in back2]} != q = {q}"
    except Exception as e:  # noqa: BLE001
        return f"converters raised {type(e).__name__}: {str(e)[:100]} on {list(ssa)} (N={n})"
    return None


def all_small_ssa_paths(n, max_steps, max_arity=3):
    """Every valid SSA path over n inputs with <= max_steps steps of arity 1..max_arity."""
    out = []

    def rec(avail, nxt, path):
        out.append(tuple(path))
        if len(path) == max_steps:
            return
        for a in range(1, min(max_arity, len(avail)) + 1):
            for con in itertools.combinations(avail, a):
                rest = [x for x in avail if x not in con] + [nxt]
                path.append(con)
                rec(rest, nxt + 1, path)
                path.pop()

    rec(list(range(n)), n, [])
    return out


def random_ssa_path(n, rng, complete, max_arity=3):
    ids = list(range(n))
    nxt = n
    path = []
    steps = rng.randint(1, 2 * n)
    while len(ids) > 1 or (not complete and len(path) < steps):
        if len(ids) == 1:
            a = 1
        elif rng.random() < 0.2:
            a = 1
        else:
            a = rng.randint(2, min(max_arity, len(ids)))
        con = rng.sample(ids, a)
        for c in con:
            ids.remove(c)
        ids.append(nxt)
        nxt += 1
        path.append(tuple(con))
        if not complete and len(path) >= steps:
            break
        if len(path) > 4 * n:
            break
    if complete:
        while len(ids) > 1:
            con = ids[:2]
            ids = ids[2:] + [nxt]
            nxt += 1
            path.append(tuple(con))
    return tuple(path)


def is_complete_ssa(ssa, n):
    return sum(len(c) - 1 for c in ssa) == n - 1


# --------------------------------------------------------------------------
# family C
# --------------------------------------------------------------------------
def my_edge_path_steps(edge_path, inputs):
    cur = {i: set(t) for i, t in enumerate(inputs)}
    nxt = len(inputs)
    steps = []
    for ix in edge_path:
        group = sorted(t for t, inds in cur.items() if ix in inds)
        if len(group) < 2:
            continue
        merged = set()
        for t in group:
            merged |= cur.pop(t)
        cur[nxt] = merged
        nxt += 1
        steps.append(tuple(group))
    return tuple(steps)


def check_edge_path(inputs, output, sd, edge_path):
    from cotengra import ContractionTree
    from cotengra.pathfinders.path_basic import edge_path_to_linear, edge_path_to_ssa

    n = len(inputs)
    with warnings.catch_warnings():
        warnings.simplefilter("ignore")
        try:
            ssa = edge_path_to_ssa(tuple(edge_path), inputs)
            msg = pc.check_ssa_path(ssa, n, complete=False)
            if msg:
                return f"edge_path_to_ssa = {list(ssa)}: {msg}"
            want = my_edge_path_steps(edge_path, inputs)
            if pc.norm_path(ssa) != want:
                return f"edge_path_to_ssa = {list(ssa)} but the tensors carrying each index in turn are {list(want)}"
            lin = edge_path_to_linear(tuple(edge_path), inputs)
            if pc.norm_path(lin) != pc.my_ssa_to_linear(want, n):
                return f"edge_path_to_linear = {[list(c) for c in lin]}, expected {list(pc.my_ssa_to_linear(want, n))}"
            tree = ContractionTree.from_path(inputs, output, sd, edge_path=tuple(edge_path), autocomplete=True)
            msg = pc.check_tree(tree, n)
            if msg:
                return "from_path(edge_path=..., autocomplete=True): " + msg
            have = set(pc.tree_pairs(tree)) | {frozenset([i]) for i in range(n)}
            for nd in pc.ssa_nodes(want, n):
                if nd not in have:
                    return f"from_path(edge_path=...) lacks the node {sorted(nd)} of step contracting the tensors carrying an index"
        except Exception as e:  # noqa: BLE001
            return f"raised {type(e).__name__}: {str(e)[:100]}"
    return None


# --------------------------------------------------------------------------
# family D
# --------------------------------------------------------------------------
def check_incomplete(inputs, output, sd, ssa, fmt):
    """ssa: possibly incomplete SSA path (arity 1-3 steps)."""
    from cotengra import ContractionTree

    n = len(inputs)
    with warnings.catch_warnings():
        warnings.simplefilter("ignore")
        try:
            if fmt == "ssa_path":
                tree = ContractionTree.from_path(inputs, output, sd, ssa_path=tuple(ssa), autocomplete=True)
            elif fmt == "autocomplete()":
                # an incomplete tree completed afterwards by the public method
                tree = ContractionTree.from_path(inputs, output, sd, ssa_path=tuple(ssa), autocomplete=False)
                tree.autocomplete(optimize="greedy")
            elif fmt == "compressed":
                from cotengra import ContractionTreeCompressed

                tree = ContractionTreeCompressed.from_path(inputs, output, sd, ssa_path=tuple(ssa), autocomplete=True)
            else:
                tree = ContractionTree.from_path(inputs, output, sd, path=pc.my_ssa_to_linear(ssa, n), autocomplete=True)
            msg = pc.check_tree(tree, n)
            if msg:
                return f"completed tree ({fmt}): " + msg
            have = set(pc.tree_pairs(tree)) | {frozenset([i]) for i in range(n)}
            for nd in pc.ssa_nodes(ssa, n):
                if nd not in have:
                    return f"completed tree ({fmt}) lacks the prefix node {sorted(nd)}"
            binary = all(len(c) <= 2 for c in ssa)
            if binary:
                # the pairwise steps of the prefix must be exactly nodes with those children
                cur = {i: frozenset([i]) for i in range(n)}
                nxt = n
                pairs = pc.tree_pairs(tree)
                for con in ssa:
                    parts = [cur.pop(x) for x in con]
                    u = frozenset().union(*parts)
                    if len(parts) == 2 and pairs.get(u) != frozenset(parts):
                        return f"node {sorted(u)} does not have the children given by the path"
                    cur[nxt] = u
                    nxt += 1
        except Exception as e:  # noqa: BLE001
            return f"raised {type(e).__name__}: {str(e)[:100]}"
    return None


# --------------------------------------------------------------------------
# replay
# --------------------------------------------------------------------------
def replay(case):
    fam = case["family"]
    if fam == "B":
        msg = _guarded(check_converters, tuple(tuple(c) for c in case["ssa"]), case["n"], case["infer_n"])
        return (msg is None), (msg or "converters are mutually inverse on this path")
    inputs, output, sd = pc.net_from_case(case)
    if fam == "A":
        msg = _guarded(check_tree_order, inputs, output, sd, tuple(tuple(c) for c in case["ssa"]), order_from_json(case["order"]))
    elif fam == "C":
        msg = _guarded(check_edge_path, inputs, output, sd, case["edge_path"])
    else:
        msg = _guarded(check_incomplete, inputs, output, sd, tuple(tuple(c) for c in case["ssa"]), case["format"])
    return (msg is None), (msg or "held")


# --------------------------------------------------------------------------
# workers
# --------------------------------------------------------------------------
def _work(item):
    fam = item[0]
    if (_DEADLINE is not None and time.time() > _DEADLINE) or pc.too_many_timeouts():
        return {"skipped": 1, "name": item[1]}
    if fam == "A":
        return _work_a(item)
    if fam == "B":
        return _work_b(item)
    if fam == "C":
        return _work_c(item)
    return _work_d(item)


def _work_a(item):
    _f, name, idx, inputs, output, plan = item
    from cotengra import ContractionTree

    rng = random.Random(f"{seed()}|C10|{name}|{idx}")
    n = len(inputs)
    sd = scope.size_dict_primes(inputs, output)
    eq = pc.eq_str(inputs, output)
    ordinary = pc.is_ordinary(inputs)
    if plan["trees"] == "all":
        trees = list(scope.all_trees(n))
    else:
        trees = sorted({scope.random_tree_ssa(n, rng) for _ in range(plan["trees"])})
    keys, viols, samples = [], [], []
    fires = {}
    n_eval = 0
    for ssa in trees:
        with warnings.catch_warnings():
            warnings.simplefilter("ignore")
            try:
                tree = pc.with_timeout(CALL_TIMEOUT, ContractionTree.from_path, inputs, output, sd, ssa_path=ssa)
            except (Exception, pc.Timeout) as e:  # noqa: BLE001
                case = pc.net_case(inputs, output, sd)
                case.update({"family": "A", "ssa": pc.path_json(ssa), "order": None})
                viols.append((f"C10 from_path(ssa_path={list(ssa)}) on {eq}: raised {type(e).__name__}", case))
                continue
        for order in orders_for(ssa, n, ordinary, plan["rankings"], rng):
            if pc.too_many_timeouts():
                break
            msg = _guarded(check_tree_order, inputs, output, sd, ssa, order, tree)
            n_eval += 1
            ol = order_label(order)
            kind = ol if (order is None or isinstance(order, str) or ol == "const") else "callable"
            fires["traverse/get_path/get_ssa_path/from_path order=" + kind] = fires.get(
                "traverse/get_path/get_ssa_path/from_path order=" + kind, 0) + 1
            if n >= 3:
                keys.append(pc.digest(f"A|{eq}|{ssa}|{ol}"))
            if msg is not None and len(viols) < 3:
                case = pc.net_case(inputs, output, sd)
                case.update({"family": "A", "ssa": pc.path_json(ssa), "order": order_to_json(order)})
                viols.append((f"C10 tree {list(ssa)} order {ol} on {eq}: {msg}", case))
            elif msg is None and idx % 101 == 5 and not samples and n >= 3 and kind == "callable":
                case = pc.net_case(inputs, output, sd)
                case.update({"family": "A", "ssa": pc.path_json(ssa), "order": order_to_json(order)})
                samples.append(case)
    return {"name": name, "n": n_eval, "keys": b"".join(keys), "viols": viols, "samples": samples, "fires": fires}


def _work_b(item):
    _f, name, idx, paths = item
    keys, viols = [], []
    n_eval = 0
    for n, ssa in paths:
        for infer in ((False, True) if is_complete_ssa(ssa, n) else (False,)):
            if pc.too_many_timeouts():
                break
            msg = _guarded(check_converters, ssa, n, infer)
            n_eval += 1
            if len(ssa) >= 2:
                keys.append(pc.digest(f"B|{n}|{ssa}|{infer}"))
            if msg is not None and len(viols) < 3:
                viols.append((f"C10 linear<->ssa N={n} path {list(ssa)} (N {'inferred' if infer else 'given'}): {msg}"[:300],
                              {"family": "B", "n": n, "ssa": pc.path_json(ssa), "infer_n": infer, "inputs": [[]] * n}))
    return {"name": name, "n": n_eval, "keys": b"".join(keys), "viols": viols, "samples": [],
            "fires": {"linear_to_ssa o ssa_to_linear == id": n_eval}}


def _work_c(item):
    _f, name, idx, inputs, output, plan = item
    rng = random.Random(f"{seed()}|C10|{name}|{idx}")
    n = len(inputs)
    sd = scope.size_dict_primes(inputs, output)
    eq = pc.eq_str(inputs, output)
    inds = sorted({ix for t in inputs for ix in t})
    perms = list(itertools.permutations(inds))
    if plan.get("perms") and len(perms) > plan["perms"]:
        perms = rng.sample(perms, plan["perms"])
    cases = []
    for p in perms:
        cases.append(p)
    # proper prefixes (incomplete edge paths) of one permutation each length
    if inds:
        p = list(inds)
        rng.shuffle(p)
        for ln in range(0, len(p)):
            cases.append(tuple(p[:ln]))
    keys, viols, samples = [], [], []
    n_eval = 0
    for ep in cases:
        if pc.too_many_timeouts():
            break
        msg = _guarded(check_edge_path, inputs, output, sd, ep)
        n_eval += 1
        if n >= 3 and my_edge_path_steps(ep, inputs):
            keys.append(pc.digest(f"C|{eq}|{ep}"))
        if msg is not None and len(viols) < 3:
            case = pc.net_case(inputs, output, sd)
            case.update({"family": "C", "edge_path": list(ep)})
            viols.append((f"C10 edge path {''.join(ep)!r} on {eq}: {msg}", case))
        elif msg is None and idx % 307 == 11 and not samples and n >= 3 and len(ep) >= 2:
            case = pc.net_case(inputs, output, sd)
            case.update({"family": "C", "edge_path": list(ep)})
            samples.append(case)
    return {"name": name, "n": n_eval, "keys": b"".join(keys), "viols": viols, "samples": samples,
            "fires": {"edge_path_to_ssa == independent simulation": n_eval}}


def _work_d(item):
    _f, name, idx, inputs, output, plan = item
    rng = random.Random(f"{seed()}|C10|{name}|{idx}")
    n = len(inputs)
    sd = scope.size_dict_primes(inputs, output)
    eq = pc.eq_str(inputs, output)
    keys, viols = [], []
    n_eval = 0
    for k in range(plan["paths"]):
        if k % 2 == 0:
            full = scope.random_tree_ssa(n, rng)
            ssa = full[: rng.randint(0, max(0, len(full) - 1))]
        else:
            ssa = random_ssa_path(n, rng, complete=(k % 4 == 1))
        fmt = ("ssa_path", "path", "autocomplete()", "ssa_path", "path", "compressed")[k % 6]
        if fmt == "compressed" and not (pc.is_ordinary(inputs) and all(len(c) == 2 for c in ssa)):
            fmt = "autocomplete()"
        if pc.too_many_timeouts():
            break
        msg = _guarded(check_incomplete, inputs, output, sd, ssa, fmt)
        n_eval += 1
        if n >= 3:
            keys.append(pc.digest(f"D|{eq}|{ssa}|{fmt}"))
        if msg is not None and len(viols) < 3:
            case = pc.net_case(inputs, output, sd)
            case.update({"family": "D", "ssa": pc.path_json(ssa), "format": fmt})
            shown = list(pc.my_ssa_to_linear(ssa, n)) if fmt == "path" else list(ssa)
            what = {"ssa_path": "from_path(ssa_path=%s, autocomplete=True)", "path": "from_path(path=%s, autocomplete=True)",
                    "autocomplete()": "from_path(ssa_path=%s, autocomplete=False).autocomplete()",
                    "compressed": "ContractionTreeCompressed.from_path(ssa_path=%s, autocomplete=True)"}[fmt] % (shown,)
            viols.append((f"C10 {what} on {eq}: {msg}", case))
    return {"name": name, "n": n_eval, "keys": b"".join(keys), "viols": viols, "samples": [],
            "fires": {"autocomplete keeps prefix / unary steps neutral": n_eval}}


# --------------------------------------------------------------------------
# driver
# --------------------------------------------------------------------------
def _sample_n(n, k, r, count, rng):
    return scope.sample_networks(n, k, r, count, rng)


def run_bounded(rep: Report, tier: str) -> None:
    global _DEADLINE
    rng = random.Random(f"{seed()}|C10|plans")
    _DEADLINE = deadline(tier, 300, 30 * 60)  # safety net only
    quick = tier == "quick"
    rep.rule = (
        "family A case = (network, binary tree, traversal order); B case = (N, SSA path with steps of arity 1-3, N given or "
        "inferred); C case = (network, ordered subset of its indices); D case = (network, incomplete or unary-step path, format). "
        "One evaluation = all post-conditions of the family on that case. Non-trivial iff the network has >= 3 tensors (A, C with at "
        "least one emitted step, D) or the path has >= 2 steps (B); distinct = distinct (network, tree/path, order as the ranking it "
        "induces)."
    )
    rep.explanation += (
        "C10 bounded: A) all trees (n <= 5; n = 6 " + ("all 945 trees on a few networks" if quick else "all trees") + ") x orders "
        "{None, 'dfs', 'surface_order' (networks without repeated indices), every total ranking of the internal nodes as a callable "
        "(n <= 5; random rankings for n = 6), constant, two-valued ties, parents-ranked-first}; B) every SSA path with <= N+1 steps "
        "for N <= 4 plus seeded random paths up to N = 9; C) every permutation and one chain of prefixes of the index set; D) random "
        "prefixes / paths with unary steps with autocomplete=True. Sizes are distinct primes. "
    )
    rep.trusted_base.append("pf_common.my_linear_to_ssa / my_ssa_to_linear / ssa_nodes (independent converters), c10_bounded.my_edge_path_steps")
    agg = pc.Agg(rep, MODULE)
    items = []

    def add_nets(fam, name, nets, exh, plan, bound):
        nets = list(nets)
        agg.declare(name, len(nets), exh, bound + f"; {len(nets)} networks")
        for idx, (i, o) in enumerate(nets):
            items.append((fam, name, idx, i, o, plan))

    # ---- A
    add_nets("A", "A: Net(1,3,3)+Net(2,3,3) complete x the only tree", list(scope.networks(1, 3, 3)) + list(scope.networks(2, 3, 3)), True,
             {"trees": "all", "rankings": "all"}, "orders None, 'dfs', 'surface_order'")
    add_nets("A", "A: Net(3,3,2) complete x all 3 trees x all orders", scope.networks(3, 3, 2), True,
             {"trees": "all", "rankings": "all"}, "both total rankings, constant, ties")
    add_nets("A", "A: Net(4,4,2) sample x all 15 trees x all 6 rankings", _sample_n(4, 4, 2, 300 if quick else 12000, rng), False,
             {"trees": "all", "rankings": "all"}, "seeded sample")
    add_nets("A", "A: Net(5,5,3) sample x all 105 trees x all 24 rankings", _sample_n(5, 5, 3, 30 if quick else 1500, rng), False,
             {"trees": "all", "rankings": "all"}, "seeded sample")
    add_nets("A", "A: Net(6,5,3) sample x all 945 trees x 4 random rankings", _sample_n(6, 5, 3, 8 if quick else 400, rng), False,
             {"trees": "all", "rankings": 4}, "seeded sample; rankings sampled (720 exist)")
    add_nets("A", "A: Net(7..8,6,3) sample x 60 random trees x 6 random rankings",
             [scope.sample_networks(rng.randint(7, 8), 6, 3, 1, rng)[0] for _ in range(20 if quick else 1500)], False,
             {"trees": 60, "rankings": 6}, "seeded sample")
    # ---- B
    bpaths = []
    for n in (1, 2, 3, 4):
        for p in all_small_ssa_paths(n, n + 1):
            bpaths.append((n, p))
    nb_exh = len(bpaths)
    chunk = 400
    name_b = "B: every SSA path with <= N+1 steps of arity 1-3, N <= 4"
    blocks = [bpaths[i : i + chunk] for i in range(0, len(bpaths), chunk)]
    agg.declare(name_b, len(blocks), True, f"{nb_exh} paths, each with N given and (if complete) N inferred")
    for idx, b in enumerate(blocks):
        items.append(("B", name_b, idx, b))
    name_b2 = "B: random SSA paths, N in 3..9"
    rp = []
    for _ in range(20000 if quick else 1000000):
        n = rng.randint(3, 9)
        rp.append((n, random_ssa_path(n, rng, complete=rng.random() < 0.6)))
    blocks = [rp[i : i + chunk] for i in range(0, len(rp), chunk)]
    agg.declare(name_b2, len(blocks), False, f"{len(rp)} seeded random paths (complete and incomplete, arity 1-3)")
    for idx, b in enumerate(blocks):
        items.append(("B", name_b2, idx, b))
    # ---- C
    add_nets("C", "C: Net(2,3,3) complete x every permutation of the indices", scope.networks(2, 3, 3, outputs="sets"), True, {},
             "one output per output set (edge paths do not depend on the output order)")
    add_nets("C", "C: Net(3,3,2) complete x every permutation of the indices", scope.networks(3, 3, 2), True, {}, "all 4106 networks, <= 6 permutations + prefixes")
    add_nets("C", "C: Net(4,4,2) sample x every permutation", _sample_n(4, 4, 2, 1500 if quick else 80000, rng), False, {}, "seeded sample; <= 24 permutations + prefixes")
    add_nets("C", "C: Net(5..6,6,3) sample x 40 permutations",
             [scope.sample_networks(rng.randint(5, 6), 6, 3, 1, rng)[0] for _ in range(300 if quick else 20000)], False, {"perms": 40}, "seeded sample")
    # ---- D
    add_nets("D", "D: Net(3,3,2) complete x 6 incomplete/unary paths", scope.networks(3, 3, 2), True, {"paths": 6}, "paths sampled")
    add_nets("D", "D: Net(4..7,6,3) sample x 12 incomplete/unary paths",
             [scope.sample_networks(rng.randint(4, 7), 6, 3, 1, rng)[0] for _ in range(800 if quick else 50000)], False, {"paths": 12}, "seeded sample")
    items.sort(key=lambda it: (len(it[3]) if it[0] != "B" else 3))  # small networks first
    for status, r in pmap(_work, items, chunk=8):
        agg.add(status, r, "C10")
    agg.finish()
