"""C11 driver (see DESIGN.md section 3, C11)."""
from .generic import run_property, replay_property


def run(tier):
    return run_property("C11", tier)


def replay(path):
    return replay_property("C11", path)
