"""C11 bounded driver: cotengra's matmul-based einsum / tensordot vs the dense reference.

Bounded-symbolic (T2): every operand entry is a distinct polynomial variable
(``vt.symval``), so equality with the reference *as polynomials* is equality for
all array values at that shape.

What is executed (all against the real, unmodified functions):

* mode ``numpy``: ``cotengra.contract.einsum(eq, a[, b])`` on numpy object arrays.
  Two operands run the real plan (``_parse_eq_to_batch_matmul`` /
  ``_parse_eq_to_pure_multiplication``) and the real executor
  (``_do_contraction_via_bmm``: transpose / reshape / matmul / multiply /
  reshape / transpose); the single-operand pre-steps, and single-operand calls,
  are answered by ``numpy.einsum`` there because ``_einsum_single`` tries
  ``do("einsum")`` first.
* mode ``noeinsum``: the same calls on a thin array wrapper whose autoray backend
  (``vtnoeinsum``) provides transpose / reshape / sum / matmul / multiply but NO
  ``einsum``, so ``_einsum_single`` falls through to the cotengra implementation
  (``_parse_einsum_single``: diagonal selectors, summed axes, permutation) both for
  single-operand equations and for the pre-steps of two-operand ones.  The
  number of ``_parse_einsum_single`` evaluations is measured (lru ``cache_info``).
* ``cotengra.contract.tensordot(a, b, axes)`` in both modes, against the
  reference written from ``numpy.tensordot``'s documented semantics.

Oracle: ``symval.dense_einsum`` (sum over all index assignments), written
independently of cotengra.
"""

from __future__ import annotations

import importlib
import itertools
import random
import time
import warnings

import numpy as np

from ..common import Report, pmap, seed, deadline
from .. import scope, symval

MODULE = "vt.props.c11_bounded"
BACKEND = "vtnoeinsum"
MAX_VIOLATIONS = 5


# --------------------------------------------------------------------------
# an array type for which autoray finds no einsum
# --------------------------------------------------------------------------
class NEArray:
    """numpy object array in a wrapper that autoray maps to backend
    ``vtnoeinsum`` (functions registered below; no ``einsum``, no ``tensordot``)."""

    __slots__ = ("a",)

    def __init__(self, a):
        if not isinstance(a, np.ndarray):
            b = np.empty((), dtype=object)
            b[()] = a
            a = b
        self.a = a

    @property
    def shape(self):
        return tuple(int(d) for d in self.a.shape)

    @property
    def ndim(self):
        return self.a.ndim

    def __getitem__(self, sel):
        return NEArray(self.a[sel])


NEArray.__module__ = BACKEND

_registered = False


def _unw(x):
    return x.a if isinstance(x, NEArray) else x


def _register():
    global _registered
    if _registered:
        return
    import autoray as ar

    def lift(fn):
        def wrapped(*args, **kwargs):
            return NEArray(fn(*[_unw(x) for x in args], **kwargs))

        return wrapped

    for name in ("transpose", "reshape", "sum", "matmul", "multiply"):
        ar.register_function(BACKEND, name, lift(getattr(np, name)))
    symval.register_autoray()
    _registered = True


def _cc():
    return importlib.import_module("cotengra.contract")


# --------------------------------------------------------------------------
# case execution
# --------------------------------------------------------------------------
def _eq_of(inputs, output):
    return ",".join("".join(t) for t in inputs) + "->" + "".join(output)


def _shapes_of(inputs, sd):
    return [tuple(sd[ix] for ix in t) for t in inputs]


def _run_einsum(eq, arrays, mode):
    cc = _cc()
    with warnings.catch_warnings():
        warnings.simplefilter("ignore")
        if mode == "noeinsum":
            out = cc.einsum(eq, *[NEArray(a) for a in arrays])
            return _unw(out)
        return cc.einsum(eq, *arrays)


def _run_tensordot(arrays, axes, mode, np_int=False, default=False):
    cc = _cc()
    if np_int:
        axes = np.int64(axes)
    with warnings.catch_warnings():
        warnings.simplefilter("ignore")
        if default:
            assert axes == 2
            return cc.tensordot(arrays[0], arrays[1])
        if mode == "noeinsum":
            return _unw(cc.tensordot(NEArray(arrays[0]), NEArray(arrays[1]), axes))
        return cc.tensordot(arrays[0], arrays[1], axes)


def _check_einsum_case(inputs, output, sd, modes, eq=None):
    """Returns list of (mode, kind, detail) failures."""
    eq = eq or _eq_of(inputs, output)
    arrays = symval.make_arrays(inputs, sd)
    ref = symval.dense_einsum(inputs, output, arrays, sd)
    fails = []
    for mode in modes:
        try:
            got = _run_einsum(eq, arrays, mode)
        except Exception as e:  # noqa: BLE001  any exception on a valid equation
            fails.append((mode, f"raised {type(e).__name__}", str(e)[:200]))
            continue
        if not symval.equal(got, ref):
            fails.append((mode, "value differs", symval.first_diff(got, ref)))
    return fails


def _tensordot_reference(shape_a, shape_b, axes):
    """numpy.tensordot semantics: result axes = free axes of a (in order), then
    free axes of b (in order); axes_a[i] is summed against axes_b[i]."""
    ra, rb = len(shape_a), len(shape_b)
    if isinstance(axes, int):
        axes_a = list(range(ra - axes, ra))
        axes_b = list(range(axes))
    else:
        axes_a, axes_b = list(axes[0]), list(axes[1])
    la = [("a", i) for i in range(ra)]
    lb = [("b", j) for j in range(rb)]
    for i, j in zip(axes_a, axes_b):
        lb[j] = la[i]
    out = [la[i] for i in range(ra) if i not in axes_a] + [lb[j] for j in range(rb) if j not in axes_b]
    sd = {}
    for lab, d in list(zip(la, shape_a)) + list(zip(lb, shape_b)):
        if sd.setdefault(lab, d) != d:
            raise ValueError("inconsistent tensordot case")
    return (tuple(la), tuple(lb)), tuple(out), sd


def _check_tensordot_case(shape_a, shape_b, axes, modes):
    inputs, output, sd = _tensordot_reference(shape_a, shape_b, axes)
    arrays = symval.make_arrays(inputs, sd)
    ref = symval.dense_einsum(inputs, output, arrays, sd)
    fails = []
    for mode in modes:
        np_int = mode.endswith("+npint")
        try:
            got = _run_tensordot(arrays, axes, mode.split("+")[0], np_int=np_int, default=mode.endswith("+default"))
        except Exception as e:  # noqa: BLE001
            fails.append((mode, f"raised {type(e).__name__}", str(e)[:200]))
            continue
        if not symval.equal(got, ref):
            fails.append((mode, "value differs", symval.first_diff(got, ref)))
    return fails


def _plan_features(eq, shapes):
    """Which plan branches the real parser chose (statistics only)."""
    cc = _cc()
    f = []
    if len(shapes) == 1:
        d, s, p = cc._parse_einsum_single(eq, tuple(shapes[0]))
        if d is not None:
            f.append("single:diag")
        if s is not None:
            f.append("single:sum")
        if p is not None:
            f.append("single:perm")
        return f
    eq_a, eq_b, nsa, nsb, nsab, perm, pure = cc._parse_eq_to_batch_matmul(eq, tuple(shapes[0]), tuple(shapes[1]))
    f.append("pair:multiply" if pure else "pair:matmul")
    for e in (eq_a, eq_b):
        if isinstance(e, tuple):
            f.append("pair:pre-transpose")
        elif isinstance(e, str):
            f.append("pair:pre-einsum")
    if nsa is not None or nsb is not None:
        f.append("pair:fuse-reshape")
    if nsab is not None:
        f.append("pair:unfuse-reshape")
    if perm is not None:
        f.append("pair:perm_ab")
    return f


def _size_dicts(inputs, output, limit, rng):
    syms = sorted({s for t in inputs for s in t})
    vals = (1, 2, 3)
    allv = list(itertools.product(vals, repeat=len(syms)))
    if limit is not None and len(allv) > limit:
        allv = rng.sample(allv, limit)
    for vs in allv:
        yield dict(zip(syms, vs))


def _work_einsum(item):
    """item = (inputs, output, sd_limit, item_seed, implicit_too)."""
    _register()
    inputs, output, limit, iseed, implicit_too = item
    rng = random.Random(iseed)
    cc = _cc()
    ci0 = cc._parse_einsum_single.cache_info()
    n = 0
    keys, viols, samples = [], [], []
    fired = {}
    eq = _eq_of(inputs, output)
    single = len(inputs) == 1
    for sd in _size_dicts(inputs, output, limit, rng):
        shapes = _shapes_of(inputs, sd)
        modes = ("noeinsum", "numpy")
        fails = _check_einsum_case(inputs, output, sd, modes)
        n += len(modes)
        eqs = [eq]
        if single and implicit_too:
            # implicit single-operand form (handled by _sanitize_equation): only
            # when the implicit output (sorted once-only symbols) is this output
            lhs = "".join(inputs[0])
            imp = "".join(s for s in sorted(set(lhs)) if lhs.count(s) == 1)
            if imp == "".join(output):
                fails += [(m, k + " (implicit form)", d) for m, k, d in _check_einsum_case(inputs, output, sd, modes, eq=lhs)]
                n += len(modes)
        try:
            feats = _plan_features(eq, shapes)
        except Exception:  # noqa: BLE001  (already reported through the call itself)
            feats = ["plan-raised"]
        for f in feats:
            fired[f] = fired.get(f, 0) + 1
        nontrivial = (not single) or (tuple(inputs[0]) != tuple(output))
        if nontrivial:
            keys.append(f"E|{eq}|{shapes}")
        for mode, kind, detail in fails:
            case = {"kind": "einsum", "eq": eq, "shapes": [list(s) for s in shapes], "mode": mode,
                    "implicit": "implicit" in kind}
            viols.append((f"C11 cotengra.contract.einsum('{eq}') shapes {shapes} [{mode}]: {kind}", case, detail))
        if len(samples) < 1 and nontrivial and max([1] + [d for sh in shapes for d in sh]) > 1:
            samples.append({"eq": eq, "shapes": [list(s) for s in shapes], "plan": feats})
    ci1 = cc._parse_einsum_single.cache_info()
    fired["_parse_einsum_single evaluations"] = (ci1.hits + ci1.misses) - (ci0.hits + ci0.misses)
    return n, keys, viols, samples, fired


# ------------------------------------------------------------------ tensordot
def tensordot_specs(max_rank):
    """(ra, rb, axes) for every int axes and every pair of equal-length
    sequences of distinct axes (dims are assigned afterwards so that they match)."""
    out = []
    for ra in range(max_rank + 1):
        for rb in range(max_rank + 1):
            for k in range(min(ra, rb) + 1):
                out.append((ra, rb, k))
                for aa in itertools.permutations(range(ra), k):
                    for bb in itertools.permutations(range(rb), k):
                        out.append((ra, rb, (aa, bb)))
    return out


def _tensordot_shapes(ra, rb, axes, full_upto, limit, rng):
    """Every matching-dims shape pair with dims from {1,2,3} (number of free
    'symbols' <= full_upto), else from {1,2}; sampled if above limit."""
    if isinstance(axes, int):
        axes_a = list(range(ra - axes, ra))
        axes_b = list(range(axes))
    else:
        axes_a, axes_b = list(axes[0]), list(axes[1])
    nsym = ra + rb - len(axes_a)
    vals = (1, 2, 3) if nsym <= full_upto else (1, 2)
    allv = list(itertools.product(vals, repeat=nsym))
    if limit is not None and len(allv) > limit:
        allv = rng.sample(allv, limit)
    for vs in allv:
        sa = list(vs[:ra])
        sb = [None] * rb
        for i, j in zip(axes_a, axes_b):
            sb[j] = sa[i]
        rest = iter(vs[ra:])
        for j in range(rb):
            if sb[j] is None:
                sb[j] = next(rest)
        yield tuple(sa), tuple(sb)


def _work_tensordot(item):
    _register()
    ra, rb, axes, full_upto, limit, iseed = item
    rng = random.Random(iseed)
    n = 0
    keys, viols, samples = [], [], []
    fired = {}
    cc = _cc()
    for sa, sb in _tensordot_shapes(ra, rb, axes, full_upto, limit, rng):
        modes = ("noeinsum", "numpy")
        if isinstance(axes, int):
            # the same int also as a numpy integer scalar
            modes = modes + ("numpy+npint",) + (("numpy+default",) if axes == 2 else ())
        fails = _check_tensordot_case(sa, sb, axes, modes)
        n += len(modes)
        keys.append(f"T|{sa}|{sb}|{axes}")
        try:
            pl = cc._parse_tensordot_axes_to_matmul(axes, sa, sb)
            f = "tensordot:multiply" if pl[6] else "tensordot:matmul"
            fired[f] = fired.get(f, 0) + 1
            if any(isinstance(e, str) for e in pl[:2]):
                fired["tensordot:pre-einsum"] = fired.get("tensordot:pre-einsum", 0) + 1
        except Exception:  # noqa: BLE001
            pass
        for mode, kind, detail in fails:
            case = {"kind": "tensordot", "shape_a": list(sa), "shape_b": list(sb),
                    "axes": axes if isinstance(axes, int) else [list(axes[0]), list(axes[1])], "mode": mode}
            sig = f"C11 cotengra.contract.tensordot shapes {sa},{sb} axes={axes!r} [{mode}]: {kind}"
            viols.append((sig, case, detail))
        if not samples:
            samples.append({"tensordot": [list(sa), list(sb)], "axes": repr(axes)})
    return n, keys, viols, samples, fired


# --------------------------------------------------------------------------
# driver
# --------------------------------------------------------------------------
def _sample_two_operand(k, r, count, rng):
    """Seeded sample of two-operand equations over <= k symbols, rank <= r,
    biased to contain the listed corner features."""
    out = []
    for inputs, output in scope.sample_networks(2, k, r, count, rng):
        out.append((inputs, output))
    return out


def _collect(rep, results, state, scope_name):
    n_done = 0
    for st, res in results:
        if st == "crash":
            rep.crash(f"{scope_name}: worker crashed: {res[:600]}")
            continue
        n, keys, viols, samples, fired = res
        rep.count(n)
        n_done += n
        for k in keys:
            rep.nontrivial_case(k)
        for s in samples:
            rep.sample(s)
        for f, c in fired.items():
            rep.fired(f, c)
        state["viols"].extend(viols)
        if time.time() > state["deadline"]:
            state["timed_out"] = True
            break
    return n_done


def run_bounded(rep: Report, tier: str) -> None:
    quick = tier == "quick"
    rng = random.Random(seed() * 7919 + 11)
    state = {"viols": [], "deadline": deadline(tier, 240, 25 * 60), "timed_out": False}
    rep.rule = (
        "a case is (equation, operand shapes) [einsum] or (shape_a, shape_b, axes) [tensordot], executed in two array "
        "modes (numpy object arrays; wrapper arrays whose backend has no einsum); equations are canonical up to "
        "first-appearance renaming of symbols. Non-trivial: every two-operand case (matmul or multiply executes) and "
        "every single-operand case whose output differs from the input term (diag/sum/transpose executes); "
        "distinct = distinct (equation, shapes) / (shapes, axes)."
    )

    def part(name, fn, items, exhaustive, bound, chunk=None):
        if state["timed_out"]:
            rep.scope(name, 0, False, bound + " [not started: time budget exhausted]")
            return
        n = _collect(rep, pmap(fn, items, chunk=chunk), state, name)
        if state["timed_out"]:
            rep.scope(name, n, False, bound + " [stopped at the time budget]")
        else:
            rep.scope(name, n, exhaustive, bound)  # cases = executions (cases x array modes)

    # ---- single operand -------------------------------------------------
    k1, r1 = (3, 3) if quick else (5, 4)
    items = [(i, o, None, 0, True) for i, o in scope.networks(1, k1, r1)]
    part(f"einsum 1 operand: Net(1,{k1},{r1}) x all sizes {{1,2,3}}", _work_einsum, items, True,
         f"<= {k1} symbols, rank <= {r1}, every output sequence, explicit and implicit form, every size assignment from {{1,2,3}}")
    if quick:
        items = [(i, o, 12, rng.randrange(2**30), True) for i, o in scope.networks(1, 5, 4)]
        items = rng.sample(items, 120)
        part("einsum 1 operand: sample of Net(1,5,4)", _work_einsum, items, False,
             "120 equations x 12 size assignments sampled from {1,2,3}")

    # ---- two operands ----------------------------------------------------
    items = [(i, o, None, 0, False) for i, o in scope.networks(2, 3, 3)]
    part("einsum 2 operands: Net(2,3,3) x all sizes {1,2,3}", _work_einsum, items, True,
         "<= 3 symbols, operand rank <= 3, every output sequence of distinct symbols, every size assignment from {1,2,3}",
         chunk=8)
    if quick:
        items = [(i, o, 6, rng.randrange(2**30), False) for i, o in scope.networks(2, 4, 3)]
        part("einsum 2 operands: Net(2,4,3) x 6 sampled size assignments", _work_einsum, items, False,
             "all 8828 canonical equations over <= 4 symbols rank <= 3; 6 of the <= 81 size assignments from {1,2,3} each", chunk=8)
        samp = _sample_two_operand(5, 4, 500, rng)
        items = [(i, o, 6, rng.randrange(2**30), False) for i, o in samp]
        part("einsum 2 operands: sample of Net(2,5,4)", _work_einsum, items, False,
             "500 equations x <= 6 size assignments sampled from {1,2,3}", chunk=4)
    else:
        items = [(i, o, None, 0, False) for i, o in scope.networks(2, 4, 3)]
        part("einsum 2 operands: Net(2,4,3) x all sizes {1,2,3}", _work_einsum, items, True,
             "all 8828 canonical equations over <= 4 symbols rank <= 3, every size assignment from {1,2,3}", chunk=8)
        samp = _sample_two_operand(5, 4, 250000, rng)
        items = [(i, o, 6, rng.randrange(2**30), False) for i, o in samp]
        part("einsum 2 operands: sample of Net(2,5,4)", _work_einsum, items, False,
             "250000 equations x <= 6 size assignments sampled from {1,2,3}", chunk=8)

    # ---- tensordot ---------------------------------------------------------
    mr = 3 if quick else 4
    specs = tensordot_specs(mr)
    full_upto = 4 if quick else 5
    limit = None if quick else 400
    items = [(ra, rb, ax, full_upto, limit, rng.randrange(2**30)) for ra, rb, ax in specs]
    part(f"tensordot: ranks <= {mr}, every axes spec", _work_tensordot, items, limit is None,
         f"every int axes (python int, numpy.int64, and the default axes=2) and every pair of equal-length sequences of distinct axes ({len(specs)} specs); "
         f"matching dims: all assignments from {{1,2,3}} when <= {full_upto} free dims else all from {{1,2}}"
         + ("" if limit is None else f", at most {limit} (seeded sample) per spec"),
         chunk=2)

    # ---- report ------------------------------------------------------------
    viols = sorted(state["viols"], key=lambda v: (len(v[0]), v[0]))
    seen_kind = set()
    nrep = 0
    for sig, case, detail in viols:
        # prefer distinct (equation/axes, mode) classes: one per equation
        cls = (case.get("eq") or str(case.get("axes")), case["kind"])
        if cls in seen_kind:
            continue
        seen_kind.add(cls)
        case = dict(case, detail=detail)
        rep.violation(sig, {"module": MODULE, "case": case})
        nrep += 1
        if nrep >= MAX_VIOLATIONS:
            break
    rep.extra["failing_cases_total"] = len(viols)
    rep.explanation += (
        "Bounded-symbolic: operands are numpy object arrays of distinct polynomial variables, the real "
        "cotengra.contract.einsum / tensordot run unchanged and the result must equal the dense sum-over-assignments "
        "reference as polynomials (hence for all values at that shape). Each case runs twice: on plain numpy object arrays "
        "(two-operand plan + executor real; single-operand steps answered by numpy.einsum because _einsum_single tries "
        "do('einsum') first) and on wrapper arrays of an autoray backend without einsum, which forces cotengra's own "
        "_parse_einsum_single diag/sum/transpose path for single-operand equations and for the pre-steps of pairs "
        f"({rep.fire_counts.get('_parse_einsum_single evaluations', 0)} evaluations of _parse_einsum_single measured). "
        "Two-operand equations are explicit-output only (the implicit two-operand form is not accepted by "
        "cotengra.contract.einsum and is not part of the scope); tensordot axes are non-negative."
    )
    rep.assumptions.append("numpy object-dtype transpose/reshape/matmul/multiply/sum and fancy indexing behave as for numeric dtypes")
    rep.assumptions.append("sizes per symbol are consistent across operands (no size-1 broadcasting against larger dims)")
    rep.trusted_base.append("vt.symval.Poly / dense_einsum (reference), numpy object-array kernels, autoray dispatch")


# --------------------------------------------------------------------------
def replay(case: dict):
    _register()
    mode = case.get("mode", "numpy")
    if case["kind"] == "einsum":
        eq = case["eq"]
        lhs, out = eq.split("->")
        inputs = tuple(tuple(t) for t in lhs.split(","))
        output = tuple(out)
        sd = {}
        for t, s in zip(inputs, case["shapes"]):
            for ix, d in zip(t, s):
                sd[ix] = int(d)
        call_eq = lhs if case.get("implicit") else eq
        fails = _check_einsum_case(inputs, output, sd, (mode,), eq=call_eq)
        if fails:
            m, kind, detail = fails[0]
            return False, f"cotengra.contract.einsum({call_eq!r}) shapes {case['shapes']} [{m}]: {kind}: {detail}"
        return True, f"einsum({call_eq!r}) shapes {case['shapes']} [{mode}] equals the dense reference"
    if case["kind"] == "tensordot":
        axes = case["axes"]
        if not isinstance(axes, int):
            axes = (tuple(axes[0]), tuple(axes[1]))
        fails = _check_tensordot_case(tuple(case["shape_a"]), tuple(case["shape_b"]), axes, (mode,))
        if fails:
            m, kind, detail = fails[0]
            return False, f"tensordot shapes {case['shape_a']},{case['shape_b']} axes={axes} [{m}]: {kind}: {detail}"
        return True, "tensordot equals the dense reference"
    return True, f"unknown case kind {case.get('kind')}"
