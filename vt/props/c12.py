"""C12 driver (see DESIGN.md section 3, C12)."""
from .generic import run_property, replay_property


def run(tier):
    return run_property("C12", tier)


def replay(path):
    return replay_property("C12", path)
