"""C12 bounded driver: the einsum front end vs numpy.einsum (the specification).

Every case is a concrete call on exact small-integer-valued arrays (float64 or
int64, |result| far below 2**53, so equality is exact).  numpy is run first:
a call numpy rejects is skipped (never a violation).  Everything is executed by
``_exec(case)``, which is also what ``replay`` runs, so every reported case is
replayable by construction.

Sub-scopes
  G1/G2  grammar-exhaustive string form, 1 and 2 operands over symbols {a,b,c},
         operand rank <= 2 of named symbols, optional '...' at any position of
         each operand (ellipsis rank 0..2 independently per operand), output
         implicit or any sequence of distinct input symbols with optional '...'
         at any position; plus the parser contract on the same equations
         (parse_equation_ellipses vs an independent reference parser) and the
         interleaved form (monotone and non-monotone integer labels, Ellipsis).
  G3/G4  3 and 4 operands, seeded sample of the same grammar over 5 symbols
         (upper and lower case), rank <= 3.
  API    einsum_tree(...).contract, einsum_expression (ellipsis-free only: its
         docstring excludes ellipses), einsum_expression(constants=...).
  AC     array_contract with arbitrary hashable labels (ints incl. negative,
         tuples, strings, mixed), output explicit / None (documented order: first
         appearance), array_contract_expression(constants=...), ncon.
  P      find_output_from_inputs, canonicalize_inputs, get_symbol_map,
         convert_from_interleaved, find_output_str against reference definitions.
"""

from __future__ import annotations

import ast
import itertools
import random
import time
import warnings
import zlib

import numpy as np

from ..common import Report, pmap, seed, deadline
from .. import scope

MODULE = "vt.props.c12_bounded"
MAX_VIOLATIONS = 5

SY = "abc"
SIZES = {"a": 2, "b": 3, "c": 4, "d": 2, "e": 3, "A": 2, "B": 3, "C": 2, "D": 3}
ESIZES = (5, 6)  # ellipsis dims counted from the right


def _crc(s):
    return zlib.crc32(s.encode())


# --------------------------------------------------------------------------
# reference parser (numpy's documented rules), independent of cotengra
# --------------------------------------------------------------------------
def ref_parse(eq, ranks):
    """-> (inputs, output) as tuples of labels; an ellipsis dimension is the
    label ('E', k), k counted from the RIGHT (numpy broadcasts ellipsis
    dimensions right-aligned); implicit output = all ellipsis dims (leftmost)
    followed by the alphabetically sorted labels that appear exactly once."""
    eq = eq.replace(" ", "")
    if "->" in eq:
        lhs, rhs = eq.split("->")
    else:
        lhs, rhs = eq, None
    terms = lhs.split(",")
    assert len(terms) == len(ranks)
    inputs = []
    maxe = 0
    for t, r in zip(terms, ranks):
        if "..." in t:
            p = t.index("...")
            pre, post = t[:p], t[p + 3:]
            ne = r - len(pre) - len(post)
            assert ne >= 0
            maxe = max(maxe, ne)
            inputs.append(tuple(pre) + tuple(("E", k) for k in range(ne - 1, -1, -1)) + tuple(post))
        else:
            assert len(t) == r
            inputs.append(tuple(t))
    edims = tuple(("E", k) for k in range(maxe - 1, -1, -1))
    if rhs is None:
        flat = [x for t in inputs for x in t if not isinstance(x, tuple)]
        output = edims + tuple(s for s in sorted(set(flat)) if flat.count(s) == 1)
    elif "..." in rhs:
        p = rhs.index("...")
        output = tuple(rhs[:p]) + edims + tuple(rhs[p + 3:])
    else:
        output = tuple(rhs)
    return tuple(inputs), output


def _check_parse(eq, shapes):
    """Contract on cotengra.utils.parse_equation_ellipses: result is
    ellipsis-free and equal to the reference parse up to a bijective renaming
    of the ellipsis dimensions (named symbols are kept)."""
    from cotengra.utils import parse_equation_ellipses

    shapes = tuple(tuple(s) for s in shapes)
    rin, rout = ref_parse(eq, [len(s) for s in shapes])
    for tuples in (True, False):
        got = parse_equation_ellipses(eq, shapes, tuples=tuples)
        if tuples:
            gin, gout = got
        else:
            lhs, out = got
            gin, gout = tuple(tuple(t) for t in lhs.split(",")), tuple(out)
        if any("." in t for t in gin) or "." in gout:
            return f"result still contains dots: {got!r}"
        if len(gin) != len(rin) or any(len(a) != len(b) for a, b in zip(gin, rin)) or len(gout) != len(rout):
            return f"structure differs: got {got!r}, reference {rin}->{rout}"
        fwd, bwd = {}, {}
        for g, r in zip([x for t in gin for x in t] + list(gout), [x for t in rin for x in t] + list(rout)):
            if fwd.setdefault(g, r) != r or bwd.setdefault(r, g) != g:
                return f"not a consistent bijective relabelling: got {got!r}, reference {rin}->{rout}"
            if not isinstance(r, tuple) and g != r:
                return f"named symbol renamed: got {got!r}, reference {rin}->{rout}"
    return None


# --------------------------------------------------------------------------
# case construction helpers
# --------------------------------------------------------------------------
def _arrays(shapes, sd, dtype):
    rng = np.random.default_rng(sd)
    out = []
    for s in shapes:
        a = rng.integers(-3, 4, size=tuple(s))
        out.append(a.astype(dtype))
    return out


def _enc(x):
    """labels -> JSON (repr strings), Ellipsis -> '...'"""
    return "..." if x is Ellipsis else repr(x)


def _dec(s):
    return Ellipsis if s == "..." else ast.literal_eval(s)


def _same(got, ref):
    if isinstance(got, tuple):
        return False, f"returned a tuple {type(got)}"
    gs, rs = np.shape(got), np.shape(ref)
    if gs != rs:
        return False, f"shape {gs} != numpy {rs}"
    if not np.array_equal(np.asarray(got), np.asarray(ref)):
        return False, f"values differ: got {np.asarray(got).ravel()[:6].tolist()}, reference {np.asarray(ref).ravel()[:6].tolist()}"
    return True, ""


def _einsum_args(case, arrays):
    if case["form"] == "str":
        return (case["eq"], *arrays)
    args = []
    for a, t in zip(arrays, case["terms"]):
        args.append(a)
        args.append([_dec(x) for x in t])
    if case.get("out") is not None:
        args.append([_dec(x) for x in case["out"]])
    return tuple(args)


def _letters_for(inputs, output):
    """My own relabelling of arbitrary hashable labels into letters, and the
    documented implicit output: labels appearing once, in order of appearance."""
    m = {}
    for t in inputs:
        for ix in t:
            if ix not in m:
                m[ix] = "abcdefghijklmnopqrstuvwxyz"[len(m)]
    if output is None:
        flat = [ix for t in inputs for ix in t]
        output = []
        for ix in flat:
            if flat.count(ix) == 1 and ix not in output:
                output.append(ix)
    eq = ",".join("".join(m[ix] for ix in t) for t in inputs) + "->" + "".join(m[ix] for ix in output)
    return eq, tuple(output)


# --------------------------------------------------------------------------
# the executor: one case -> (status, message); status in {"ok","skip","fail"}
# --------------------------------------------------------------------------
def _exec(case):
    import cotengra as ctg

    kind = case["kind"]
    with warnings.catch_warnings():
        warnings.simplefilter("ignore")
        if kind == "einsum":
            arrays = _arrays(case["shapes"], case.get("seed", 0), case.get("dtype", "float64"))
            args = _einsum_args(case, arrays)
            try:
                ref = np.einsum(*args)
            except Exception:  # noqa: BLE001  numpy rejects: out of scope
                return "skip", "numpy rejects"
            api = case.get("api", "einsum")
            if case["form"] == "interleaved" and api == "einsum":
                # contract on convert_from_interleaved: the equation it returns means the same to numpy
                from cotengra.utils import convert_from_interleaved

                try:
                    ceq, carr = convert_from_interleaved(args)
                    if len(carr) != len(arrays) or any(x is not y for x, y in zip(carr, arrays)):
                        return "fail", "convert_from_interleaved does not return the operands in order"
                    ok, msg = _same(np.einsum(ceq, *carr), ref)
                    if not ok:
                        return "fail", f"convert_from_interleaved gives {ceq!r}, not equivalent: {msg}"
                except Exception as e:  # noqa: BLE001
                    return "fail", f"convert_from_interleaved raised {type(e).__name__}: {str(e)[:120]}"
            try:
                if api == "einsum":
                    got = ctg.einsum(*args)
                elif api == "einsum_nocache":
                    got = ctg.einsum(*args, cache_expression=False)
                elif api == "einsum_tree":
                    sargs = [x.shape if isinstance(x, np.ndarray) else x for x in args]
                    tree = ctg.einsum_tree(*sargs)
                    if len(arrays) < 2:
                        rin, rout = ref_parse(case["eq"], [len(s) for s in case["shapes"]]) if case["form"] == "str" else (None, None)
                        if rin is not None and (len(tree.inputs[0]) != len(rin[0]) or len(tree.output) != len(rout)):
                            return "fail", f"einsum_tree inputs/output {tree.inputs}->{tree.output} vs reference {rin}->{rout}"
                        return "ok", ""
                    got = tree.contract(arrays)
                elif api == "einsum_expression":
                    sargs = [x.shape if isinstance(x, np.ndarray) else x for x in args]
                    got = ctg.einsum_expression(*sargs)(*arrays)
                elif api == "einsum_expression_constants":
                    consts = case["constants"]
                    sargs = list(args)
                    pos = [i for i, x in enumerate(sargs) if isinstance(x, np.ndarray)]
                    for k, p in enumerate(pos):
                        if k not in consts:
                            sargs[p] = sargs[p].shape
                    expr = ctg.einsum_expression(*sargs, constants=list(consts))
                    got = expr(*[a for k, a in enumerate(arrays) if k not in consts])
                else:
                    return "skip", f"unknown api {api}"
            except Exception as e:  # noqa: BLE001
                return "fail", f"raised {type(e).__name__}: {str(e)[:160]} (numpy returns shape {np.shape(ref)})"
            ok, msg = _same(got, ref)
            return ("ok", "") if ok else ("fail", msg)

        if kind == "parse":
            try:
                arrays = _arrays(case["shapes"], 0, "float64")
                np.einsum(case["eq"], *arrays)
            except Exception:  # noqa: BLE001
                return "skip", "numpy rejects"
            try:
                msg = _check_parse(case["eq"], case["shapes"])
                lhs = case["eq"].split("->")[0]
                if msg is None and "." not in lhs:
                    from cotengra.utils import find_output_str

                    flat = lhs.replace(",", "")
                    want = "".join(ch for ch in sorted(set(flat)) if flat.count(ch) == 1)
                    if find_output_str(lhs) != want:
                        msg = f"find_output_str({lhs!r}) = {find_output_str(lhs)!r}, reference {want!r}"
            except Exception as e:  # noqa: BLE001
                return "fail", f"parse_equation_ellipses raised {type(e).__name__}: {str(e)[:160]}"
            return ("ok", "") if msg is None else ("fail", msg)

        if kind == "array_contract":
            inputs = [tuple(_dec(x) for x in t) for t in case["inputs"]]
            output = None if case.get("output") is None else tuple(_dec(x) for x in case["output"])
            arrays = _arrays(case["shapes"], case.get("seed", 0), case.get("dtype", "float64"))
            api = case.get("api", "array_contract")
            if api == "ncon":
                negs = sorted({ix for t in inputs for ix in t if isinstance(ix, int) and ix < 0}, reverse=True)
                eq, _ = _letters_for(inputs, tuple(negs))
            else:
                eq, _ = _letters_for(inputs, output)
            ref = np.einsum(eq, *arrays)
            try:
                if api == "array_contract":
                    kw = {}
                    if "canonicalize" in case:
                        kw["canonicalize"] = case["canonicalize"]
                    got = ctg.array_contract(arrays, inputs, output, **kw)
                elif api == "ncon":
                    got = ctg.ncon(arrays, [list(t) for t in inputs])
                elif api == "expression_constants":
                    consts = case["constants"]
                    expr = ctg.array_contract_expression(
                        inputs, output, shapes=[a.shape for a in arrays], constants={i: arrays[i] for i in consts}
                    )
                    got = expr(*[a for i, a in enumerate(arrays) if i not in consts])
                elif api == "expression":
                    expr = ctg.array_contract_expression(inputs, output, shapes=[a.shape for a in arrays])
                    got = expr(*arrays)
                elif api == "tree":
                    tree = ctg.array_contract_tree(inputs, output, shapes=[a.shape for a in arrays])
                    got = tree.contract(arrays)
                else:
                    return "skip", f"unknown api {api}"
            except Exception as e:  # noqa: BLE001
                return "fail", f"raised {type(e).__name__}: {str(e)[:160]} (reference einsum {eq} has shape {np.shape(ref)})"
            ok, msg = _same(got, ref)
            return ("ok", "") if ok else ("fail", msg + f" (reference einsum {eq})")

        if kind == "parsers":
            return _exec_parsers(case)
    return "skip", f"unknown kind {kind}"


def _exec_parsers(case):
    from cotengra import utils as cu

    inputs = [tuple(_dec(x) for x in t) for t in case["inputs"]]
    output = None if case.get("output") is None else tuple(_dec(x) for x in case["output"])
    shapes = [tuple(s) for s in case["shapes"]]
    flat = [ix for t in inputs for ix in t]
    # find_output_from_inputs: once-only labels in order of first appearance
    want = []
    for ix in flat:
        if flat.count(ix) == 1:
            want.append(ix)
    got = cu.find_output_from_inputs(inputs)
    if tuple(got) != tuple(want) or any(type(a) is not type(b) for a, b in zip(got, want)):
        return "fail", f"find_output_from_inputs({inputs}) = {got!r}, reference {tuple(want)!r}"
    # canonicalize_inputs: consistent bijection onto single-character symbols
    for out in (output, None):
        sd = {}
        for t, s in zip(inputs, shapes):
            for ix, d in zip(t, s):
                sd[ix] = d
        for use_shapes in (True, False):
            kw = {"shapes": shapes} if use_shapes else {"size_dict": dict(sd)}
            ni, no, nsd, _ = cu.canonicalize_inputs(inputs, out, **kw)
            exp_out = tuple(want) if out is None else tuple(out)
            fwd, bwd = {}, {}
            if len(ni) != len(inputs) or any(len(a) != len(b) for a, b in zip(ni, inputs)) or len(no) != len(exp_out):
                return "fail", f"canonicalize_inputs({inputs},{out}) structure differs: {ni}->{no}"
            for g, r in zip([x for t in ni for x in t] + list(no), flat + list(exp_out)):
                if not (isinstance(g, str) and len(g) == 1):
                    return "fail", f"canonicalize_inputs symbol {g!r} is not a single character"
                if fwd.setdefault(g, r) != r or bwd.setdefault(r, g) != g:
                    return "fail", f"canonicalize_inputs({inputs},{out}) -> {ni}->{no} is not a bijective relabelling (expected output {exp_out})"
            if nsd is None or any(nsd.get(bwd[ix]) != d for ix, d in sd.items()) or len(nsd) != len(sd):
                return "fail", f"canonicalize_inputs size_dict {nsd} does not match {sd}"
            # symbols are assigned in order of first appearance: 'a','b',...
            order = []
            for t in ni:
                for x in t:
                    if x not in order:
                        order.append(x)
            if order != [cu.get_symbol(i) for i in range(len(order))]:
                return "fail", f"canonicalize_inputs symbols not assigned in order of appearance: {ni}"
    # get_symbol_map: injective, one char per label
    sm = cu.get_symbol_map(inputs)
    if len(set(sm.values())) != len(sm) or set(sm) != set(flat) or any(len(v) != 1 for v in sm.values()):
        return "fail", f"get_symbol_map({inputs}) = {sm}"
    return "ok", ""


# --------------------------------------------------------------------------
# grammar
# --------------------------------------------------------------------------
def grammar_terms(symbols=SY, maxrank=2):
    out = []
    for r in range(maxrank + 1):
        for t in itertools.product(symbols, repeat=r):
            t = "".join(t)
            out.append(t)
            for p in range(r + 1):
                out.append(t[:p] + "..." + t[p:])
    return out


def term_shape(term, erank, sizes=SIZES):
    if "..." in term:
        p = term.index("...")
        e = [ESIZES[k] for k in range(erank - 1, -1, -1)]
        return [sizes[s] for s in term[:p]] + e + [sizes[s] for s in term[p + 3:]]
    return [sizes[s] for s in term]


def grammar_outputs(lhs):
    syms = sorted(set(lhs.replace(",", "").replace(".", "")))
    yield None
    for m in range(len(syms) + 1):
        for o in itertools.permutations(syms, m):
            o = "".join(o)
            yield o
            for p in range(len(o) + 1):
                yield o[:p] + "..." + o[p:]


_LABELMAPS = (
    {"a": 0, "b": 1, "c": 2, "d": 3, "e": 4, "A": 5, "B": 6, "C": 7, "D": 8},
    {"a": 7, "b": 2, "c": 4, "d": 51, "e": 0, "A": 30, "B": 3, "C": 1, "D": 12},  # non-monotone
)


def to_interleaved(terms, out, lm):
    def conv(t):
        res = []
        i = 0
        while i < len(t):
            if t[i] == ".":
                res.append("...")
                i += 3
            else:
                res.append(repr(lm[t[i]]))
                i += 1
        return res

    return [conv(t) for t in terms], (None if out is None else conv(out))


def _sig(case, msg):
    api = case.get("api", case["kind"])
    tag = ""
    if case["kind"] in ("einsum", "parse"):
        if case.get("form", "str") == "str":
            eq = case["eq"]
            what = f"{eq!r} shapes {[tuple(s) for s in case['shapes']]}"
        else:
            what = f"interleaved {case['terms']} -> {case.get('out')} shapes {[tuple(s) for s in case['shapes']]}"
    else:
        what = f"inputs {case['inputs']} output {case.get('output')} shapes {[tuple(s) for s in case['shapes']]}"
        if "constants" in case:
            what += f" constants {case['constants']}"
    if msg.startswith("raised"):
        short = msg.split(":")[0]
    elif msg.startswith("shape"):
        short = "result " + msg.split(" (reference")[0]
    else:
        short = msg.split(" (")[0].split(": got")[0][:120]
    return f"C12 {api} {what}{tag}: {short}"


class _Acc:
    def __init__(self):
        self.n = 0
        self.keys = []
        self.viols = []
        self.samples = []
        self.fired = {}
        self.skipped = 0

    def run(self, case, key=None, nontrivial=True):
        st, msg = _exec(case)
        if st == "skip":
            self.skipped += 1
            return st
        self.n += 1
        f = case.get("api", case["kind"]) + ("/" + case["form"] if "form" in case else "")
        self.fired[f] = self.fired.get(f, 0) + 1
        if nontrivial and key is not None:
            self.keys.append(key)
        if st == "fail" and len(self.viols) < 40:
            self.viols.append((_sig(case, msg), case, msg))
        return st

    def result(self):
        self.fired["skipped: numpy rejects the call"] = self.skipped
        return self.n, self.keys, self.viols, self.samples, self.fired


def _work_grammar(item):
    """item = (terms tuple, mode) ; mode: 'full' or ('sample', count, seed)"""
    terms, inter_every, api_every = item
    acc = _Acc()
    lhs = ",".join(terms)
    eranges = [range(3) if "..." in t else [None] for t in terms]
    for er in itertools.product(*eranges):
        shapes = [term_shape(t, e) for t, e in zip(terms, er)]
        for o in grammar_outputs(lhs):
            eq = lhs if o is None else lhs + "->" + o
            h = _crc(eq + repr(er))
            dtype = "int64" if h & 1 else "float64"
            case = {"kind": "einsum", "form": "str", "eq": eq, "shapes": shapes, "seed": h % 1000, "dtype": dtype}
            key = f"{eq}|{shapes}"
            # non-trivial: not the identity call (single operand whose output is its own term)
            nontriv = not (len(terms) == 1 and (o == terms[0]))
            st = acc.run(case, key, nontriv)
            if st == "skip":
                continue
            if len(acc.samples) < 1 and "..." in eq and o is not None and len(terms) == 2 and (h % 97 == 0):
                acc.samples.append({"call": f"einsum({eq!r}, shapes {shapes})"})
            acc.run({"kind": "parse", "eq": eq, "shapes": shapes})
            if o is None or inter_every == 1 or h % inter_every == 0:
                lms = _LABELMAPS if o is None else (_LABELMAPS[(h >> 3) & 1],)
                for lm in lms:
                    it, io = to_interleaved(terms, o, lm)
                    acc.run({"kind": "einsum", "form": "interleaved", "terms": it, "out": io, "shapes": shapes,
                             "seed": h % 1000, "dtype": dtype}, f"I|{it}|{io}|{shapes}")
            if h % api_every == 0:
                acc.run(dict(case, api="einsum_tree"), "T|" + key)
                acc.run(dict(case, api="einsum_nocache"), "N|" + key)
                if "." not in eq:
                    acc.run(dict(case, api="einsum_expression"), "X|" + key)
                    if len(terms) >= 2:
                        acc.run(dict(case, api="einsum_expression_constants", constants=[h % len(terms)]), "XC|" + key)
    _clear_caches()
    return acc.result()


def _clear_caches():
    import cotengra.interface as ci

    ci._PATH_CACHE.clear()
    ci._CONTRACT_EXPR_CACHE.clear()


def random_equation(nops, rng, symbols="abcdeAB", maxrank=3):
    k = rng.randint(2, 5)
    syms = rng.sample(symbols, k)
    terms = []
    for _ in range(nops):
        r = rng.randint(0, maxrank)
        t = "".join(rng.choice(syms) for _ in range(r))
        if rng.random() < 0.5:
            p = rng.randint(0, len(t))
            t = t[:p] + "..." + t[p:]
        terms.append(t)
    lhs = ",".join(terms)
    used = sorted(set(lhs.replace(",", "").replace(".", "")))
    if rng.random() < 0.35:
        out = None
    else:
        m = rng.randint(0, len(used))
        out = "".join(rng.sample(used, m))
        if "." in lhs and rng.random() < 0.9 or rng.random() < 0.05:
            p = rng.randint(0, len(out))
            out = out[:p] + "..." + out[p:]
    er = [rng.choice((0, 1, 1, 2)) if "..." in t else None for t in terms]
    return terms, out, er


def _work_sampled(item):
    nops, count, sd = item
    rng = random.Random(sd)
    acc = _Acc()
    for _ in range(count):
        terms, o, er = random_equation(nops, rng)
        lhs = ",".join(terms)
        shapes = [term_shape(t, e) for t, e in zip(terms, er)]
        eq = lhs if o is None else lhs + "->" + o
        h = _crc(eq + repr(er))
        dtype = "int64" if h & 1 else "float64"
        case = {"kind": "einsum", "form": "str", "eq": eq, "shapes": shapes, "seed": h % 1000, "dtype": dtype}
        key = f"{eq}|{shapes}"
        if acc.run(case, key) == "skip":
            continue
        if len(acc.samples) < 1:
            acc.samples.append({"call": f"einsum({eq!r}, shapes {shapes})"})
        acc.run({"kind": "parse", "eq": eq, "shapes": shapes})
        lm = _LABELMAPS[(h >> 3) & 1]
        it, io = to_interleaved(terms, o, lm)
        acc.run({"kind": "einsum", "form": "interleaved", "terms": it, "out": io, "shapes": shapes,
                 "seed": h % 1000, "dtype": dtype}, f"I|{it}|{io}|{shapes}")
        if h % 3 == 0:
            acc.run(dict(case, api="einsum_tree"), "T|" + key)
            if "." not in eq:
                acc.run(dict(case, api="einsum_expression"), "X|" + key)
                acc.run(dict(case, api="einsum_expression_constants", constants=sorted({h % nops, (h >> 5) % nops})), "XC|" + key)
    _clear_caches()
    return acc.result()


# ---- array_contract / ncon / parsers on arbitrary hashable labels --------
def _label_maps(rng):
    """Injective maps symbol -> arbitrary hashable label (pairwise unequal)."""
    base = "abcdefgh"
    maps = {
        "ints": dict(zip(base, (3, -1, 0, -2, 17, 2**61 - 1, -(2**40), 5))),
        "tuples": dict(zip(base, ((0, 1), (1, 0), (), (0,), (0, (1, 2)), ("x",), (1, 1), (2,)))),
        "strings": dict(zip(base, ("k", "bond12", "", "a", "ab", "B", "é", "zz"))),
        "mixed": dict(zip(base, (-1, "a", (0, 1), -2, 2.5, None, "-1", (None,)))),
        "letters-shuffled": dict(zip(base, ("c", "a", "d", "b", "h", "g", "f", "e"))),
    }
    return maps


def _work_array_contract(item):
    nets, sd = item
    rng = random.Random(sd)
    maps = _label_maps(rng)
    acc = _Acc()
    for inputs, output in nets:
        syms = sorted({s for t in inputs for s in t})
        sizes = {s: (2, 3, 4, 2, 3)[i % 5] for i, s in enumerate(syms)}
        shapes = [[sizes[s] for s in t] for t in inputs]
        h = _crc(repr((inputs, output)))
        for mi, (mname, lm) in enumerate(maps.items()):
            ins = [[_enc(lm[s]) for s in t] for t in inputs]
            out = [_enc(lm[s]) for s in output]
            dtype = "int64" if (h + mi) & 1 else "float64"
            base = {"kind": "array_contract", "inputs": ins, "shapes": shapes, "seed": h % 1000, "dtype": dtype}
            key = f"AC|{mname}|{ins}|{out}"
            acc.run(dict(base, output=out), key)
            acc.run(dict(base, output=None), key + "|None")
            if (h + mi) % 3 == 0:
                acc.run(dict(base, output=out, canonicalize=False), key + "|nocanon")
                acc.run(dict(base, output=None, canonicalize=False), key + "|None|nocanon")
                acc.run(dict(base, output=out, api="expression"), key + "|expr")
                if len(inputs) >= 2:
                    acc.run(dict(base, output=out, api="tree"), key + "|tree")
                    acc.run(dict(base, output=None, api="expression_constants", constants=[h % len(inputs)]), key + "|const")
            acc.run({"kind": "parsers", "inputs": ins, "output": out, "shapes": shapes}, None, False)
        # ncon: output symbols -> negative ints (order given by the output sequence), others positive
        negs = list(range(-1, -len(output) - 1, -1))
        if h % 4 == 0 and negs:
            negs = [x - (h % 3) for x in negs]  # non-contiguous / not starting at -1
        lm = {s: negs[i] for i, s in enumerate(output)}
        pos = [s for s in syms if s not in lm]
        rng2 = random.Random(h)
        plabels = rng2.sample(range(1, 9), len(pos))
        lm.update(dict(zip(pos, plabels)))
        ins = [[_enc(lm[s]) for s in t] for t in inputs]
        acc.run({"kind": "array_contract", "api": "ncon", "inputs": ins, "output": None, "shapes": shapes,
                 "seed": h % 1000, "dtype": "float64"}, f"NCON|{ins}")
        if len(acc.samples) < 1 and len(inputs) > 1 and output:
            acc.samples.append({"call": f"ncon(shapes {shapes}, {ins})"})
    _clear_caches()
    return acc.result()


# --------------------------------------------------------------------------
# driver
# --------------------------------------------------------------------------
def _collect(rep, results, state, name):
    n_done = 0
    for st, res in results:
        if st == "crash":
            rep.crash(f"{name}: worker crashed: {res[:600]}")
            continue
        n, keys, viols, samples, fired = res
        rep.count(n)
        n_done += n
        for k in keys:
            rep.nontrivial_case(k)
        for s in samples:
            rep.sample(s)
        for f, c in fired.items():
            rep.fired(f, c)
        state["viols"].extend(viols)
        if time.time() > state["deadline"]:
            state["timed_out"] = True
            break
    return n_done


def run_bounded(rep: Report, tier: str) -> None:
    quick = tier == "quick"
    rng = random.Random(seed() * 104729 + 12)
    state = {"viols": [], "deadline": deadline(tier, 240, 25 * 60), "timed_out": False}
    rep.rule = (
        "a case is one concrete call (function, equation or sublists, operand shapes, dtype) that numpy.einsum accepts "
        "(calls numpy rejects are skipped and counted separately); non-trivial: everything except the single-operand "
        "identity call; distinct = distinct (call form, equation/sublists, shapes)."
    )

    def part(name, fn, items, exhaustive, bound, chunk=None):
        if state["timed_out"]:
            rep.scope(name, 0, False, bound + " [not started: time budget exhausted]")
            return
        n = _collect(rep, pmap(fn, items, chunk=chunk), state, name)
        rep.scope(name, n, exhaustive and not state["timed_out"], bound + (" [stopped at the time budget]" if state["timed_out"] else ""))

    T = grammar_terms()
    part("G1: einsum string+interleaved+parser, 1 operand, grammar-exhaustive", _work_grammar,
         [((t,), 1, 1) for t in T], True,
         "symbols {a,b,c}, <= 2 named indices, optional '...' at any position with ellipsis rank 0..2, implicit output "
         "and every explicit output (any sequence of distinct symbols, optional '...' anywhere); every API on every case", chunk=1)
    inter_every = 4 if quick else 1
    api_every = 16 if quick else 4
    items = [((t1, t2), inter_every, api_every) for t1 in T for t2 in T]
    rng.shuffle(items)
    part("G2: einsum string form + parser contract, 2 operands, grammar-exhaustive", _work_grammar, items, True,
         "47 x 47 operand terms x ellipsis ranks 0..2 per operand x every output (implicit / explicit / with '...'); "
         f"interleaved form on every implicit-output case (both label maps) and on 1/{inter_every} of explicit ones; "
         f"einsum_tree / cache_expression=False / einsum_expression(+constants) on 1/{api_every} of the cases", chunk=6)
    if not quick:
        T3 = grammar_terms("abc", 3)
        part("G1b: 1 operand, rank <= 3, grammar-exhaustive", _work_grammar, [((t,), 1, 1) for t in T3], True,
             "symbols {a,b,c}, <= 3 named indices, '...' anywhere (rank 0..2), every output; every API on every case", chunk=1)
        T4 = grammar_terms("abcd", 3)
        pairs = [(rng.choice(T4), rng.choice(T4)) for _ in range(1500)]
        part("G2b: 2 operands over {a,b,c,d} rank <= 3: 1500 sampled term pairs x all outputs x all ellipsis ranks", _work_grammar,
             [(pr, 4, 8) for pr in pairs], False,
             "1500 seeded pairs of operand terms (<= 3 named indices over 4 symbols, '...' anywhere); for each: every ellipsis "
             "rank 0..2 per operand and every implicit/explicit output", chunk=1)
    n3, n4 = (2500, 1500) if quick else (60000, 40000)
    per = 125
    items = [(3, per, rng.randrange(2**30)) for _ in range(n3 // per)]
    part("G3: 3 operands sampled", _work_sampled, items, False,
         f"{n3} random equations over 2..5 of the symbols abcdeAB, rank <= 3 (+ellipsis rank 0..2), string + interleaved + parser", chunk=1)
    items = [(4, per, rng.randrange(2**30)) for _ in range(n4 // per)]
    part("G4: 4 operands sampled", _work_sampled, items, False,
         f"{n4} random equations over 2..5 of the symbols abcdeAB, rank <= 3 (+ellipsis rank 0..2), string + interleaved + parser", chunk=1)

    # array_contract / ncon / parsers
    nets = list(scope.networks(1, 3, 3)) + list(scope.networks(2, 3, 2))
    extra = scope.sample_networks(3, 4, 3, 300 if quick else 6000, rng) + scope.sample_networks(4, 5, 3, 150 if quick else 4000, rng)
    allnets = nets + extra
    items = [(allnets[i:i + 20], rng.randrange(2**30)) for i in range(0, len(allnets), 20)]
    part("AC: array_contract / expression(constants) / tree / ncon / label parsers on arbitrary hashable labels",
         _work_array_contract, items, False,
         f"Net(1,3,3) and Net(2,3,2) complete ({len(nets)} networks) + {len(extra)} sampled 3-4 tensor networks, each under 5 label "
         "maps (ints incl. -1/-2 and 2**61-1, tuples, strings incl. '' and multi-char, mixed types, shuffled letters), explicit "
         "and implicit (first-appearance order) output; ncon with negative output labels (incl. non-contiguous)", chunk=1)

    # ---- violations -------------------------------------------------------
    viols = sorted(state["viols"], key=lambda v: (len(v[0]), v[0]))
    nrep = 0
    seen = set()
    for sig, case, msg in viols:
        cls = (case.get("api", case["kind"]), sig.split(": ")[-1], case.get("eq") or repr(case.get("terms") or case.get("inputs")))
        if cls in seen:
            continue
        seen.add(cls)
        rep.violation(sig, {"module": MODULE, "case": dict(case, detail=msg)})
        nrep += 1
        if nrep >= MAX_VIOLATIONS:
            break
    rep.extra["failing_cases_total"] = len(viols)
    classes = {}
    for sig, case, msg in viols:
        k = f"{case.get('api', case['kind'])}/{case.get('form', '')}: {msg.split(' (')[0][:80]}"
        classes[k] = classes.get(k, 0) + 1
    rep.extra["failing_classes"] = classes
    rep.explanation += (
        "Differential against numpy.einsum on exact integer-valued arrays (values and shapes must be equal), for the "
        "string form, the interleaved form (monotone and non-monotone integer labels, Ellipsis), einsum_tree().contract, "
        "einsum_expression (ellipsis-free, as documented) with and without constants, and cache_expression=False; "
        "parse_equation_ellipses against an independent reference parser (result ellipsis-free, named symbols kept, "
        "ellipsis dimensions right-aligned, bijective renaming, implicit output = ellipsis dims then sorted once-only symbols). "
        "array_contract / array_contract_expression(constants) / array_contract_tree / ncon with arbitrary hashable labels "
        "against numpy.einsum on the equivalent explicit equation, implicit output in order of first appearance as documented; "
        "find_output_from_inputs, canonicalize_inputs (bijective, first-appearance symbols, size_dict), get_symbol_map. "
        "Sizes: a=2,b=3,c=4 (distinct, so a transposed result has a different shape); ellipsis dims 5 and 6 (right-aligned)."
    )
    rep.assumptions.append("numpy.einsum is the specification; calls it rejects are out of scope")
    rep.assumptions.append("each named symbol has one size in a call (no size-1 broadcasting of named or ellipsis dims)")
    rep.assumptions.append("equations contain no spaces; interleaved labels are ints in [0,52) as numpy requires")
    rep.trusted_base.append("numpy.einsum; the reference parser ref_parse in this module")


def replay(case: dict):
    st, msg = _exec(case)
    if st == "fail":
        return False, f"{_sig(case, msg)} :: {msg}"
    if st == "skip":
        return True, f"case skipped: {msg}"
    return True, "call equals numpy.einsum / reference"
