"""C13 driver (see DESIGN.md section 3, C13)."""
from .generic import run_property, replay_property


def run(tier):
    return run_property("C13", tier)


def replay(path):
    return replay_property("C13", path)
