"""C13 bounded driver: in-memory caching is invisible (differential, cached vs cold uncached).

A *spec* is one fully described high-level call target: inputs (arbitrary
hashable labels), output, sizes, ``optimize``, keyword options and
``canonicalize``.  A *pool* is a set of specs that differ in exactly ONE
component of the cache key.  For every pool and every API
(einsum, array_contract, array_contract_path, array_contract_tree,
array_contract_expression, einsum_expression) every sequence (with
repetition) of length <= L of the pool's specs is executed with caching enabled
(the default) after clearing every cotengra cache; each call's *observation*
must equal the observation of the same call made cold with caching disabled
(``cache=False`` / ``cache_expression=False``, all caches cleared first), and
must satisfy the oracle written from the property:

* values equal numpy.einsum on the equivalent explicit equation (exact:
  integer-valued float64 arrays), shapes included; with strip_exponent=True the
  result is a (mantissa, exponent) pair whose product equals the value (1e-9);
* a returned path is a VALID path for the queried contraction (ids in range,
  distinct, n-1 pairwise steps ending with one tensor) and equals the cold
  uncached path (explicit paths, 'greedy', 'optimal', 'auto' are deterministic
  at these sizes: checked, not assumed);
* a returned tree describes the queried contraction and contracts to the value;
* a returned expression has the same *fingerprint* (contractor class,
  strip_exponent, implementation, the tuple of pairwise steps incl. einsum/
  tensordot choice and index order; closure contents of the single-tensor fast
  paths) as the cold uncached one, gives the right value, and gives the right
  value again on FRESH arrays of the same shapes;
* an exception with the cache on but not off (or vice versa) is a violation.

Mixed-API sequences (the expression cache is shared by einsum / array_contract /
array_contract_expression / einsum_expression) are sampled with VERIF_SEED.

Second part: the lru-cached parsers (_parse_einsum_single,
_parse_eq_to_batch_matmul, _parse_tensordot_axes_to_matmul,
parse_equation_ellipses): cached result == uncached ``__wrapped__`` result,
repeated calls interleaved with other arguments are equal, and the cached value
is not mutated by the executors that consume it (deep snapshot before/after).
"""

from __future__ import annotations

import ast
import copy
import importlib
import itertools
import random
import time
import warnings

import numpy as np

from ..common import Report, pmap, seed, deadline
from .. import scope

MODULE = "vt.props.c13_bounded"
MAX_VIOLATIONS = 5
P61 = 2**61 - 1  # hash(n) == hash(n + P61) for small ints

# ".../size_dict": the same function given size_dict= (in the spec's own key order) instead of shapes=
APIS = ("einsum", "array_contract", "array_contract_path", "array_contract_tree", "array_contract_expression", "einsum_expression",
        "array_contract_path/size_dict", "array_contract_expression/size_dict")


# --------------------------------------------------------------------------
# spec encoding (JSON-able <-> python)
# --------------------------------------------------------------------------
def _enc(x):
    return repr(x)


def _dec(s):
    return ast.literal_eval(s)


def mkspec(inputs, output, sizes, optimize="auto", kw=None, canonicalize=True, container="tuple", note=""):
    """sizes: dict label -> size (labels compared with ==, so 1/True/1.0 share a size)."""
    return {
        "inputs": [[_enc(ix) for ix in t] for t in inputs],
        "output": [_enc(ix) for ix in output],
        "sizes": [[_enc(k), int(v)] for k, v in sizes.items()],
        "optimize": _enc_opt(optimize),
        "kw": dict(kw or {}),
        "canonicalize": bool(canonicalize),
        "container": container,
        "note": note,
    }


def _enc_opt(o):
    if isinstance(o, str):
        return {"t": "str", "v": o}
    if isinstance(o, dict):
        return o
    # explicit path given as nested list/tuple: remember the container types
    outer = "list" if isinstance(o, list) else "tuple"
    if o and isinstance(o[0], (str, int)):
        return {"t": "edge", "outer": outer, "v": [_enc(x) for x in o]}
    inner = ["list" if isinstance(c, list) else "tuple" for c in o]
    return {"t": "path", "outer": outer, "inner": inner, "v": [list(map(int, c)) for c in o]}


def _dec_opt(d):
    if d["t"] == "str":
        return d["v"]
    if d["t"] == "edge":
        v = [_dec(x) for x in d["v"]]
        return v if d["outer"] == "list" else tuple(v)
    v = [(list(c) if k == "list" else tuple(c)) for c, k in zip(d["v"], d["inner"])]
    return v if d["outer"] == "list" else tuple(v)


def _materialise(spec):
    inputs = [[_dec(ix) for ix in t] for t in spec["inputs"]]
    output = [_dec(ix) for ix in spec["output"]]
    sizes = {}
    for k, v in spec["sizes"]:
        sizes[_dec(k)] = v
    c = spec.get("container", "tuple")
    if c == "tuple":
        ins = tuple(tuple(t) for t in inputs)
        out = tuple(output)
    elif c == "list":
        ins = [list(t) for t in inputs]
        out = list(output)
    else:  # list of tuples
        ins = [tuple(t) for t in inputs]
        out = tuple(output)
    shapes = tuple(tuple(sizes[ix] for ix in t) for t in inputs)
    return ins, out, sizes, shapes


def _is_letters(spec):
    for t in spec["inputs"] + [spec["output"]]:
        for ix in t:
            v = _dec(ix)
            if not (isinstance(v, str) and len(v) == 1 and v.isalpha()):
                return False
    return True


def _eq_of(spec):
    return ",".join("".join(_dec(ix) for ix in t) for t in spec["inputs"]) + "->" + "".join(_dec(ix) for ix in spec["output"])


def _ref_eq(inputs, output):
    m = {}
    for t in inputs:
        for ix in t:
            if ix not in m:
                m[ix] = "abcdefghijklmnopqrstuvwxyz"[len(m)]
    return ",".join("".join(m[ix] for ix in t) for t in inputs) + "->" + "".join(m[ix] for ix in output)


def _arrays(shapes, sd):
    # positive entries: no zero intermediates, so strip_exponent (log10 of max|x|) is well defined
    rng = np.random.default_rng(sd)
    return [rng.integers(1, 6, size=s).astype(float) for s in shapes]


# --------------------------------------------------------------------------
# cache control
# --------------------------------------------------------------------------
def _mods():
    ci = importlib.import_module("cotengra.interface")
    cc = importlib.import_module("cotengra.contract")
    cu = importlib.import_module("cotengra.utils")
    return ci, cc, cu


def clear_all():
    ci, cc, cu = _mods()
    ci._PATH_CACHE.clear()
    ci._CONTRACT_EXPR_CACHE.clear()
    for name in ("_find_path_handlers", "_find_tree_handlers", "_HASH_OPTIMIZE_PREPARERS"):
        d = getattr(ci, name, None)
        if isinstance(d, dict):
            d.clear()
    for mod, names in (
        (ci, ("preset_to_optimizer", "can_hash_optimize")),
        (cc, ("_sanitize_equation", "_parse_einsum_single", "_parse_eq_to_batch_matmul", "_parse_tensordot_axes_to_matmul")),
        (cu, ("parse_equation_ellipses",)),
    ):
        for n in names:
            f = getattr(mod, n, None)
            if f is not None and hasattr(f, "cache_clear"):
                f.cache_clear()


# --------------------------------------------------------------------------
# observations
# --------------------------------------------------------------------------
def _fp(expr, depth=0):
    """Structural fingerprint of a contraction expression."""
    if depth > 4:
        return "..."
    name = type(expr).__name__
    if name == "Contractor":
        return ("Contractor", bool(expr.strip_exponent), repr(expr.implementation), repr(expr.contractions))
    if name == "Variadic":
        return ("Variadic", repr(sorted(expr.kwargs.items())))
    if name in ("Via", "WithBackend"):
        return (name, _fp(expr.fn, depth + 1))
    if callable(expr) and hasattr(expr, "__closure__"):
        cells = []
        for c in expr.__closure__ or ():
            try:
                v = c.cell_contents
            except ValueError:
                continue
            cells.append(_fp(v, depth + 1) if callable(v) else repr(v))
        return ("function", getattr(expr, "__qualname__", "?"), tuple(cells))
    return (name,)


def _valid_path(path, n):
    """Every step pops >= 1 distinct in-range positions and appends one; a single tensor remains.
    For n >= 2: exactly n-1 pairwise steps."""
    try:
        steps = [tuple(int(i) for i in c) for c in path]
    except Exception:  # noqa: BLE001
        return f"path {path!r} is not a sequence of integer tuples"
    m = n
    npair = 0
    for c in steps:
        # a step pops the listed (distinct, in-range) positions and appends the result; cotengra's
        # pathfinders also emit single-term steps (i,) for single-tensor simplifications
        if len(c) not in (1, 2) or len(set(c)) != len(c) or any(i < 0 or i >= m for i in c):
            return f"step {c} invalid with {m} tensors left (path {steps})"
        m -= len(c) - 1
        npair += len(c) == 2
    if n >= 2 and (npair != n - 1 or m != 1):
        return f"path {steps} has {npair} pairwise steps for {n} tensors"
    if n == 1 and npair:
        return f"path {steps} for a single tensor"
    return None


def _norm_value(v):
    if isinstance(v, tuple):
        if len(v) != 2:
            return ("weird-tuple", len(v))
        m, e = v
        return ("pair", np.shape(m), np.asarray(m, dtype=float) * 10.0 ** float(e))
    return ("array", np.shape(v), np.asarray(v, dtype=float))


def _call(api, spec, cached, seed_arr):
    """Run one API call; returns an observation dict (never raises)."""
    import cotengra as ctg

    ins, out, sizes, shapes = _materialise(spec)
    opt = _dec_opt(spec["optimize"])
    kw = dict(spec["kw"])
    consts = kw.pop("constants_at", None)
    kw.pop("constants_seed", None)
    canon = spec["canonicalize"]
    n = len(ins)
    arrays = _full_arrays(spec, shapes, seed_arr)
    fresh = _full_arrays(spec, shapes, seed_arr + 7919)
    obs = {"api": api}
    if consts is not None and api in ("array_contract_expression", "einsum_expression"):
        # an expression with constant operands: requested with the constant ARRAYS, applied to the others
        try:
            with warnings.catch_warnings():
                warnings.simplefilter("ignore")
                cdict = {i: arrays[i] for i in consts}
                if api == "array_contract_expression":
                    ex = ctg.array_contract_expression(ins, out, shapes=shapes, optimize=opt, canonicalize=canon, cache=cached, constants=cdict, **kw)
                else:
                    args = [arrays[i] if i in consts else shapes[i] for i in range(n)]
                    ex = ctg.einsum_expression(_eq_of(spec), *args, optimize=opt, cache=cached, constants=list(consts), **kw)
                obs["value"] = _norm_value(ex(*[arrays[i] for i in range(n) if i not in consts]))
                obs["fresh_value"] = _norm_value(ex(*[fresh[i] for i in range(n) if i not in consts]))
        except Exception as e:  # noqa: BLE001
            obs = {"api": api, "raised": type(e).__name__, "msg": str(e)[:160]}
        return obs
    try:
        with warnings.catch_warnings():
            warnings.simplefilter("ignore")
            if api == "einsum":
                r = ctg.einsum(_eq_of(spec), *arrays, optimize=opt, cache_expression=cached, **kw)
                obs["value"] = _norm_value(r)
            elif api == "array_contract":
                r = ctg.array_contract(arrays, ins, out, optimize=opt, cache_expression=cached, canonicalize=canon, **kw)
                obs["value"] = _norm_value(r)
            elif api in ("array_contract_path", "array_contract_path/size_dict"):
                skw = {"shapes": shapes} if api == "array_contract_path" else {"size_dict": _used_sizes(ins, out, sizes)}
                r = ctg.array_contract_path(ins, out, optimize=opt, canonicalize=canon, cache=cached, **skw)
                obs["path"] = tuple(tuple(int(i) for i in c) for c in r)
                obs["path_valid"] = _valid_path(r, n)
            elif api == "array_contract_tree":
                tkw = {k: v for k, v in kw.items() if k == "sort_contraction_indices"}
                t = ctg.array_contract_tree(ins, out, shapes=shapes, optimize=opt, canonicalize=canon, **tkw)
                obs["tree_io"] = (len(t.inputs), tuple(len(x) for x in t.inputs), len(t.output),
                                  tuple(sorted(t.size_dict.values())) == tuple(sorted(_size_multiset(ins, sizes))))
                if n >= 2:
                    obs["path"] = tuple(tuple(int(i) for i in c) for c in t.get_path())
                    obs["path_valid"] = _valid_path(t.get_path(), n)
                    ckw = {k: v for k, v in kw.items() if k in ("strip_exponent", "implementation", "prefer_einsum")}
                    obs["value"] = _norm_value(t.contract(arrays, **ckw))
            elif api in ("array_contract_expression", "einsum_expression", "array_contract_expression/size_dict"):
                if api == "array_contract_expression":
                    ex = ctg.array_contract_expression(ins, out, shapes=shapes, optimize=opt, canonicalize=canon, cache=cached, **kw)
                elif api == "array_contract_expression/size_dict":
                    ex = ctg.array_contract_expression(ins, out, size_dict=_used_sizes(ins, out, sizes), optimize=opt,
                                                       canonicalize=canon, cache=cached, **kw)
                else:
                    ex = ctg.einsum_expression(_eq_of(spec), *shapes, optimize=opt, cache=cached, **kw)
                obs["fingerprint"] = _fp(ex)
                obs["value"] = _norm_value(ex(*arrays))
                obs["fresh_value"] = _norm_value(ex(*fresh))
            else:
                obs["raised"] = "unknown api"
    except Exception as e:  # noqa: BLE001
        obs = {"api": api, "raised": type(e).__name__, "msg": str(e)[:160]}
    return obs


def _used_sizes(ins, out, sizes):
    """size_dict restricted to the labels that occur, in the spec's own key order"""
    used = [ix for t in ins for ix in t] + list(out)
    return {k: v for k, v in sizes.items() if any(k == u for u in used)}


def _size_multiset(ins, sizes):
    seen = []
    for t in ins:
        for ix in t:
            if not any(ix == s for s in seen):
                seen.append(ix)
    return [sizes[ix] for ix in seen]


def _full_arrays(spec, shapes, seed_arr):
    """the operands of a call: seeded arrays; operands marked constant come from the spec's own constants seed (the
    SAME arrays whatever arrays the expression is later applied to)"""
    arrays = _arrays(shapes, seed_arr)
    consts = spec["kw"].get("constants_at")
    if consts is not None:
        carr = _arrays(shapes, 50000 + int(spec["kw"].get("constants_seed", 0)))
        arrays = [carr[i] if i in consts else a for i, a in enumerate(arrays)]
    return arrays


def _reference(spec, seed_arr):
    ins, out, sizes, shapes = _materialise(spec)
    eq = _ref_eq(ins, out)
    return np.einsum(eq, *_full_arrays(spec, shapes, seed_arr)), np.einsum(eq, *_full_arrays(spec, shapes, seed_arr + 7919))


def _val_eq(a, b, exact):
    if a[0] != b[0] or a[1] != b[1]:
        return False
    if a[0] not in ("array", "pair"):
        return a == b
    if exact and a[0] == "array":
        return bool(np.array_equal(a[2], b[2]))
    return bool(np.allclose(a[2], b[2], rtol=1e-9, atol=1e-9))


def _check_obs(obs, cold, spec, seed_arr):
    """Compare a cached observation with the cold uncached one and the oracle. -> None or kind string"""
    if "raised" in obs or "raised" in cold:
        if obs.get("raised") != cold.get("raised"):
            return (f"raised {obs.get('raised')} ({obs.get('msg', '')}) with the cache on, "
                    f"{'raised ' + cold['raised'] if 'raised' in cold else 'no exception'} with the cache off")
        return None
    strip = bool(spec["kw"].get("strip_exponent"))
    ref, ref_fresh = _reference(spec, seed_arr)
    for key, r in (("value", ref), ("fresh_value", ref_fresh)):
        if key in obs:
            v = obs[key]
            want_kind = "pair" if strip else "array"
            if v[0] != want_kind:
                return f"{key}: returned {v[0]} but strip_exponent={strip}"
            if v[1] != np.shape(r):
                return f"{key}: shape {v[1]} differs from the reference einsum {np.shape(r)}"
            ok = np.array_equal(v[2], r) if v[0] == "array" else np.allclose(v[2], r, rtol=1e-9, atol=1e-9)
            if not ok:
                return f"{key}: numbers differ from the reference einsum" + (" (expression re-applied to fresh arrays)" if key == "fresh_value" else "")
            if not _val_eq(v, cold[key], exact=not strip):
                return f"{key}: differs from the uncached call"
    if obs.get("path_valid"):
        return f"path invalid for the queried contraction: {obs['path_valid']}"
    if "path" in obs and obs["path"] != cold.get("path"):
        return f"path {obs['path']} differs from the cold uncached path {cold.get('path')}"
    if "tree_io" in obs:
        if obs["tree_io"] != cold.get("tree_io") or not obs["tree_io"][3]:
            return f"tree describes another contraction: {obs['tree_io']} vs uncached {cold.get('tree_io')}"
    if "fingerprint" in obs and obs["fingerprint"] != cold.get("fingerprint"):
        return "expression differs from the uncached one (fingerprint: contractor options / steps)"
    return None


# --------------------------------------------------------------------------
# pools
# --------------------------------------------------------------------------
def _chain(labels=("a", "b", "c", "d")):
    a, b, c, d = labels
    return ((a, b), (b, c), (c, d)), (a, d)


def pools(tier="quick"):
    """name -> list of specs differing in exactly one cache-key component."""
    S = {"a": 2, "b": 3, "c": 4, "d": 5}
    ins, out = _chain()
    P = {}
    P["output order"] = [mkspec(ins, o, S, "greedy") for o in (("a", "d"), ("d", "a"), ("a",), ())]
    P["output order (hyper, 2 tensors)"] = [mkspec((("a", "b"), ("a", "b")), o, S, "greedy") for o in (("a", "b"), ("b", "a"), ("a",), ("b",))]
    P["one size"] = [mkspec(ins, out, {"a": 3, "b": bb, "c": 3, "d": 3}, opt) for opt in ("optimal",) for bb in (2, 4, 3)]
    P["one size (greedy)"] = [mkspec(ins, out, {"a": 3, "b": bb, "c": 3, "d": 3}, "greedy") for bb in (2, 4, 5)]
    # same terms, same sequence of size VALUES, different label -> size assignment (only the dict order differs)
    P["size_dict key order"] = [mkspec(ins, out, sz, o) for o in ("optimal", "greedy") for sz in (
        {"a": 2, "b": 7, "c": 2, "d": 7}, {"b": 2, "a": 7, "d": 2, "c": 7}, {"d": 7, "c": 2, "b": 7, "a": 2})]
    P["optimize preset"] = [mkspec(ins, out, {"a": 3, "b": 2, "c": 3, "d": 3}, o) for o in ("greedy", "optimal", "auto", "auto-hq")]
    p1 = ((0, 1), (0, 1))
    P["explicit path containers"] = [
        mkspec(ins, out, S, p1), mkspec(ins, out, S, [[0, 1], [0, 1]]), mkspec(ins, out, S, [(0, 1), (0, 1)]),
        mkspec(ins, out, S, ([0, 1], [0, 1])),
    ]
    P["different valid paths"] = [mkspec(ins, out, S, p) for p in (((0, 1), (0, 1)), ((1, 2), (0, 1)), ((0, 2), (0, 1)), [[1, 2], [0, 1]])] + [mkspec(ins, out, S, "greedy")]
    P["kwargs strip_exponent"] = [mkspec(ins, out, S, "greedy", kw) for kw in ({}, {"strip_exponent": True}, {"strip_exponent": False})]
    P["kwargs implementation"] = [mkspec(ins, out, S, "greedy", kw) for kw in ({}, {"implementation": "cotengra"}, {"implementation": "autoray"})]
    P["kwargs prefer_einsum"] = [mkspec(ins, out, S, "greedy", kw) for kw in ({}, {"prefer_einsum": True}, {"prefer_einsum": False})]
    hy = (("a", "b", "c"), ("c", "b", "d"), ("d", "a"))
    P["kwargs sort_contraction_indices"] = [mkspec(hy, ("b",), S, "greedy", kw) for kw in ({}, {"sort_contraction_indices": True}, {"sort_contraction_indices": False})]
    # expressions with constant operands: same equation, shapes, optimize and constant POSITIONS, different constant ARRAYS
    ins5, out5 = (("a", "b"), ("b", "c"), ("c", "d"), ("d", "a")), ("a",)
    P["constant arrays"] = [mkspec(ins5, out5, S, "greedy", {"constants_at": [0, 2], "constants_seed": k}) for k in (0, 1, 2)] + [
        mkspec(ins5, out5, S, "greedy", {"constants_at": [1], "constants_seed": 0}), mkspec(ins5, out5, S, "greedy", {})]
    P["kwargs combined"] = [mkspec(ins, out, S, "greedy", kw) for kw in (
        {"strip_exponent": True, "prefer_einsum": True}, {"strip_exponent": True}, {"prefer_einsum": True}, {"implementation": "autoray", "prefer_einsum": True})]
    # relabelling (same structure, other names)
    rel = [("a", "b", "c", "d"), ("b", "a", "d", "c"), ("d", "c", "b", "a"), ("x", "y", "z", "w")]
    for canon in (True, False):
        specs = []
        for lab in rel:
            i2, o2 = _chain(lab)
            specs.append(mkspec(i2, o2, dict(zip(lab, (2, 3, 4, 5))), "greedy", canonicalize=canon))
        P[f"index relabelling (canonicalize={canon})"] = specs
    # same labels, sizes permuted among them (relabelling that is NOT structure preserving for the key)
    P["canonicalize flag"] = [mkspec(ins, out, S, "greedy", canonicalize=c) for c in (True, False)] + [
        mkspec((("c", "a"), ("a", "b")), ("b", "c"), S, "greedy", canonicalize=c) for c in (True, False)]
    # labels -1 / -2 : hash(-1) == hash(-2)
    Sn = {-1: 2, -2: 3, 3: 4}
    P["labels -1/-2 single tensor"] = [
        mkspec(((-1, -2),), (-2, -1), Sn, canonicalize=False), mkspec(((-2, -1),), (-2, -1), Sn, canonicalize=False),
        mkspec(((-1, -2),), (-1, -2), Sn, canonicalize=False), mkspec(((-2, -1),), (-1, -2), Sn, canonicalize=False),
    ]
    P["labels -1/-2 single tensor (canonicalize)"] = [
        mkspec(((-1, -2),), (-2, -1), Sn), mkspec(((-2, -1),), (-2, -1), Sn), mkspec(((-1, -2),), (-1,), Sn), mkspec(((-1, -2),), (-2,), Sn)]
    P["labels -1/-2 two tensors"] = [
        mkspec(((-1, -2), (-2, 3)), (-1, 3), Sn, "greedy", canonicalize=False),
        mkspec(((-2, -1), (-1, 3)), (-2, 3), {-1: 3, -2: 2, 3: 4}, "greedy", canonicalize=False),
        mkspec(((-1, -2), (-2, 3)), (3, -1), Sn, "greedy", canonicalize=False),
        mkspec(((-1, -2), (-1, 3)), (-2, 3), Sn, "greedy", canonicalize=False),
    ]
    # labels 1 / True / 1.0 (equal and equal hashes: the SAME index by Python's rules)
    St = {1: 2, 2: 3, 3: 4}
    P["labels 1/True/1.0"] = [
        mkspec(((1, 2), (2, 3)), (1, 3), St, "greedy", canonicalize=False),
        mkspec(((True, 2), (2, 3)), (True, 3), St, "greedy", canonicalize=False),
        mkspec(((1.0, 2), (2, 3)), (1.0, 3), St, "greedy", canonicalize=False),
        mkspec(((1, 2), (2, 3)), (3, True), St, "greedy", canonicalize=False),
        mkspec(((1, 2), (2.0, True)), (), {1: 2, 2: 3}, "greedy", canonicalize=False),
    ]
    # ints whose hashes collide: hash(n) == hash(n + 2**61 - 1)
    p, q = 5, 5 + P61
    assert hash(p) == hash(q) and p != q
    Sh = {p: 2, q: 3, 7: 4}
    P["hash-colliding int labels single tensor"] = [
        mkspec(((p, q),), (q, p), Sh, canonicalize=False), mkspec(((q, p),), (q, p), Sh, canonicalize=False),
        mkspec(((p, q),), (p, q), Sh, canonicalize=False), mkspec(((p, q),), (p,), Sh, canonicalize=False), mkspec(((p, q),), (q,), Sh, canonicalize=False),
    ]
    P["hash-colliding int labels two tensors"] = [
        mkspec(((p, 7), (7, q)), (p, q), Sh, "greedy", canonicalize=False),
        mkspec(((q, 7), (7, p)), (q, p), Sh, "greedy", canonicalize=False),
        mkspec(((p, 7), (7, q)), (q, p), Sh, "greedy", canonicalize=False),
        mkspec(((q, 7), (7, p)), (p, q), Sh, "greedy", canonicalize=False),
    ]
    P["inputs as tuples vs lists"] = [mkspec(ins, out, S, "greedy", container=c) for c in ("tuple", "list", "list-of-tuples")] + [
        mkspec(ins, ("d", "a"), S, "greedy", container="list")]
    # single-tensor fast paths
    S1 = {"a": 2, "b": 3}
    P["single tensor fast paths"] = [mkspec((("a", "b"),), o, S1) for o in (("a", "b"), ("b", "a"), ("a",), ("b",), ())] + [
        mkspec((("a", "a"),), ("a",), S1), mkspec((("a", "a"),), (), S1)]
    P["single tensor strip_exponent"] = [mkspec((("a", "b"),), o, S1, kw=kw) for o in (("b", "a"), ("a",)) for kw in ({}, {"strip_exponent": True})]
    # same tensors, different number of operands / scalar operand
    P["operand count"] = [mkspec(ins, out, S, "greedy"), mkspec(ins + ((),), out, S, "greedy"), mkspec(ins[:2], ("a", "c"), S, "greedy"),
                          mkspec(ins + (("d", "a"),), (), S, "greedy")]
    # operand order / axis order inside a term (canonicalize=False keeps the labels as given)
    A, B, C = ("a", "b"), ("b", "c", "d"), ("d", "a")
    for canon in (False, True):
        P[f"operand order (canonicalize={canon})"] = [mkspec(t, ("c",), S, "greedy", canonicalize=canon) for t in ((A, B, C), (B, A, C), (C, B, A), (A, C, B))]
        P[f"axis order within a term (canonicalize={canon})"] = [
            mkspec(t, ("a", "c"), S, "greedy", canonicalize=canon)
            for t in ((("a", "b"), ("b", "c")), (("b", "a"), ("b", "c")), (("a", "b"), ("c", "b")), (("b", "a"), ("c", "b")))]
    if tier != "quick":
        ring = (("a", "b"), ("b", "c"), ("c", "d"), ("d", "a"))
        P["4-ring output/hyper variants"] = [mkspec(ring, o, S, "greedy") for o in ((), ("a",), ("a", "c"), ("c", "a"))]
        P["4-ring optimize"] = [mkspec(ring, ("a", "c"), S, o) for o in ("greedy", "optimal", ((0, 1), (0, 1), (0, 1)), ((0, 2), (0, 1), (0, 1)), [[2, 3], [0, 1], [0, 1]])]
        P["edge paths"] = [mkspec(ins, out, S, o) for o in (("b", "c"), ("c", "b"), ["b", "c"], ((0, 1), (0, 1)))]
        # generated pools on sampled 3-tensor networks: output variants and option variants
        rng = random.Random(seed() * 7 + 1313)
        nets = [nw for nw in scope.sample_networks(3, 4, 3, 400, rng) if len({s for t in nw[0] for s in t}) >= 2]
        for k, (i3, _o3) in enumerate(nets[:24]):
            syms = sorted({s for t in i3 for s in t})
            sz = {s: 2 + (j % 3) for j, s in enumerate(syms)}
            outs = []
            for _ in range(12):
                o = tuple(rng.sample(syms, rng.randint(0, min(3, len(syms)))))
                if o not in outs:
                    outs.append(o)
            P[f"generated {k}: outputs of {','.join(''.join(t) for t in i3)}"] = [mkspec(i3, o, sz, "greedy") for o in outs[:4]]
            if k % 3 == 0:
                P[f"generated {k}: options of {','.join(''.join(t) for t in i3)}"] = [
                    mkspec(i3, outs[0], sz, "greedy", kw) for kw in ({}, {"strip_exponent": True}, {"prefer_einsum": True}, {"implementation": "autoray"})]
    return P


def _apis_for(pool_specs):
    apis = list(APIS)
    if not all(_is_letters(s) and s["canonicalize"] for s in pool_specs):
        apis = [a for a in apis if a not in ("einsum", "einsum_expression")]
    return apis


# --------------------------------------------------------------------------
# running sequences
# --------------------------------------------------------------------------
def _short(spec):
    o = spec["optimize"]
    ov = o["v"] if o["t"] == "str" else f"{o['t']}:{o.get('outer')}{o['v']}"
    return (f"{','.join('(' + ','.join(t) + ')' for t in spec['inputs'])}->({','.join(spec['output'])}) sizes {[v for _, v in spec['sizes']]} "
            f"optimize={ov} kw={spec['kw']} canonicalize={spec['canonicalize']} {spec.get('container', '')}")


def run_sequence(seq, cold_memo=None):
    """seq: list of {"api","spec"}.  Returns (n_calls, failure or None, n_hits).
    failure = (k, kind)."""
    ci, _, _ = _mods()
    colds = []
    for k, step in enumerate(seq):
        key = (step["api"], repr(step["spec"]))
        if cold_memo is not None and key in cold_memo:
            colds.append(cold_memo[key])
            continue
        clear_all()
        c = _call(step["api"], step["spec"], False, 1000 + 0)
        if cold_memo is not None:
            cold_memo[key] = c
        colds.append(c)
    clear_all()
    hits = 0
    for k, step in enumerate(seq):
        before = (len(ci._PATH_CACHE), len(ci._CONTRACT_EXPR_CACHE))
        obs = _call(step["api"], step["spec"], True, 1000 + 0)
        after = (len(ci._PATH_CACHE), len(ci._CONTRACT_EXPR_CACHE))
        if after == before and step["api"] != "array_contract_tree" and k > 0:  # (rough evidence only)
            hits += 1
        kind = _check_obs(obs, colds[k], step["spec"], 1000)
        if kind is not None:
            return k + 1, (k, kind), hits
    clear_all()
    return len(seq), None, hits


def _work_pool(item):
    name, specs, api, L, mixed_count, sd = item
    rng = random.Random(sd)
    n = 0
    keys, viols, samples = [], [], []
    fired = {}
    memo = {}
    nspec = len(specs)
    if api != "mixed":
        seqs = []
        for ln in range(1, L + 1):
            for idxs in itertools.product(range(nspec), repeat=ln):
                seqs.append([(api, i) for i in idxs])
    else:
        apis = _apis_for(specs)
        seqs = []
        for _ in range(mixed_count):
            ln = rng.randint(2, L + 1)
            seqs.append([(rng.choice(apis), rng.randrange(nspec)) for _ in range(ln)])
    distinct_cold = set()
    for sq in seqs:
        seq = [{"api": a, "spec": specs[i]} for a, i in sq]
        nc, fail, hits = run_sequence(seq, memo)
        n += nc
        fired[f"calls through {api}"] = fired.get(f"calls through {api}", 0) + nc
        fired["calls served from a populated cache (no new entry)"] = fired.get("calls served from a populated cache (no new entry)", 0) + hits
        if len(sq) >= 2 and len({i for _, i in sq}) >= 2 or len({a for a, _ in sq}) >= 2:
            keys.append(f"{name}|{sq}")
        if fail is not None and len(viols) < 12:
            k, kind = fail
            sig = (f"C13 pool '{name}' sequence {[f'{a}#{i}' for a, i in sq]} call {k + 1} "
                   f"[{sq[k][0]}: {_short(specs[sq[k][1]])}]: {kind.split(' (')[0][:140]}")
            viols.append((sig, {"kind": "sequence", "pool": name, "seq": seq, "failed_call": k, "detail": kind}, len(sq)))
    # do the pool members actually differ when computed cold? (evidence that the pool is discriminating)
    for (a, _r), c in memo.items():
        distinct_cold.add((a, repr({k: (v if k != "value" and k != "fresh_value" else (v[0], v[1], np.asarray(v[2]).tolist() if len(v) > 2 else None)) for k, v in c.items()})))
    fired["distinct cold observations (api, spec)"] = len(distinct_cold)
    if not samples and api != "mixed" and nspec > 1:
        samples.append({"pool": name, "api": api, "sequence": [_short(specs[i]) for i in (0, 1, 0)][:L]})
    return n, keys, viols, samples, fired


# --------------------------------------------------------------------------
# lru-cached parsers
# --------------------------------------------------------------------------
def _deep(x):
    return copy.deepcopy(x)


def _work_parsers(item):
    nets, sd = item
    ci, cc, cu = _mods()
    import cotengra as ctg

    rng = random.Random(sd)
    n = 0
    keys, viols = [], []
    fired = {}
    clear_all()

    def bump(k):
        fired[k] = fired.get(k, 0) + 1

    def bad(sig, case, detail):
        if len(viols) < 8:
            viols.append((sig, dict(case, detail=detail), 1))

    others = [("ab,bc->ac", ((2, 3), (3, 2))), ("ab,ab->ab", ((2, 2), (2, 2))), ("a,b->ba", ((2,), (3,)))]
    for inputs, output in nets:
        syms = sorted({s for t in inputs for s in t})
        sizes = {s: rng.choice((1, 2, 3)) for s in syms}
        eq = ",".join("".join(t) for t in inputs) + "->" + "".join(output)
        shapes = tuple(tuple(sizes[s] for s in t) for t in inputs)
        case = {"kind": "parser", "eq": eq, "shapes": [list(s) for s in shapes]}
        arrays = [np.random.default_rng(7).integers(-3, 4, size=s).astype(float) for s in shapes]
        ref = np.einsum(eq, *arrays)
        with warnings.catch_warnings():
            warnings.simplefilter("ignore")
            try:
                if len(inputs) == 1:
                    fn, args = cc._parse_einsum_single, (eq, shapes[0])
                else:
                    fn, args = cc._parse_eq_to_batch_matmul, (eq, shapes[0], shapes[1])
                fresh = _deep(fn.__wrapped__(*args))
                r1 = fn(*args)
                snap = _deep(r1)
                if snap != fresh:
                    bad(f"C13 {fn.__name__}{args}: cached result differs from the uncached computation", case, f"{snap} vs {fresh}")
                # interleave with other arguments, consume through the executors, call again
                for oeq, osh in others:
                    cc._parse_eq_to_batch_matmul(oeq, *osh)
                for _rep in range(2):
                    got = cc.einsum(eq, *arrays)
                    if np.shape(got) != np.shape(ref) or not np.array_equal(got, ref):
                        bad(f"C13 cotengra.contract.einsum('{eq}') shapes {shapes} (call {_rep + 1}): value differs", case, "")
                    got = ctg.einsum(eq, *arrays, implementation="cotengra", cache_expression=False)
                    if np.shape(got) != np.shape(ref) or not np.array_equal(got, ref):
                        bad(f"C13 cotengra.einsum('{eq}') shapes {shapes} (call {_rep + 1}): value differs", case, "")
                r2 = fn(*args)
                if r2 is not r1:
                    bump("lru miss on repeated call")
                if _deep(r2) != snap or _deep(r1) != snap:
                    bad(f"C13 {fn.__name__}{args}: cached return value was mutated by its consumers", case, f"{r1} vs snapshot {snap}")
                bump(fn.__name__)
                # parse_equation_ellipses (both output modes)
                for tuples in (False, True):
                    f2 = cu.parse_equation_ellipses
                    a2 = (eq, shapes, tuples)
                    fr = _deep(f2.__wrapped__(*a2))
                    c1 = f2(*a2)
                    s1 = _deep(c1)
                    f2("ab...,...bc", ((2, 3, 2), (2, 3, 2)), tuples)
                    ctg.einsum(eq, *arrays, cache_expression=False)
                    c2 = f2(*a2)
                    if s1 != fr or _deep(c2) != s1 or _deep(c1) != s1:
                        bad(f"C13 parse_equation_ellipses{a2}: cached value differs / mutated", case, f"{c1} {c2} {fr}")
                    bump("parse_equation_ellipses")
                # tensordot parser for the same operands when expressible
                n += 1
                keys.append(f"parser|{eq}|{shapes}")
            except Exception as e:  # noqa: BLE001
                bad(f"C13 lru-cached parser check on '{eq}' shapes {shapes}: raised {type(e).__name__}", case, str(e)[:160])
    # tensordot axes parser
    for ra, rb in ((1, 1), (2, 2), (2, 3), (3, 3)):
        for k in range(min(ra, rb) + 1):
            for aa in itertools.permutations(range(ra), k):
                for bb in itertools.permutations(range(rb), k):
                    sa = tuple(rng.choice((2, 3)) for _ in range(ra))
                    sb = [rng.choice((2, 3)) for _ in range(rb)]
                    for i, j in zip(aa, bb):
                        sb[j] = sa[i]
                    sb = tuple(sb)
                    args = ((tuple(aa), tuple(bb)), sa, sb)
                    case = {"kind": "tensordot_parser", "axes": [list(aa), list(bb)], "shape_a": list(sa), "shape_b": list(sb)}
                    try:
                        fr = _deep(cc._parse_tensordot_axes_to_matmul.__wrapped__(*args))
                        r1 = cc._parse_tensordot_axes_to_matmul(*args)
                        snap = _deep(r1)
                        A = np.random.default_rng(3).integers(-3, 4, size=sa).astype(float)
                        B = np.random.default_rng(4).integers(-3, 4, size=sb).astype(float)
                        ref = np.tensordot(A, B, axes=(aa, bb))
                        for _rep in range(2):
                            got = cc.tensordot(A, B, (aa, bb))
                            if np.shape(got) != np.shape(ref) or not np.array_equal(got, ref):
                                bad(f"C13 cotengra.contract.tensordot shapes {sa},{sb} axes {(aa, bb)} (call {_rep + 1}): value differs", case, "")
                        r2 = cc._parse_tensordot_axes_to_matmul(*args)
                        if snap != fr or _deep(r2) != snap or _deep(r1) != snap:
                            bad(f"C13 _parse_tensordot_axes_to_matmul{args}: cached value differs / mutated", case, f"{r1} {fr}")
                        bump("_parse_tensordot_axes_to_matmul")
                        n += 1
                    except Exception as e:  # noqa: BLE001
                        bad(f"C13 tensordot parser check {args}: raised {type(e).__name__}", case, str(e)[:160])
    return n, keys, viols, [], fired


# --------------------------------------------------------------------------
# driver
# --------------------------------------------------------------------------
def run_bounded(rep: Report, tier: str) -> None:
    quick = tier == "quick"
    rng = random.Random(seed() * 32452843 + 13)
    dl = deadline(tier, 240, 25 * 60)
    L = 3 if quick else 4
    mixed = 150 if quick else 1500
    rep.rule = (
        "a case is a sequence of high-level calls (API, spec) executed with caching on after clearing all caches, each call "
        "compared with its cold uncached twin and with the numpy.einsum oracle; non-trivial: a sequence containing at least "
        "two different specs of the pool or two different APIs (so a wrong key could hand one call the other's entry); "
        "distinct = distinct (pool, sequence)."
    )
    P = pools(tier)
    items = []
    for name, specs in P.items():
        for api in _apis_for(specs):
            items.append((name, specs, api, L, 0, rng.randrange(2**30)))
        items.append((name, specs, "mixed", L, mixed, rng.randrange(2**30)))
    # biggest first for load balance
    items.sort(key=lambda it: -(len(it[1]) ** it[3]))
    viols = []
    timed_out = False
    n_seq_calls = 0
    for st, res in pmap(_work_pool, items, chunk=1):
        if st == "crash":
            rep.crash(f"pool worker crashed: {res[:600]}")
            continue
        n, keys, vs, samples, fired = res
        rep.count(n)
        n_seq_calls += n
        for k in keys:
            rep.nontrivial_case(k)
        for s in samples:
            rep.sample(s)
        for f, c in fired.items():
            rep.fired(f, c)
        viols.extend(vs)
        if time.time() > dl:
            timed_out = True
            break
    rep.scope(f"{len(P)} pools x {len(APIS)} APIs x all sequences (with repetition) of length <= {L}", n_seq_calls, not timed_out,
              f"pools: {list(P)}; einsum/einsum_expression only for single-letter labels; plus {mixed} seeded mixed-API sequences per pool "
              f"(length 2..{L + 1})" + (" [stopped at the time budget]" if timed_out else ""))
    rep.extra["pools"] = {k: len(v) for k, v in P.items()}

    # lru parsers
    nets = list(scope.networks(1, 3, 3)) + list(scope.networks(2, 3, 2))
    if not quick:
        nets += list(scope.networks(2, 3, 3))
    chunks = [(nets[i:i + 40], rng.randrange(2**30)) for i in range(0, len(nets), 40)]
    n_p = 0
    for st, res in pmap(_work_parsers, chunks, chunk=1):
        if st == "crash":
            rep.crash(f"parser worker crashed: {res[:600]}")
            continue
        n, keys, vs, _s, fired = res
        rep.count(n)
        n_p += n
        for k in keys:
            rep.nontrivial_case(k)
        for f, c in fired.items():
            rep.fired("lru: " + f, c)
        viols.extend(vs)
    rep.scope("lru-cached parsers: cached == uncached, repeated calls equal, cached values not mutated by consumers", n_p, True,
              f"{len(nets)} one/two-operand equations (Net(1,3,3), Net(2,3,2){'' if quick else ', Net(2,3,3)'}) with sizes from {{1,2,3}} + every "
              "tensordot axes pair for ranks (1,1),(2,2),(2,3),(3,3)")

    viols.sort(key=lambda v: (v[2], len(v[0]), v[0]))
    seen = set()
    nrep = 0
    for sig, case, _ln in viols:
        cls = (case.get("pool"), sig.split("]: ")[-1][:50]) if case["kind"] == "sequence" else (case["kind"], sig.split(":")[-1][:40])
        if cls in seen:
            continue
        seen.add(cls)
        rep.violation(sig, {"module": MODULE, "case": case})
        nrep += 1
        if nrep >= MAX_VIOLATIONS:
            break
    rep.extra["failing_sequences_total"] = len(viols)
    rep.explanation += (
        "Differential: every sequence of calls is run with the default caching after clearing _PATH_CACHE, _CONTRACT_EXPR_CACHE, "
        "the type-keyed dispatch dicts and every lru_cache; each call's observation (value + shape / validated path / tree "
        "description + path + contracted value / expression fingerprint + value + value on fresh arrays / exception type) must "
        "equal the cold cache=False observation and the numpy.einsum oracle. Pool members differ in exactly one key component: "
        "output order, one size (chosen so that the optimal and greedy paths flip), optimize preset, explicit-path container "
        "types, different valid paths, strip_exponent / implementation / prefer_einsum / sort_contraction_indices, index "
        "relabelling with and without canonicalize, the canonicalize flag, labels -1/-2, 1/True/1.0, ints with colliding "
        "hashes (n, n+2**61-1), tuple-vs-list containers, single-tensor fast paths, operand count, operand order, axis order. "
        "lru-cached parsers: cached == __wrapped__ result, stable across interleaved calls, not mutated by the executors."
    )
    rep.assumptions.append("'greedy', 'optimal', 'auto', 'auto-hq' are deterministic for these 2-4 tensor contractions (verified: cold paths are compared for equality, a flap would show as a violation)")
    rep.assumptions.append("labels that compare equal (1, True, 1.0) denote the same index, as everywhere in Python dict-based code")
    rep.trusted_base.append("numpy.einsum / numpy.tensordot (oracle); the fingerprint reads Contractor attributes and closure cells")


def replay(case: dict):
    if case.get("kind") == "sequence":
        n, fail, _h = run_sequence(case["seq"], None)
        if fail is not None:
            k, kind = fail
            st = case["seq"][k]
            return False, f"call {k + 1} of {[s['api'] for s in case['seq']]} [{st['api']}: {_short(st['spec'])}]: {kind}"
        return True, "every call of the sequence equals its cold uncached twin and the oracle"
    if case.get("kind") in ("parser", "tensordot_parser"):
        if case["kind"] == "parser":
            lhs, out = case["eq"].split("->")
            nets = [(tuple(tuple(t) for t in lhs.split(",")), tuple(out))]
            # re-run with the recorded shapes: emulate by a one-network worker with fixed sizes
            res = _replay_parser(case)
            return res
        return _replay_parser(case)
    return True, f"unknown case kind {case.get('kind')}"


def _replay_parser(case):
    ci, cc, cu = _mods()
    clear_all()
    if case["kind"] == "tensordot_parser":
        aa, bb = tuple(case["axes"][0]), tuple(case["axes"][1])
        sa, sb = tuple(case["shape_a"]), tuple(case["shape_b"])
        args = ((aa, bb), sa, sb)
        fr = _deep(cc._parse_tensordot_axes_to_matmul.__wrapped__(*args))
        r1 = cc._parse_tensordot_axes_to_matmul(*args)
        snap = _deep(r1)
        A = np.random.default_rng(3).integers(-3, 4, size=sa).astype(float)
        B = np.random.default_rng(4).integers(-3, 4, size=sb).astype(float)
        ref = np.tensordot(A, B, axes=(aa, bb))
        for rep_ in range(2):
            got = cc.tensordot(A, B, (aa, bb))
            if np.shape(got) != np.shape(ref) or not np.array_equal(got, ref):
                return False, f"tensordot shapes {sa},{sb} axes {(aa, bb)} call {rep_ + 1}: value differs"
        if snap != fr or _deep(cc._parse_tensordot_axes_to_matmul(*args)) != snap or _deep(r1) != snap:
            return False, "cached tensordot plan differs from uncached / was mutated"
        return True, "tensordot parser cache consistent"
    eq = case["eq"]
    shapes = tuple(tuple(s) for s in case["shapes"])
    arrays = [np.random.default_rng(7).integers(-3, 4, size=s).astype(float) for s in shapes]
    ref = np.einsum(eq, *arrays)
    import cotengra as ctg

    if len(shapes) == 1:
        fn, args = cc._parse_einsum_single, (eq, shapes[0])
    else:
        fn, args = cc._parse_eq_to_batch_matmul, (eq, shapes[0], shapes[1])
    with warnings.catch_warnings():
        warnings.simplefilter("ignore")
        try:
            fresh = _deep(fn.__wrapped__(*args))
            r1 = fn(*args)
            snap = _deep(r1)
            if snap != fresh:
                return False, f"{fn.__name__}{args}: cached {snap} != uncached {fresh}"
            for rep_ in range(2):
                for got in (cc.einsum(eq, *arrays), ctg.einsum(eq, *arrays, implementation="cotengra", cache_expression=False)):
                    if np.shape(got) != np.shape(ref) or not np.array_equal(got, ref):
                        return False, f"einsum('{eq}') shapes {shapes} call {rep_ + 1}: value differs from numpy"
            if _deep(fn(*args)) != snap or _deep(r1) != snap:
                return False, f"{fn.__name__}{args}: cached value mutated: {r1} vs {snap}"
            for tuples in (False, True):
                a2 = (eq, shapes, tuples)
                fr = _deep(cu.parse_equation_ellipses.__wrapped__(*a2))
                c1 = cu.parse_equation_ellipses(*a2)
                s1 = _deep(c1)
                ctg.einsum(eq, *arrays, cache_expression=False)
                if s1 != fr or _deep(cu.parse_equation_ellipses(*a2)) != s1 or _deep(c1) != s1:
                    return False, f"parse_equation_ellipses{a2}: cached value differs / mutated"
        except Exception as e:  # noqa: BLE001
            return False, f"raised {type(e).__name__}: {e}"
    return True, "parser caches consistent"
