"""C14 driver (see DESIGN.md section 3, C14)."""
from .generic import run_property, replay_property


def run(tier):
    return run_property("C14", tier)


def replay(path):
    return replay_property("C14", path)
