"""C14 bounded driver: a reusable optimizer's cache hit is a correct answer for
the question asked.

Every sequence of queries (length <= 3 quick / <= 4 thorough) over a pool of
near-identical contractions goes through ONE reusable optimizer; each answer is
checked against the query itself (not against cotengra's idea of the query),
against the entry stored under its fingerprint, and against an independent
model of "has an equivalent contraction been asked before".  Queries are always
rebuilt from FRESH, non-identical multi-character string objects.
"""

from __future__ import annotations

import itertools
import json
import math
import os
import pickle
import random
import shutil
import sys
import tempfile
import time

from ..common import Report, deadline, pmap, seed
from ._optutil import mk_tmp, run_tmpbase, eq_str, path_is_valid, quiet, run_child, seed_globals, tree_query_mismatch

MOD = "vt.props.c14_bounded"

# ---------------------------------------------------------------------------
# pool of near-identical contractions
# ---------------------------------------------------------------------------

_BASE_INPUTS = (("ia0", "ia1", "o1"), ("ia1", "ia2", "hh"), ("ia2", "ia3", "hh"), ("ia3", "ia0", "hh"), ("ia3", "o2"))
_BASE_OUTPUT = ("o1", "o2")
_BASE_SIZES = {"ia0": 2, "ia1": 3, "ia2": 2, "ia3": 3, "hh": 2, "o1": 2, "o2": 3}


def _rename(net, a, b):
    ins, out, sd = net
    f = lambda x: b if x == a else x  # noqa: E731
    return tuple(tuple(map(f, t)) for t in ins), tuple(map(f, out)), {f(k): v for k, v in sd.items()}


def _variant(name):
    ins, out, sd = _BASE_INPUTS, _BASE_OUTPUT, dict(_BASE_SIZES)
    if name == "base":
        pass
    elif name == "perm-in-tensor":
        ins = (ins[0], ("ia2", "hh", "ia1")) + ins[2:]
    elif name == "perm-output":
        out = ("o2", "o1")
    elif name == "perm-both":
        ins = (("o1", "ia0", "ia1"), ("ia2", "hh", "ia1")) + ins[2:]
        out = ("o2", "o1")
    elif name == "size-changed":
        sd["ia1"] = 4
    elif name == "inputs-reordered":
        ins = (ins[0], ins[2], ins[1], ins[3], ins[4])
    elif name == "index-renamed":
        ins, out, sd = _rename((ins, out, sd), "ia2", "zq9")
    elif name == "output-index-added":
        out = ("o1", "o2", "hh")
    elif name == "output-index-removed":
        out = ("o1",)
    elif name == "index-moved":
        ins = (ins[0], ("ia1", "ia2", "hh", "o2"), ins[2], ins[3], ("ia3",))
    elif name == "labels-swapped":
        # ia1 <-> ia2 on the tensors (sizes stay with the names): same incidence structure, other contraction
        sw = {"ia1": "ia2", "ia2": "ia1"}
        ins = tuple(tuple(sw.get(x, x) for x in t) for t in ins)
    elif name == "output-label-swapped":
        sw = {"o1": "o2", "o2": "o1"}
        ins = tuple(tuple(sw.get(x, x) for x in t) for t in ins)
    else:
        raise ValueError(name)
    return ins, out, sd


POOL_FULL = ["base", "perm-in-tensor", "perm-output", "size-changed", "inputs-reordered", "index-renamed", "output-index-added",
             "output-index-removed", "index-moved", "labels-swapped", "perm-both"]
POOL_SMALL = ["base", "perm-both", "size-changed", "inputs-reordered", "labels-swapped", "output-index-added"]
POOL_TINY = ["base", "perm-in-tensor", "labels-swapped", "index-moved"]


def fresh(s):
    """An equal but non-identical string object (multi-character labels)."""
    return "".join([c for c in s])


def freshen(net, mode=1):
    """Rebuild a query from string objects that are equal to the pool's labels
    but not the same objects.  mode 0: one shared object per label (what
    literals / interned strings give); mode 1: a fresh object for EVERY
    occurrence of a label; mode 2: a fresh object per label, shared between its
    occurrences.  (pickle memoises by identity, so the three differ in their
    byte streams unless the fingerprint canonicalises objects.)"""
    ins, out, sd = net
    if mode == 0:
        return tuple(tuple(t) for t in ins), tuple(out), {k: int(v) for k, v in sd.items()}
    if mode == 2:
        m = {}

        def f(x):
            if x not in m:
                m[x] = fresh(x)
            return m[x]
    else:
        f = fresh
    return (tuple(tuple(f(x) for x in t) for t in ins), tuple(f(x) for x in out), {f(k): int(v) for k, v in sd.items()})


# independent canonical forms (from the property statement)


def canon_a(net):
    """'a': contractions are the same iff they differ merely by the order of
    indices within a tensor or within the output."""
    ins, out, sd = net
    return (tuple(tuple(sorted(t)) for t in ins), tuple(sorted(out)), tuple(sorted((k, int(v)) for k, v in sd.items())))


def canon_b(net):
    """'b': equal sorted incidence lists (output = node -1) and equal size items."""
    ins, out, sd = net
    inc = {}
    for ix in out:
        inc.setdefault(ix, []).append(-1)
    for i, t in enumerate(ins):
        for ix in t:
            inc.setdefault(ix, []).append(i)
    return (tuple(sorted(tuple(sorted(v)) for v in inc.values())), tuple(sorted((k, int(v)) for k, v in sd.items())))


CANON = {"a": canon_a, "b": canon_b}


# ---------------------------------------------------------------------------
# one sequence through one optimizer
# ---------------------------------------------------------------------------


def _make_opt(cfg, directory, cache_only=None, split=None):
    import cotengra as ctg
    from cotengra.pathfinders.path_basic import ReusableRandomGreedyOptimizer

    kw = dict(
        directory=directory,
        overwrite=cfg["overwrite"],
        hash_method=cfg["hash"],
        cache_only=cfg.get("cache_only0", False) if cache_only is None else cache_only,
        directory_split=cfg["split"] if split is None else split,
    )
    if cfg["kind"] == "hyper":
        if cfg.get("slicing"):
            kw["slicing_opts"] = {"target_size": cfg["slicing"]}
        return ctg.ReusableHyperOptimizer(max_repeats=4, optlib="random", parallel=False, on_trial_error="ignore", **kw)
    return ReusableRandomGreedyOptimizer(max_repeats=4, parallel=False, **kw)


class _Spy:
    def __init__(self, opt):
        self.n = 0
        self.last = None
        self.opt = opt
        self.orig = opt._run_optimizer
        opt._run_optimizer = self

    def __call__(self, *a, **k):
        self.n += 1
        self.last = self.orig(*a, **k)
        return self.last


def _score_mismatch(cfg, tree, stored_score):
    if cfg["kind"] == "hyper":
        got = tree.get_score()
    else:
        got = math.log10(tree.contract_stats()["flops"])
    if abs(got - stored_score) <= 1e-9 * max(1.0, abs(got)):
        return ""
    return f"tree score {got!r} vs stored {stored_score!r}"


def _entry_file(directory, split, h):
    hs = "".join(h) if isinstance(h, tuple) else h
    if split:
        return os.path.join(directory, hs[:2], hs[2:])
    return os.path.join(directory, hs)


def run_seq(case):
    """case: {cfg, pool: [variant names], seq: [indices], cache_only_from: k|None}
    Returns dict(problems, nontrivial, fired, info)."""
    from cotengra.reusable import hash_contraction

    cfg = case["cfg"]
    pool = [_variant(v) for v in case["pool"]]
    seq = case["seq"]
    co_from = case.get("cache_only_from")
    problems = []
    fired = {}

    def fire(k, n=1):
        fired[k] = fired.get(k, 0) + n

    seed_globals(9176 + 31 * sum((i + 1) * (q + 1) for i, q in enumerate(seq)))
    directory = mk_tmp("c14-") if cfg["dir"] else None
    eff_split = True if cfg["split"] == "auto" else cfg["split"]  # 'auto' on an empty / missing directory defaults to split
    hits = 0
    try:
        with quiet():
            opt = _make_opt(cfg, directory)
            if opt.directory_split != eff_split:
                problems.append((f"directory_split={cfg['split']!r} on an empty cache resolved to {opt.directory_split!r}", ""))
            spy = _Spy(opt)
            model = {}  # canonical form -> {"path":..., "score":...}
            canon = CANON[cfg["hash"]]
            for pos, qi in enumerate(seq):
                q = freshen(pool[qi], mode=(pos + qi) % 3)
                ins, out, sd = q
                c = canon(q)
                where = f"query #{pos} ({case['pool'][qi]})"
                if co_from is not None and pos == co_from:
                    if directory is not None:
                        # a second optimizer on the same directory, cache_only from construction
                        opt = _make_opt(cfg, directory, cache_only=True)
                        spy = _Spy(opt)
                    else:
                        opt.cache_only = True
                cache_only = co_from is not None and pos >= co_from
                seen = c in model
                expect_search = (not seen) or bool(cfg["overwrite"])
                mode = cfg["mode"] if cfg["mode"] != "mixed" else ("search", "call")[pos % 2]
                n0 = spy.n
                try:
                    res = opt.search(ins, out, sd) if mode == "search" else opt(ins, out, sd)
                    err = None
                except KeyError as e:
                    res, err = None, e
                searched = spy.n - n0

                if cache_only:
                    fire("cache_only_never_searches")
                    if searched:
                        problems.append(("cache_only optimizer ran a search", where))
                    # with overwrite set, a cache_only optimizer cannot re-run: it must either answer from the cache or raise
                    if not seen:
                        if err is None:
                            problems.append(("cache_only optimizer answered a contraction it has never stored", where))
                        continue
                    if err is not None:
                        if cfg["overwrite"]:
                            continue  # documented order of the policy: overwrite wants a re-run, cache_only forbids it
                        problems.append(("cache_only optimizer raised KeyError on a stored contraction", where))
                        continue
                else:
                    if err is not None:
                        problems.append((f"search raised KeyError({err.args!r})", where))
                        break
                    fire("search_count_matches_policy")
                    if searched != (1 if expect_search else 0):
                        problems.append(
                            (f"expected {'a' if expect_search else 'no'} search but _run_optimizer ran {searched} time(s)",
                             f"{where}; equivalent contraction seen before: {seen}; overwrite={cfg['overwrite']!r}")
                        )

                # the stored entry for this query's fingerprint
                h = hash_contraction(ins, out, sd, cfg["hash"])
                key = (h[:2], h[2:]) if opt.directory_split else h
                try:
                    stored = opt._cache[key]
                except KeyError:
                    problems.append(("nothing is stored under the query's fingerprint after answering it", where))
                    break

                # ---- the answer is an answer to THIS query -----------------
                if mode == "search":
                    fire("tree_is_of_query")
                    why = tree_query_mismatch(res, ins, out, sd)
                    if why:
                        problems.append(("returned tree is not a complete tree of the queried contraction", f"{where}: {why}"))
                        break
                    path = tuple(map(tuple, res.get_path()))
                    fire("tree_matches_stored_entry")
                    if tuple(res.sliced_inds) != tuple(stored["sliced_inds"]):
                        problems.append(("tree.sliced_inds differ from the stored sliced_inds",
                                         f"{where}: {tuple(res.sliced_inds)} vs {tuple(stored['sliced_inds'])}"))
                    # whose search produced the stored entry? (under 'b' sharers may have other sizes on the edges)
                    if searched and stored == spy.last:
                        origin = canon_a(q)
                    else:
                        origin = model.get(c, {}).get("origin_a", canon_a(q))
                    same_as_origin = canon_a(q) == origin
                    if same_as_origin:
                        sm = _score_mismatch(cfg, res, stored["score"])
                        if sm:
                            problems.append(("tree score differs from the stored score", f"{where}: {sm}"))
                    if path != tuple(map(tuple, stored["path"])):
                        problems.append(("returned tree does not follow the stored path", f"{where}: {path} vs {stored['path']}"))
                    if any(ix not in sd for ix in stored["sliced_inds"]):
                        problems.append(("stored sliced index is not an index of the query", where))
                else:
                    fire("path_is_of_query")
                    path = tuple(map(tuple, res))
                    if not path_is_valid(path, len(ins)):
                        problems.append(("returned path is not a valid path for the queried contraction", f"{where}: {path}"))
                        break
                    if path != tuple(map(tuple, stored["path"])):
                        problems.append(("returned path is not the stored path", f"{where}: {path} vs {stored['path']}"))
                if not path_is_valid(stored["path"], len(ins)):
                    problems.append(("stored path is not a valid path for a contraction that maps to this entry", where))

                # ---- history: repeat => same order; improved => never worse ---
                if seen:
                    hits += 1
                    prev = model[c]
                    if not cfg["overwrite"]:
                        fire("repeat_returns_same_order")
                        if path != prev["path"]:
                            problems.append(("repeating a query returned a different contraction order",
                                             f"{where}: {path} vs earlier {prev['path']}"))
                    if cfg["overwrite"] == "improved":
                        fire("improved_never_worse")
                        if stored["score"] > prev["score"]:
                            problems.append(("overwrite='improved' made the stored score worse",
                                             f"{where}: {stored['score']!r} > {prev['score']!r}"))
                        if stored["score"] == prev["score"] and tuple(map(tuple, stored["path"])) != prev["path"] and not searched:
                            problems.append(("stored path changed without a search", where))
                    model[c]["path"] = tuple(map(tuple, stored["path"]))
                    model[c]["score"] = stored["score"]
                    if searched and stored == spy.last:
                        model[c]["origin_a"] = canon_a(q)
                else:
                    model[c] = {"path": tuple(map(tuple, stored["path"])), "score": stored["score"], "origin_a": canon_a(q)}

                # ---- on disk: the entry is where a reader will look --------
                if directory is not None:
                    fire("entry_file_layout")
                    f = _entry_file(directory, opt.directory_split, h)
                    if not os.path.isfile(f):
                        problems.append(("entry file missing at the path a reader would look up", f"{where}: {f}"))
                    else:
                        with open(f, "rb") as fh:
                            ondisk = pickle.load(fh)
                        if ondisk != stored:
                            problems.append(("entry on disk differs from the entry in memory", where))
                if problems:
                    break

            # ---- a second optimizer on the directory ('auto' layout detection) ----
            if directory is not None and not problems and model:
                fire("auto_layout_detection")
                opt2 = _make_opt(cfg, directory, cache_only=True, split="auto")
                if opt2.directory_split != opt.directory_split:
                    problems.append((f"directory_split='auto' picked {opt2.directory_split!r} on a cache written with {opt.directory_split!r}", ""))
                else:
                    spy2 = _Spy(opt2)
                    opt2.overwrite = False
                    for qi in dict.fromkeys(seq):
                        q = freshen(pool[qi])
                        c = canon(q)
                        if c not in model:
                            continue
                        try:
                            p2 = tuple(map(tuple, opt2(*q)))
                        except KeyError:
                            problems.append(("a second optimizer on the same directory does not find a stored contraction", case["pool"][qi]))
                            break
                        if p2 != model[c]["path"]:
                            problems.append(("a second optimizer on the same directory returns another path", case["pool"][qi]))
                            break
                    if spy2.n:
                        problems.append(("a second (cache_only) optimizer searched", ""))
    finally:
        if directory is not None:
            shutil.rmtree(directory, ignore_errors=True)
    return {"problems": problems, "nontrivial": hits > 0, "fired": fired, "info": {"hits": hits}}


def _cfg_desc(cfg):
    return (f"{cfg['kind']} hash={cfg['hash']} dir={'tmp' if cfg['dir'] else None} split={cfg['split']!r} overwrite={cfg['overwrite']!r} "
            f"slicing={cfg.get('slicing')} mode={cfg['mode']}")


def _desc(case):
    names = [case["pool"][i] for i in case["seq"]]
    co = f" cache_only_from={case['cache_only_from']}" if case.get("cache_only_from") is not None else ""
    return f"{_cfg_desc(case['cfg'])}{co} queries={names}"


def _work(case):
    out = run_seq(case)
    viol = [(f"C14 {chk} :: {_desc(case)}", case, det) for chk, det in out["problems"][:2]]
    key = json.dumps({k: v for k, v in case.items() if k != "g"}, sort_keys=True) if out["nontrivial"] else None
    return (1, key, viol, out["fired"], {"case": _desc(case), "g": case.get("g"), **out["info"]})


# ---------------------------------------------------------------------------
# fingerprints: equality <=> canonical-form equality over a generated pool
# ---------------------------------------------------------------------------


def _mutate(net, rng):
    ins, out, sd = net
    ins = [list(t) for t in ins]
    out = list(out)
    sd = dict(sd)
    op = rng.randrange(9)
    if op == 0:
        t = rng.randrange(len(ins))
        rng.shuffle(ins[t])
    elif op == 1:
        rng.shuffle(out)
    elif op == 2:
        k = rng.choice(sorted(sd))
        sd[k] = rng.choice([2, 3, 4])
    elif op == 3:
        rng.shuffle(ins)
    elif op == 4:
        a = rng.choice(sorted(sd))
        b = rng.choice(["zq9", "ia7", a + "x"])
        if b not in sd:
            ins, out, sd = _rename((ins, out, sd), a, b)
    elif op == 5:
        cand = [k for k in sorted(sd) if k not in out]
        if cand:
            out.append(rng.choice(cand))
    elif op == 6:
        if out:
            out.pop(rng.randrange(len(out)))
    elif op == 7:
        src = rng.randrange(len(ins))
        if ins[src]:
            ix = ins[src].pop(rng.randrange(len(ins[src])))
            ins[rng.randrange(len(ins))].append(ix)
    else:
        a, b = rng.sample(sorted(sd), 2)
        sw = {a: b, b: a}
        ins = [[sw.get(x, x) for x in t] for t in ins]
    # keep it a legal contraction: every size known, every output index on some tensor
    used = {x for t in ins for x in t}
    out = [x for x in out if x in used]
    for x in used:
        sd.setdefault(x, 2)
    sd = {k: v for k, v in sd.items() if k in used}
    return tuple(tuple(t) for t in ins), tuple(out), sd


def check_fingerprints(count, rng):
    """Over all pairs of a generated pool: hash equality <=> canonical equality
    (both schemes), with fresh string objects on each side."""
    from cotengra.reusable import hash_contraction_a, hash_contraction_b

    nets = [_variant(v) for v in POOL_FULL + ["output-label-swapped"]]
    while len(nets) < count:
        base = rng.choice(nets)
        m = base
        for _ in range(rng.randint(1, 3)):
            m = _mutate(m, rng)
        nets.append(m)
    problems = []
    ha = [hash_contraction_a(*freshen(n, 0)) for n in nets]
    hb = [hash_contraction_b(*freshen(n, 0)) for n in nets]
    ha2 = [hash_contraction_a(*freshen(n, 1)) for n in nets]
    ha3 = [hash_contraction_a(*freshen(n, 2)) for n in nets]
    hb2 = [hash_contraction_b(*freshen(n, 1)) for n in nets]
    ca = [canon_a(n) for n in nets]
    cb = [canon_b(n) for n in nets]
    pairs = eq_a = eq_b = 0
    for i in range(len(nets)):
        if not (ha[i] == ha2[i] == ha3[i]):
            problems.append(("hash 'a' of the same contraction built from fresh label objects differs", {"net": nets[i]}))
        if hb[i] != hb2[i]:
            problems.append(("hash 'b' of the same contraction built from fresh label objects differs", {"net": nets[i]}))
        for j in range(i, len(nets)):
            pairs += 1
            if (ha[i] == ha[j]) != (ca[i] == ca[j]):
                problems.append((f"hash 'a' {'equal' if ha[i] == ha[j] else 'different'} but contractions are "
                                 f"{'equivalent' if ca[i] == ca[j] else 'not equivalent'} up to index order within tensors/output",
                                 {"net": nets[i], "net2": nets[j]}))
            if (hb[i] == hb[j]) != (cb[i] == cb[j]):
                problems.append((f"hash 'b' {'equal' if hb[i] == hb[j] else 'different'} but incidence lists + sizes are "
                                 f"{'equal' if cb[i] == cb[j] else 'different'}", {"net": nets[i], "net2": nets[j]}))
            eq_a += ca[i] == ca[j] and i != j
            eq_b += cb[i] == cb[j] and i != j
            if len(problems) >= 3:
                return problems, pairs, eq_a, eq_b
    return problems, pairs, eq_a, eq_b


def _replay_fingerprint(case):
    from cotengra.reusable import hash_contraction_a, hash_contraction_b

    def load(n):
        return tuple(tuple(t) for t in n[0]), tuple(n[1]), dict(n[2])

    n1 = load(case["net"])
    n2 = load(case.get("net2", case["net"]))
    msgs = []
    for nm, hf, cf in (("a", hash_contraction_a, canon_a), ("b", hash_contraction_b, canon_b)):
        if len({hf(*freshen(n1, m)) for m in (0, 1, 2)}) != 1:
            msgs.append(f"hash '{nm}' depends on the identity of the label objects")
        he = hf(*freshen(n1, 0)) == hf(*freshen(n2, 1))
        ce = cf(n1) == cf(n2)
        if he != ce:
            msgs.append(f"hash '{nm}' equal={he} but canonical forms equal={ce}")
    return (not msgs), "; ".join(msgs) or "fingerprints agree with canonical forms"


# ---------------------------------------------------------------------------
# DiskDict alone
# ---------------------------------------------------------------------------

_DD_KEYS = ["k1", ("ab", "cdef"), ("ab", "zz"), "cdef"]
_DD_VALS = [{"path": ((0, 1),), "score": 1.5, "sliced_inds": ()}, [1, 2, 3], "text", {"path": ((0, 2), (0, 1)), "score": 2.0, "sliced_inds": ("x",)}]


def run_diskdict(case):
    """case: {'ops': [[op, key_i, val_i], ...], 'dir': bool} ; ops: set/get/has/reload."""
    from cotengra.utils import DiskDict

    problems = []
    d = mk_tmp("c14dd-") if case["dir"] else None
    try:
        dd = DiskDict(d)
        model = {}
        for n, (op, ki, vi) in enumerate(case["ops"]):
            k = _DD_KEYS[ki]
            k = tuple(fresh(x) for x in k) if isinstance(k, tuple) else fresh(k)
            if op == "set":
                dd[k] = _DD_VALS[vi]
                model[k] = _DD_VALS[vi]
            elif op == "get":
                try:
                    v = dd[k]
                    if k not in model:
                        problems.append((f"DiskDict returned a value for a key never set (op #{n})", ""))
                    elif v != model[k]:
                        problems.append((f"DiskDict returned another value than the one set (op #{n})", f"{v!r} vs {model[k]!r}"))
                except KeyError:
                    if k in model:
                        problems.append((f"DiskDict raised KeyError for a key that was set (op #{n})", ""))
            elif op == "has":
                if (k in dd) != (k in model):
                    problems.append((f"DiskDict.__contains__ is {k in dd} for a key that was {'set' if k in model else 'never set'} (op #{n})", ""))
            elif op == "reload":
                if d is None:
                    model = {}
                dd = DiskDict(d)
            if problems:
                break
    finally:
        if d is not None:
            shutil.rmtree(d, ignore_errors=True)
    return problems


def _work_dd(case):
    problems = run_diskdict(case)
    viol = [(f"C14 {chk} :: DiskDict(dir={'tmp' if case['dir'] else None}) ops={case['ops']}", {"diskdict": case}, det) for chk, det in problems[:1]]
    return (1, json.dumps(case) if any(o[0] == "reload" for o in case["ops"]) else None, viol, {"diskdict_model": 1}, {"case": str(case)})


# ---------------------------------------------------------------------------
# fresh-process reload
# ---------------------------------------------------------------------------


def _child_main():
    """python -m vt.props.c14_bounded --child  (stdin: json job; stdout: json)."""
    job = json.load(sys.stdin)
    cfg = job["cfg"]
    out = {"paths": [], "searched": 0, "split": None, "errors": []}
    with quiet():
        opt = _make_opt(cfg, job["directory"], cache_only=job["cache_only"], split=job["split"])
        opt.overwrite = False
        spy = _Spy(opt)
        out["split"] = opt.directory_split
        for name in job["queries"]:
            ins, out_, sd = freshen(_variant(name))
            try:
                if job["mode"] == "search":
                    t = opt.search(ins, out_, sd)
                    why = tree_query_mismatch(t, ins, out_, sd)
                    if why:
                        out["errors"].append(f"{name}: {why}")
                    out["paths"].append([list(map(list, t.get_path())), list(t.sliced_inds)])
                else:
                    out["paths"].append([list(map(list, opt(ins, out_, sd))), None])
            except KeyError as e:
                out["paths"].append(None)
                out["errors"].append(f"{name}: KeyError {e}")
        out["searched"] = spy.n
    sys.stdout.write(json.dumps(out))


def run_reload(case):
    """Parent writes a cache directory through one optimizer, then a FRESH
    interpreter pointed at the directory must answer the same queries with the
    same paths (and sliced indices) without searching."""
    cfg = case["cfg"]
    problems = []
    d = mk_tmp("c14r-")
    try:
        seed_globals(77)
        with quiet():
            opt = _make_opt(cfg, d)
            expect = []
            for name in case["queries"]:
                ins, out, sd = freshen(_variant(name), 0)
                t = opt.search(ins, out, sd)
                expect.append([list(map(list, t.get_path())), list(t.sliced_inds)])
            # the answers the parent itself now gives from the cache
            for i, name in enumerate(case["queries"]):
                ins, out, sd = freshen(_variant(name))
                t = opt.search(ins, out, sd)
                expect[i] = [list(map(list, t.get_path())), list(t.sliced_inds)]
        for child_split in case["child_splits"]:
            for mode in ("search", "call"):
                job = {"cfg": cfg, "directory": d, "cache_only": case.get("child_cache_only", False), "split": child_split,
                       "queries": case["queries"], "mode": mode}
                rc, so, se = run_child(["--child"], input_bytes=json.dumps(job).encode(), module=MOD, env={"PYTHONHASHSEED": case.get("hashseed", "0")})
                if rc != 0:
                    problems.append((f"fresh process (directory_split={child_split!r}, {mode}) failed", se.decode()[-600:]))
                    continue
                res = json.loads(so)
                if res["searched"]:
                    problems.append((f"fresh process (directory_split={child_split!r}, {mode}) searched {res['searched']} time(s) for stored contractions", ""))
                if res["errors"]:
                    problems.append((f"fresh process (directory_split={child_split!r}, {mode}) gave a wrong answer", "; ".join(res["errors"])))
                if child_split == "auto" and res["split"] != opt.directory_split:
                    problems.append((f"fresh process with directory_split='auto' picked {res['split']!r}, cache was written with {opt.directory_split!r}", ""))
                for name, e, g in zip(case["queries"], expect, res["paths"]):
                    if g is None:
                        continue
                    if g[0] != e[0] or (mode == "search" and g[1] != e[1]):
                        problems.append((f"fresh process (directory_split={child_split!r}, {mode}) answers {name} with another path/sliced set", f"{g} vs {e}"))
                        break
    finally:
        shutil.rmtree(d, ignore_errors=True)
    return problems


def _work_reload(case):
    problems = run_reload(case)
    viol = [(f"C14 {chk} :: reload {_cfg_desc(case['cfg'])} queries={case['queries']}", {"reload": case}, det) for chk, det in problems[:2]]
    return (1, json.dumps(case, sort_keys=True), viol, {"fresh_process_reload": 2 * len(case["child_splits"])}, {"case": str(case)})


# ---------------------------------------------------------------------------


def run_two_threads(kind):
    """One reusable optimizer shared by two threads with the completion order pinned: thread A has finished its
    search and is about to store the result when thread B runs its whole query.  Each must get a tree of ITS contraction."""
    import threading
    import cotengra as ctg

    cls = ctg.ReusableRandomGreedyOptimizer if kind == "rgreedy" else ctg.ReusableHyperOptimizer
    kw = {"max_repeats": 2} if kind == "rgreedy" else {"max_repeats": 2, "optlib": "random", "methods": ["greedy"], "progbar": False}
    opt = cls(directory=None, **kw)
    nets = {}
    for name, (n, sd) in {"A": (6, 1), "B": (9, 2)}.items():
        ins, out, _sh, size_dict = ctg.utils.rand_equation(n, 3, n_out=1, seed=sd)
        nets[name] = (ins, out, size_dict)
    at_store, b_done = threading.Event(), threading.Event()
    inner = opt._cache

    class Gate:
        def __getattr__(self, k):
            return getattr(inner, k)

        def __contains__(self, k):
            return k in inner

        def __getitem__(self, k):
            return inner[k]

        def __setitem__(self, k, v):
            if threading.current_thread().name == "verif-A":
                at_store.set()
                b_done.wait(20)
            inner[k] = v

    opt._cache = Gate()
    res = {}

    def run(name):
        try:
            res[name] = opt.search(*nets[name])
        except Exception as e:  # noqa: BLE001
            res[name] = e

    ta = threading.Thread(target=run, args=("A",), name="verif-A")
    tb = threading.Thread(target=run, args=("B",), name="verif-B")
    ta.start()
    at_store.wait(20)
    tb.start()
    tb.join(60)
    b_done.set()
    ta.join(60)
    problems = []
    for name in ("A", "B"):
        t = res.get(name)
        ins, out, size_dict = nets[name]
        if isinstance(t, Exception) or t is None:
            problems.append((f"query {name} raised / did not finish", repr(t)[:120]))
        elif [tuple(x) for x in t.inputs] != [tuple(x) for x in ins] or tuple(t.output) != tuple(out) or not t.is_complete():
            problems.append((f"two threads, one optimizer: query {name} ({len(ins)} tensors) was answered with a tree over {t.N} tensors (the other thread's contraction)", kind))
    return problems


def replay(case):
    if "two_threads" in case:
        p = run_two_threads(case["two_threads"])
        return (not p), ("; ".join(f"{c} [{d}]" for c, d in p) or "each thread got a tree of its own contraction")
    if "net" in case:
        return _replay_fingerprint(case)
    if "diskdict" in case:
        p = run_diskdict(case["diskdict"])
        return (not p), ("; ".join(f"{c} [{d}]" for c, d in p) or "DiskDict behaved like a dict")
    if "reload" in case:
        p = run_reload(case["reload"])
        return (not p), ("; ".join(f"{c} [{d}]" for c, d in p) or "fresh process answered from the cache")
    out = run_seq(case)
    if out["problems"]:
        return False, "; ".join(f"{c} [{d}]" for c, d in out["problems"]) + " :: " + _desc(case)
    return True, "all C14 postconditions held :: " + _desc(case)


def _configs(tier):
    """(config, pool, max_len, with_cache_only) tuples."""
    quick = tier == "quick"
    out = []
    L = 3 if quick else 4
    # main configurations over the full pool
    for kind in ("hyper", "rgreedy"):
        for h in ("a", "b"):
            for ow in (False, True, "improved"):
                out.append(({"kind": kind, "hash": h, "dir": False, "split": "auto", "overwrite": ow, "mode": "search"}, POOL_FULL, L if (quick or kind == "hyper") else 3, False))
    # full cross product of the storage options over a smaller pool
    for h in ("a", "b"):
        for d in (False, True):
            for split in ((True, False, "auto") if d else ("auto",)):
                for ow in (False, True, "improved"):
                    combos = ((None, "search"), (4, "mixed")) if quick else ((None, "search"), (None, "mixed"), (4, "search"), (4, "mixed"))
                    for sl, mode in combos:
                        out.append(({"kind": "hyper", "hash": h, "dir": d, "split": split, "overwrite": ow, "slicing": sl, "mode": mode}, POOL_SMALL, 3, False))
    # cache_only, with the switch at every position
    for h in ("a", "b"):
        for d in (False, True):
            for ow in (False, True, "improved"):
                for kind in ("hyper", "rgreedy"):
                    out.append(({"kind": kind, "hash": h, "dir": d, "split": (False if d else "auto"), "overwrite": ow, "mode": "search",
                                 "slicing": (4 if (kind == "hyper" and d) else None)}, POOL_TINY, 3 if quick else 4, True))
    return out


def build_cases(tier):
    cases_by_scope = []
    for cfg, pool, L, with_co in _configs(tier):
        cs = []
        for ln in range(1, L + 1):
            for seqv in itertools.product(range(len(pool)), repeat=ln):
                if with_co:
                    for k in range(0, ln):
                        cs.append({"cfg": cfg, "pool": pool, "seq": list(seqv), "cache_only_from": k})
                else:
                    cs.append({"cfg": cfg, "pool": pool, "seq": list(seqv)})
        cases_by_scope.append((cfg, pool, L, with_co, cs))
    return cases_by_scope


def _run_bounded(rep: Report, tier: str) -> None:
    quick = tier == "quick"
    dl = deadline(tier, 300, 1800)
    rng = random.Random(seed() * 101 + 14)
    rep.rule = (
        "a case = (optimizer kind, hash_method, directory?, directory_split, overwrite, slicing, search/__call__ mode, cache_only switch "
        "position, sequence of pool variants); distinct by that tuple; non-trivial iff at least one query of the sequence was answered for "
        "a contraction equivalent (under the hash scheme's own equivalence) to one asked earlier, i.e. the cache was actually consulted. "
        "DiskDict cases are non-trivial iff they contain a reload; reload cases always."
    )
    nviol = 0

    def add(sig, case, detail):
        nonlocal nviol
        if nviol < 5 and rep.violation(sig, {"module": MOD, "case": case, "detail": detail}):
            nviol += 1

    # ---- fingerprints -----------------------------------------------------
    probs, pairs, eq_a, eq_b = check_fingerprints(160 if quick else 500, rng)
    rep.count(pairs)
    rep.fired("fingerprint_iff_canonical", 2 * pairs)
    rep.scope("fingerprints: all pairs of the variant pool + seeded compositions of the 9 edit kinds", pairs, False,
              f"{pairs} pairs ({eq_a} 'a'-equivalent, {eq_b} 'b'-equivalent non-identical pairs), fresh string objects on every side")
    for chk, c in probs:
        add(f"C14 {chk} :: {eq_str(c['net'][0], c['net'][1])} sizes={sorted(c['net'][2].items())}"
            + (f" vs {eq_str(c['net2'][0], c['net2'][1])} sizes={sorted(c['net2'][2].items())}" if "net2" in c else ""),
            {"net": [c["net"][0], c["net"][1], c["net"][2]], **({"net2": [c["net2"][0], c["net2"][1], c["net2"][2]]} if "net2" in c else {})}, "")

    # ---- query sequences --------------------------------------------------
    groups = {}
    stop = False
    allcases = []
    for cfg, pool, L, with_co, cases in build_cases(tier):
        gname = ("cache_only switch at every position; " if with_co else "") + f"all sequences of length <= {L} over a pool of {len(pool)}"
        g = groups.setdefault(gname, {"cfgs": 0, "done": 0, "total": 0})
        g["cfgs"] += 1
        g["total"] += len(cases)
        for c in cases:
            c["g"] = gname
        allcases.extend(cases)
    nseq = 0
    for st, res in pmap(_work, allcases, chunk=24):
        if st == "crash":
            rep.crash(f"C14 worker: {res[:1500]}")
            continue
        n, key, viol, fired, info = res
        groups[info["g"]]["done"] += n
        nseq += n
        rep.count(n)
        if key is not None:
            rep.nontrivial_case(key)
        for k, v in fired.items():
            rep.fired(k, v)
        for sig, case, detail in viol:
            add(sig, case, detail)
        if key is not None and (nseq % 4999 == 0 or not rep.samples):
            rep.sample(info)
        if time.time() > dl or nviol >= 5:
            stop = True
            break
    for gname, g in groups.items():
        rep.scope(f"query sequences through one optimizer: {gname}", g["done"], g["done"] == g["total"],
                  f"{g['cfgs']} configurations (kind x hash_method x directory x directory_split x overwrite x slicing x search/call); "
                  f"{g['done']}/{g['total']} sequences run")

    # ---- DiskDict alone ---------------------------------------------------
    dd_cases = []
    ops = [("set", k, k % len(_DD_VALS)) for k in range(len(_DD_KEYS))] + [("set", 0, 3)] + [("get", k, 0) for k in range(len(_DD_KEYS))] \
        + [("has", k, 0) for k in (0, 1, 2)] + [("reload", 0, 0)]
    for ln in (1, 2, 3) if quick else (1, 2, 3, 4):
        for seqv in itertools.product(ops, repeat=ln):
            if ln == 4 and rng.random() > 0.1:
                continue
            for d in (True, False):
                dd_cases.append({"ops": [list(o) for o in seqv], "dir": d})
    done = 0
    if not stop:
        for st, res in pmap(_work_dd, dd_cases, chunk=64):
            if st == "crash":
                rep.crash(f"C14 diskdict worker: {res[:1000]}")
                continue
            n, key, viol, fired, info = res
            done += n
            rep.count(n)
            if key is not None:
                rep.nontrivial_case(key)
            for k, v in fired.items():
                rep.fired(k, v)
            for sig, case, detail in viol:
                add(sig, case, detail)
    rep.scope("DiskDict vs a dict model: all op sequences (set/get/contains/reload, str and tuple keys) of length <= 3", done,
              done == len(dd_cases) and quick, f"{len(ops)} concrete ops, memory and directory")

    # ---- fresh-process reload --------------------------------------------
    rl = []
    for h in ("a", "b"):
        for split in (True, False):
            for kind, sl in (("hyper", None), ("hyper", 4), ("rgreedy", None)):
                if not quick or (kind, sl) != ("rgreedy", None) or h == "a":
                    rl.append({"cfg": {"kind": kind, "hash": h, "dir": True, "split": split, "overwrite": False, "slicing": sl, "mode": "search"},
                               "queries": ["base", "size-changed", "perm-both", "labels-swapped", "index-moved"],
                               "child_splits": [split, "auto"], "hashseed": str(rng.choice([0, 1, 12345]))})
    done = 0
    if not stop:
        for st, res in pmap(_work_reload, rl, chunk=1):
            if st == "crash":
                rep.crash(f"C14 reload worker: {res[:1500]}")
                continue
            n, key, viol, fired, info = res
            done += n
            rep.count(n)
            rep.nontrivial_case(key)
            for k, v in fired.items():
                rep.fired(k, v)
            for sig, case, detail in viol:
                add(sig, case, detail)
    rep.scope("fresh interpreter pointed at a written cache directory (same split / 'auto'; search and __call__)", done, False,
              f"{done} directories x 2 child layouts x 2 modes, 5 queries each; spy on _run_optimizer in the child")

    # one optimizer shared by two threads, completion order pinned (the per-thread 'last run' slot)
    done = 0
    for kind in ("rgreedy", "hyper"):
        probs = run_two_threads(kind)
        done += 1
        rep.count(1)
        rep.nontrivial_case(f"two-threads:{kind}")
        rep.fired("two threads sharing one optimizer each get a tree of their own query", 1)
        for c, d in probs:
            add(f"C14 {c}", {"two_threads": kind}, d)
    rep.scope("one reusable optimizer shared by two threads, thread A held at its cache write while thread B runs its whole query", done, False,
              "2 optimizer kinds x 1 pinned completion order (the full schedule exploration is C16's)")

    rep.explanation += (
        "C14 bounded: pool of near-identical contractions (indices permuted in a tensor / in the output, one size changed, inputs "
        "reordered, an index renamed, an output index added/removed, an index moved to another tensor, two labels swapped), always rebuilt "
        "from fresh multi-character string objects. Every sequence (length <= 3 quick, <= 4 thorough) goes through one "
        "ReusableHyperOptimizer(max_repeats=4, optlib='random') or ReusableRandomGreedyOptimizer(max_repeats=4); per query: tree is a "
        "complete tree of THAT query (inputs in queried index order, output, sizes, N), path valid, sliced_inds and score equal the entry "
        "stored under its fingerprint, entry file where a reader looks and equal to memory; searches counted by a spy on _run_optimizer "
        "against an independent model (search iff no equivalent contraction seen before, or overwrite); repeats return the same order; "
        "'improved' never worsens the stored score; cache_only never searches and raises KeyError exactly on misses; a second optimizer "
        "with directory_split='auto' and a fresh interpreter answer from the directory without searching. Fingerprint equality <=> "
        "canonical-form equality for both schemes over all pairs of a generated pool. Under hash 'b' the score check applies only when "
        "the query is index-order-equivalent to the one that produced the entry (other sharers get a valid path of the right length). "
    )
    rep.assumptions.append("C14: the model of 'equivalent contraction' is canon_a / canon_b of this driver (written from the property statement)")
    rep.trusted_base.append("pickle round trip of small dicts; tempfile directories on the local file system")


def run_bounded(rep: Report, tier: str) -> None:
    with run_tmpbase("c14run-"):
        _run_bounded(rep, tier)


if __name__ == "__main__":
    if "--child" in sys.argv:
        _child_main()
