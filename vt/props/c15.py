"""C15 driver (see DESIGN.md section 3, C15)."""
from .generic import run_property, replay_property


def run(tier):
    return run_property("C15", tier)


def replay(path):
    return replay_property("C15", path)
