"""C15 bounded driver: a crash while writing the on-disk cache never poisons
later runs.

The writer runs in a child process (forked from a warm template for the
exhaustive part, a real fresh interpreter for a sample) whose file-system calls
under the cache directory are instrumented FROM THE HARNESS SIDE (nothing in
/repo): ``open`` (the returned file object is wrapped), ``os.replace``,
``os.rename``, ``os.unlink`` and ``os.mkdir``.  A first, recording run learns
the effect trace (mkdir / open / write(n bytes) / close / replace ...); then the
writer is killed with ``os._exit(17)``

* before every effect of the trace and after the last one (system-call
  boundaries: before/after mkdir of the split sub-directory, before open, after
  open/before the first write, after the last write/before close, after
  close/before os.replace, after os.replace), under two buffer models
  ("flush": every completed write reached the file; "lazy": nothing reaches the
  file before close), and
* after exactly k bytes of every write, for EVERY k.

After each crash two fresh readers (same layout, then directory_split='auto')
ask the same query and the earlier ones.
"""

from __future__ import annotations

import builtins
import io
import json
import os
import pickle
import random
import re
import shutil
import sys
import tempfile
import time
import traceback

from ..common import Report, deadline, pmap, seed
from ._optutil import mk_tmp, run_tmpbase, path_is_valid, quiet, rand_net, run_child, seed_globals, tree_query_mismatch

MOD = "vt.props.c15_bounded"
EXIT_CRASH = 17

# ---------------------------------------------------------------------------
# instrumentation (installed in the CHILD only)
# ---------------------------------------------------------------------------


class _Ctl:
    def __init__(self, root, point=None, policy="flush", record=False):
        self.root = os.path.realpath(root)
        self.point = tuple(point) if point is not None else None
        self.policy = policy
        self.record = record
        self.trace = []
        self.n = 0

    def under(self, p):
        try:
            if isinstance(p, int):
                return False
            p = os.path.realpath(os.fspath(p))
        except TypeError:
            return False
        return p == self.root or p.startswith(self.root + os.sep)

    def rel(self, p):
        return os.path.relpath(os.path.realpath(os.fspath(p)), self.root)

    def die(self):
        os._exit(EXIT_CRASH)

    def event(self, kind, *info):
        idx = self.n
        self.n += 1
        if self.record:
            self.trace.append([kind] + [str(i) if not isinstance(i, int) else i for i in info])
        if self.point is not None and self.point[0] == "before" and self.point[1] == idx:
            self.die()
        return idx


class _FileProxy:
    def __init__(self, ctl, real, rel):
        object.__setattr__(self, "_c", ctl)
        object.__setattr__(self, "_f", real)
        object.__setattr__(self, "_rel", rel)

    def write(self, data):
        c = self._c
        data = bytes(data) if not isinstance(data, (bytes, str)) else data
        idx = c.event("write", self._rel, len(data))
        if c.point is not None and c.point[0] == "bytes" and c.point[1] == idx:
            k = c.point[2]
            self._f.write(data[:k])
            self._f.flush()
            c.die()
        r = self._f.write(data)
        if c.policy == "flush":
            self._f.flush()
        return r

    def writelines(self, lines):
        for ln in lines:
            self.write(ln)

    def close(self):
        if not self._f.closed:
            self._c.event("close", self._rel)
        return self._f.close()

    def __enter__(self):
        return self

    def __exit__(self, *a):
        self.close()
        return False

    def __getattr__(self, name):
        return getattr(self._f, name)

    def __iter__(self):
        return iter(self._f)


def install(ctl):
    real_open = builtins.open
    real_replace, real_rename, real_unlink, real_mkdir = os.replace, os.rename, os.unlink, os.mkdir

    def v_open(file, mode="r", *a, **k):
        if ctl.under(file) and any(ch in mode for ch in "wax+"):
            rel = ctl.rel(file)
            ctl.event("open", rel, mode)
            f = real_open(file, mode, *a, **k)
            return _FileProxy(ctl, f, rel)
        return real_open(file, mode, *a, **k)

    def v_replace(src, dst, *a, **k):
        if ctl.under(dst) or ctl.under(src):
            ctl.event("replace", ctl.rel(src), ctl.rel(dst))
        return real_replace(src, dst, *a, **k)

    def v_rename(src, dst, *a, **k):
        if ctl.under(dst) or ctl.under(src):
            ctl.event("rename", ctl.rel(src), ctl.rel(dst))
        return real_rename(src, dst, *a, **k)

    def v_unlink(p, *a, **k):
        if ctl.under(p):
            ctl.event("unlink", ctl.rel(p))
        return real_unlink(p, *a, **k)

    def v_mkdir(p, *a, **k):
        if ctl.under(p):
            ctl.event("mkdir", ctl.rel(p))
        return real_mkdir(p, *a, **k)

    builtins.open = v_open
    io.open = v_open
    os.replace = v_replace
    os.rename = v_rename
    os.unlink = v_unlink
    os.remove = v_unlink
    os.mkdir = v_mkdir


# ---------------------------------------------------------------------------
# jobs run inside children
# ---------------------------------------------------------------------------

_OLD = {"path": ((0, 1), (0, 1)), "score": 1.0, "sliced_inds": ()}
_NEW = {"path": ((1, 2), (0, 1)), "score": 0.5, "sliced_inds": ("bq",), "pad": "x" * 40}
_NB = [{"path": ((0, 2), (0, 1)), "score": 2.0, "sliced_inds": ()}, {"path": ((0, 1), (0, 1)), "score": 3.5, "sliced_inds": ("zz",)}]


def _dd_keys(split):
    if split:
        return ("ab", "0123456789abcdef0123456789abcdef012345"), [("ab", "ffff456789abcdef0123456789abcdef012345"), ("cd", "0123456789abcdef0123456789abcdef012345")]
    return "ab0123456789abcdef0123456789abcdef012345", ["abffff456789abcdef0123456789abcdef012345", "cd0123456789abcdef0123456789abcdef012345"]


_QUERIES = {"main": (5, 3, 1, 0, 0, 2, 3, 11), "nb1": (5, 2, 2, 0, 0, 2, 3, 12), "nb2": (6, 3, 0, 1, 0, 2, 3, 13)}


def _hyper(directory, split, overwrite=False):
    import cotengra as ctg

    return ctg.ReusableHyperOptimizer(directory=directory, max_repeats=2, optlib="random", parallel=False, directory_split=split,
                                      overwrite=overwrite, on_trial_error="ignore")


def job_prepare(job):
    """Bring the directory into the pre-crash state (uninstrumented)."""
    d, scn = job["dir"], job["scn"]
    seed_globals(101)
    out = {"paths": {}, "main_rel": None}
    with quiet():
        if scn["writer"] == "diskdict":
            from cotengra.utils import DiskDict

            dd = DiskDict(d)
            key, nbs = _dd_keys(scn["split"])
            out["main_rel"] = "/".join(key) if isinstance(key, tuple) else key
            if "neighbours" in scn["state"]:
                for k, v in zip(nbs, _NB):
                    dd[k] = v
            if "overwrite" in scn["state"]:
                dd[key] = _OLD
        else:
            opt = _hyper(d, scn["split"])
            names = (["nb1", "nb2"] if "neighbours" in scn["state"] else []) + (["main"] if "overwrite" in scn["state"] else [])
            for nm in names:
                ins, o, sd = rand_net(*_QUERIES[nm])
                t = opt.search(ins, o, sd)
                out["paths"][nm] = [list(map(list, t.get_path())), list(t.sliced_inds)]
            # where a reader will look for the main query (only to tell the target entry from its neighbours)
            h, _missing = opt.hash_query(*rand_net(*_QUERIES["main"]))
            out["main_rel"] = "/".join(h) if isinstance(h, tuple) else h
    return out


def job_writer(job):
    """The process that dies.  Installs the instrumentation, then stores."""
    d, scn = job["dir"], job["scn"]
    ctl = _Ctl(d, point=job.get("point"), policy=job.get("policy", "flush"), record=job.get("record", False))
    seed_globals(202)
    install(ctl)
    with quiet():
        if scn["writer"] == "diskdict":
            from cotengra.utils import DiskDict

            dd = DiskDict(d)
            key, _ = _dd_keys(scn["split"])
            dd[key] = _NEW
        else:
            opt = _hyper(d, scn["split"], overwrite=("overwrite" in scn["state"]))
            ins, o, sd = rand_net(*_QUERIES["main"])
            opt.search(ins, o, sd)
    if ctl.point is not None and ctl.point[0] == "end":
        ctl.die()
    return {"trace": ctl.trace, "events": ctl.n}


def job_reader(job):
    """A fresh process pointed at the directory after the crash."""
    d, scn = job["dir"], job["scn"]
    split = job["split"]
    seed_globals(303 + job.get("which", 0))
    out = {"answers": {}, "errors": [], "searched": {}, "split": None}
    with quiet():
        if scn["writer"] == "diskdict":
            from cotengra.utils import DiskDict

            dd = DiskDict(d)
            key, nbs = _dd_keys(scn["split"])
            for nm, k in [("main", key)] + [(f"nb{i + 1}", k) for i, k in enumerate(nbs)]:
                try:
                    if k in dd:
                        out["answers"][nm] = ["value", repr(dd[k])]
                    else:
                        out["answers"][nm] = ["absent", None]
                        try:
                            dd[k]
                            out["errors"].append(f"{nm}: key reported absent but __getitem__ returned a value")
                        except KeyError:
                            pass
                except Exception as e:  # noqa: BLE001
                    out["errors"].append(f"{nm}: DiskDict raised {type(e).__name__}: {e}")
        else:
            try:
                opt = _hyper(d, split)
            except Exception as e:  # noqa: BLE001
                out["errors"].append(f"constructing the optimizer raised {type(e).__name__}: {e}")
                return out
            out["split"] = opt.directory_split
            count = {"n": 0}
            orig = opt._run_optimizer

            def spy(*a, **k):
                count["n"] += 1
                return orig(*a, **k)

            opt._run_optimizer = spy
            for nm in job["queries"]:
                ins, o, sd = rand_net(*_QUERIES[nm])
                n0 = count["n"]
                try:
                    t = opt.search(ins, o, sd)
                    why = tree_query_mismatch(t, ins, o, sd)
                    if why:
                        out["errors"].append(f"{nm}: {why}")
                    out["answers"][nm] = [list(map(list, t.get_path())), list(t.sliced_inds)]
                except Exception as e:  # noqa: BLE001
                    out["errors"].append(f"{nm}: search raised {type(e).__name__}: {e}")
                out["searched"][nm] = count["n"] - n0
    return out


_JOBS = {"prepare": job_prepare, "writer": job_writer, "reader": job_reader}


def fork_call(which, job):
    """Run a job in a forked child of this (warm, cotengra imported, no cache
    object alive) process.  Returns (exit_code, result | error text)."""
    r, w = os.pipe()
    pid = os.fork()
    if pid == 0:
        code = 0
        try:
            os.close(r)
            try:
                res = _JOBS[which](job)
                payload = pickle.dumps(("ok", res))
            except BaseException:  # noqa: BLE001
                payload = pickle.dumps(("err", traceback.format_exc(limit=8)))
                code = 3
            os.write(w, payload)
            os.close(w)
        finally:
            os._exit(code)
    os.close(w)
    chunks = []
    while True:
        b = os.read(r, 65536)
        if not b:
            break
        chunks.append(b)
    os.close(r)
    _, status = os.waitpid(pid, 0)
    code = os.waitstatus_to_exitcode(status)
    data = b"".join(chunks)
    if data:
        kind, res = pickle.loads(data)
        return code, res
    return code, None


def sub_call(which, job):
    """Same, in a real fresh interpreter."""
    rc, so, se = run_child(["--job", which], input_bytes=json.dumps(job).encode(), module=MOD, env={"PYTHONHASHSEED": "0"})
    if so:
        try:
            return rc, json.loads(so)
        except ValueError:
            pass
    return rc, (se.decode()[-800:] if rc not in (0, EXIT_CRASH) else None)


def _child_main(argv):
    which = argv[argv.index("--job") + 1]
    job = json.load(sys.stdin)
    res = _JOBS[which](job)
    sys.stdout.write(json.dumps(res))
    sys.stdout.flush()


# ---------------------------------------------------------------------------
# one crash point
# ---------------------------------------------------------------------------

_HEX40 = re.compile(r"^[0-9a-f]{40}$")
_SPLIT = re.compile(r"^[0-9a-f]{2}/[0-9a-f]{38}$")


def _snapshot(d):
    files = {}
    for root, _dirs, fs in os.walk(d):
        for f in fs:
            p = os.path.join(root, f)
            with open(p, "rb") as fh:
                files[os.path.relpath(p, d)] = fh.read()
    return files


def _is_entry_name(rel, scn):
    if scn["writer"] == "diskdict":
        key, nbs = _dd_keys(scn["split"])
        names = {"/".join(k) if isinstance(k, tuple) else k for k in [key] + nbs}
        return rel in names
    return bool(_HEX40.match(rel) or _SPLIT.match(rel))


def _complete_pickle(b):
    try:
        f = io.BytesIO(b)
        v = pickle.load(f)
        return f.read() == b"", v
    except Exception:  # noqa: BLE001
        return False, None


def run_point(case):
    """case: {scn, point, policy, proc: 'fork'|'subprocess'}"""
    scn = case["scn"]
    call = fork_call if case.get("proc", "fork") == "fork" else sub_call
    problems = []
    info = {"leftovers": 0, "reached": False, "entry_state": None}
    d = mk_tmp("c15-")
    try:
        base = {"dir": d, "scn": scn}
        rc, prep = call("prepare", base)
        if rc != 0:
            return {"problems": [], "info": info, "crash": f"prepare failed rc={rc}: {prep}"}
        before = _snapshot(d)
        rc, w = call("writer", {**base, "point": case["point"], "policy": case["policy"]})
        if rc == 0:
            info["reached"] = False  # the writer finished without reaching the crash point
        elif rc == EXIT_CRASH:
            info["reached"] = True
        else:
            return {"problems": [], "info": info, "crash": f"writer failed rc={rc}: {w}"}
        after = _snapshot(d)

        # ---- the directory itself -----------------------------------------
        for rel, content in after.items():
            if _is_entry_name(rel, scn):
                ok, v = _complete_pickle(content)
                if not ok:
                    problems.append(("a file with an entry name is not a complete pickle after the crash", f"{rel}: {len(content)} bytes"))
                elif scn["writer"] == "diskdict":
                    key, nbs = _dd_keys(scn["split"])
                    kn = "/".join(key) if isinstance(key, tuple) else key
                    if rel == kn and v not in (_OLD, _NEW):
                        problems.append(("the entry holds a value that was never stored", rel))
                elif not (isinstance(v, dict) and {"path", "score", "sliced_inds"} <= set(v)):
                    problems.append(("an entry file does not hold a stored contraction", rel))
            else:
                info["leftovers"] += 1
        main_rel = prep["main_rel"]
        for rel, content in before.items():
            if rel == main_rel:
                if rel not in after:
                    problems.append(("the existing entry vanished while being overwritten", rel))
                continue  # content: old or new, checked above (complete pickle of a stored value)
            if rel not in after:
                problems.append(("an entry stored before the crash disappeared", rel))
            elif after[rel] != content:
                problems.append(("an entry stored before the crash was modified", rel))
        if scn["writer"] == "diskdict":
            key, _ = _dd_keys(scn["split"])
            kn = "/".join(key) if isinstance(key, tuple) else key
            if kn in after:
                _ok, v = _complete_pickle(after[kn])
                info["entry_state"] = "new" if v == _NEW else ("old" if v == _OLD else "bad")
            else:
                info["entry_state"] = "absent"

        # ---- two fresh readers --------------------------------------------
        queries = ["main"] + (["nb1", "nb2"] if "neighbours" in scn["state"] else [])
        for which, split in enumerate((scn["split"], "auto")):
            rc, res = call("reader", {**base, "split": split, "queries": queries, "which": which})
            tag = f"fresh reader #{which + 1} (directory_split={split!r})"
            if rc != 0 or not isinstance(res, dict):
                problems.append((f"{tag} died", f"rc={rc}: {str(res)[-400:]}"))
                continue
            for e in res["errors"]:
                problems.append((f"{tag}: {e.split(':')[0]} failed", e))
            if scn["writer"] == "diskdict":
                a = res["answers"]
                if "main" in a and a["main"][0] == "value" and a["main"][1] not in (repr(_OLD), repr(_NEW)):
                    problems.append((f"{tag} got a value that was never stored", a["main"][1]))
                if "main" in a and a["main"][0] == "absent" and "overwrite" in scn["state"]:
                    problems.append((f"{tag} no longer finds the entry that was being overwritten", ""))
                if "neighbours" in scn["state"]:
                    for i, v in enumerate(_NB):
                        got = a.get(f"nb{i + 1}")
                        if got is not None and got != ["value", repr(v)]:
                            problems.append((f"{tag}: entry stored before the crash is not readable/equal", f"nb{i + 1}: {got}"))
            else:
                if split == "auto" and before and res.get("split") != scn["split"]:
                    problems.append((f"{tag} detected layout split={res.get('split')!r} but the cache was written with split={scn['split']!r}", ""))
                for nm in queries:
                    if nm == "main":
                        continue
                    exp = prep["paths"].get(nm)
                    if res["searched"].get(nm):
                        problems.append((f"{tag} searched again for a contraction stored before the crash", nm))
                    elif nm in res["answers"] and exp is not None and res["answers"][nm] != exp:
                        problems.append((f"{tag}: entry stored before the crash answers with another path", f"{nm}: {res['answers'][nm]} vs {exp}"))
            if which == 0:
                mid = _snapshot(d)
                for rel, content in mid.items():
                    if _is_entry_name(rel, scn) and not _complete_pickle(content)[0]:
                        problems.append(("a file with an entry name is not a complete pickle after the first reader", rel))
    finally:
        shutil.rmtree(d, ignore_errors=True)
    return {"problems": problems, "info": info}


def _scn_desc(scn):
    return f"writer={scn['writer']} layout={'split' if scn['split'] else 'flat'} state={scn['state']}"


def _desc(case):
    return f"{_scn_desc(case['scn'])} crash={case['point']} buffer={case['policy']} proc={case.get('proc', 'fork')} trace={case.get('at', '')}"


def _work(case):
    out = run_point(case)
    if out.get("crash"):
        raise RuntimeError(out["crash"] + " :: " + _desc(case))
    viol = [(f"C15 {chk} :: {_desc(case)}", {k: v for k, v in case.items()}, det) for chk, det in out["problems"][:2]]
    key = json.dumps([case["scn"], case["point"], case["policy"], case.get("proc", "fork")], sort_keys=True) if out["info"]["reached"] else None
    return (1, key, viol, out["info"], _desc(case))


def learn_trace(scn):
    d = mk_tmp("c15l-")
    try:
        rc, _ = fork_call("prepare", {"dir": d, "scn": scn})
        if rc != 0:
            raise RuntimeError(f"prepare failed for {scn}")
        rc, res = fork_call("writer", {"dir": d, "scn": scn, "record": True, "policy": "flush"})
        if rc != 0:
            raise RuntimeError(f"recording writer failed for {scn}: {res}")
        return res["trace"]
    finally:
        shutil.rmtree(d, ignore_errors=True)


def _norm(x):
    """Process/thread ids out of temporary-file names (deterministic signatures)."""
    return re.sub(r"(\.\d+)+\.tmp", ".<pid>.tmp", str(x))


def points_for(trace):
    """[(point, policy, label)] for a recorded effect trace."""
    pts = []
    for idx, ev in enumerate(trace):
        label = _norm(f"before #{idx} {ev[0]}({', '.join(map(str, ev[1:]))})")
        for pol in ("flush", "lazy"):
            pts.append((["before", idx], pol, label))
        if ev[0] == "write":
            n = ev[2]
            for k in range(1, n + 1):
                pts.append((["bytes", idx, k], "flush", f"after {k}/{n} bytes of write #{idx}"))
    for pol in ("flush", "lazy"):
        pts.append((["end"], pol, "after the last effect"))
    return pts


SCENARIOS = [
    {"writer": w, "split": s, "state": st}
    for w in ("diskdict", "hyper")
    for s in (False, True)
    for st in (("new", "overwrite", "new+neighbours", "overwrite+neighbours") if w == "diskdict" else ("new", "new+neighbours", "overwrite+neighbours"))
]


def replay(case):
    out = run_point(case)
    if out.get("crash"):
        return True, "harness failure: " + out["crash"]
    if out["problems"]:
        return False, "; ".join(f"{c} [{d}]" for c, d in out["problems"]) + " :: " + _desc(case)
    return True, f"recovered (crash point reached: {out['info']['reached']}, leftovers: {out['info']['leftovers']}) :: " + _desc(case)


def _run_bounded(rep: Report, tier: str) -> None:
    import cotengra  # noqa: F401  (warm template for the forked children)

    quick = tier == "quick"
    dl = deadline(tier, 300, 1200)
    rng = random.Random(seed() * 17 + 15)
    rep.rule = (
        "a case = (writer kind, directory layout, pre-crash state, crash point in the recorded effect trace [before effect i | after k "
        "bytes of write i | after the last effect], buffer model, fork/subprocess); distinct by that tuple; non-trivial iff the writer was "
        "actually killed at that point (exit status 17), i.e. the crash point was reached."
    )
    cases = []
    traces = {}
    for scn in SCENARIOS:
        try:
            tr = learn_trace(scn)
        except Exception as e:  # noqa: BLE001
            rep.crash(f"C15 could not record the effect trace for {scn}: {e}")
            continue
        traces[_scn_desc(scn)] = [[_norm(x) if isinstance(x, str) else x for x in ev] for ev in tr]
        pts = points_for(tr)
        for point, pol, label in pts:
            cases.append({"scn": scn, "point": point, "policy": pol, "proc": "fork", "at": label})
    # a sample through real fresh interpreters (writer and both readers)
    boundary = [c for c in cases if c["point"][0] != "bytes"]
    bytepts = [c for c in cases if c["point"][0] == "bytes"]
    sub = rng.sample(boundary, min(len(boundary), 10 if quick else 60)) + rng.sample(bytepts, min(len(bytepts), 6 if quick else 60))
    sub = [{**c, "proc": "subprocess"} for c in sub]
    rep.extra["effect_traces"] = traces
    nviol = 0
    done = {"fork": 0, "subprocess": 0}
    reached = 0
    leftovers = 0
    states = {}
    allcases = cases + sub
    order = list(range(len(allcases)))
    for st, res in pmap(_work, [allcases[i] for i in order], chunk=4):
        if st == "crash":
            rep.crash(f"C15 worker: {res[:1500]}")
            continue
        n, key, viol, info, desc = res
        proc = "subprocess" if "proc=subprocess" in desc else "fork"
        done[proc] += n
        rep.count(n)
        rep.fired("recoverable_after_crash", 1)
        if key is not None:
            rep.nontrivial_case(key)
            reached += 1
        leftovers += 1 if info["leftovers"] else 0
        if info.get("entry_state"):
            states[info["entry_state"]] = states.get(info["entry_state"], 0) + 1
        if (done["fork"] + done["subprocess"]) % 401 == 1:
            rep.sample({"case": desc, **info})
        for sig, case, detail in viol:
            if nviol < 5 and rep.violation(sig, {"module": MOD, "case": case, "detail": detail}):
                nviol += 1
        if time.time() > dl or nviol >= 5:
            break
    rep.scope("kill at every effect boundary (2 buffer models) and after every byte of every write; children forked from a warm template",
              done["fork"], done["fork"] == len(cases),
              f"{len(SCENARIOS)} scenarios (DiskDict[key]=v / ReusableHyperOptimizer(max_repeats=2).search x flat/split x new/overwrite/neighbours); "
              f"{done['fork']}/{len(cases)} crash points")
    rep.scope("same, writer and both readers in real fresh interpreters (subprocess)", done["subprocess"], False,
              f"seeded sample of {len(sub)} crash points")
    rep.extra["crash_points_reached"] = reached
    rep.extra["crash_points_not_reached"] = sum(done.values()) - reached
    rep.extra["runs_with_leftover_temporary_files"] = leftovers
    rep.extra["diskdict_entry_state_after_crash"] = states
    rep.extra["child_processes"] = 4 * sum(done.values()) + 2 * len(SCENARIOS)
    rep.explanation += (
        "C15 bounded: the writer (DiskDict(d)[key]=value, or ReusableHyperOptimizer(directory=d,max_repeats=2,optlib='random').search) runs "
        "in a child whose open/file.write/close/os.replace/os.rename/os.unlink/os.mkdir under d are wrapped from the harness side; a "
        "recording run learns the effect trace, then the child is killed (os._exit(17)) before every effect, after the last, and after "
        "every byte count k of every write (k bytes flushed to the file). Buffer models: 'flush' (every completed write is on disk) and "
        "'lazy' (nothing is on disk before close). After each crash: every file with an entry name (40-hex / 2+38-hex / the DiskDict key) "
        "is absent or a complete pickle of a stored value; files stored before are byte-identical; a fresh reader with the writer's "
        "layout and then one with directory_split='auto' return complete valid trees for the query (from the entry or by searching "
        "again), never raise, answer earlier queries with the earlier paths without searching; leftovers (temporary files) are counted, "
        "not forbidden. Exhaustive part uses os.fork() from a warm process that has cotengra imported but no cache object; a seeded "
        "sample repeats writer and readers in real fresh interpreters. "
    )
    rep.assumptions.append("C15: POSIX rename is atomic; the crash model is process death (os._exit) - data handed to write() and flushed is on disk, "
                           "unflushed data is lost; power loss / fsync ordering is not modelled; writes through os.open/os.write or tempfile are not instrumented")
    rep.trusted_base.append("os.fork/os._exit/os.waitpid; pickle.load rejects every strict prefix of a pickle stream (checked for each partial entry seen)")


def run_bounded(rep: Report, tier: str) -> None:
    with run_tmpbase("c15run-"):
        _run_bounded(rep, tier)


if __name__ == "__main__":
    if "--job" in sys.argv:
        _child_main(sys.argv)
