"""C16 driver (see DESIGN.md section 3, C16)."""
from .generic import run_property, replay_property


def run(tier):
    return run_property("C16", tier)


def replay(path):
    return replay_property("C16", path)
