"""C16 bounded driver: one optimizer object can serve many contractions, in
sequence or across threads.

Sequential: every sequence (length <= 4) of queries over a pool of distinct
small contractions through ONE shared instance of each kind that is offered for
repeated use; every returned tree/path must be for THAT query.

Threads: (a) stress with ``sys.setswitchinterval(1e-6)``; (b) forced schedules:
a cooperative controller serialises the threads and enumerates EVERY ordering of
the marked points (depth-first over the scheduling choices, re-executing from a
fresh instance each time).  There is no ``cotengra.utils._verif_yield`` hook in
the tree (checked with getattr at run time; used if present), so the marked
points are harness-side wrappers installed in the check process only around
``ReusableOptimizer._maybe_run_optimizer``, ``ReusableOptimizer._run_optimizer``
(all subclasses), ``HyperOptimizer._search`` and
``AutoOptimizer._get_optimizer_hyper_threadsafe`` (a yield before and after the
real method).  The schedule quantifier is therefore BOUNDED: interleavings
inside those methods (between two byte codes) are only exercised by the stress
part.
"""

from __future__ import annotations

import itertools
import json
import random
import sys
import threading
import time
import traceback

from ..common import Report, deadline, pmap, seed
from ._optutil import path_is_valid, quiet, rand_net, seed_globals, tree_query_mismatch

MOD = "vt.props.c16_bounded"

# pool: distinct N, some sharing N / shapes / sizes
POOL = [
    (3, 2, 1, 0, 0, 2, 3, 1),
    (4, 3, 2, 0, 0, 2, 3, 2),
    (6, 3, 1, 1, 0, 2, 3, 3),
    (6, 2, 2, 0, 1, 2, 3, 4),
    (8, 3, 2, 0, 0, 2, 3, 5),
]
BIG = [(14, 3, 2, 0, 0, 2, 3, 6), (16, 3, 0, 0, 0, 2, 3, 7), (14, 3, 1, 0, 0, 2, 3, 8)]

_TINY = dict(max_repeats=4, optlib="random", parallel=False, reconf_opts={"subtree_size": 3, "maxiter": 5}, max_time=None)

# ('random-greedy' / 'hyper*' presets build a fresh optimizer per call and, with parallel='auto', a loky process pool - nothing
# is shared between queries, and pools cannot be created inside the forked check workers - so they are not instance kinds here)
STRING_PRESETS = ["auto", "auto-hq", "greedy", "optimal", "optimal-outer", "eager", "opportunistic", "dp", "dynamic-programming", "random"]
PRESET_CALLABLES = ["auto_optimize", "auto_hq_optimize", "greedy_optimize", "optimal_optimize", "optimal_outer_optimize"]


def _canon_labels(inputs, output, size_dict):
    """What array_contract_tree(canonicalize=True) is documented to work on:
    labels replaced by get_symbol(i) in order of first appearance."""
    from cotengra.utils import get_symbol

    m = {}
    for t in inputs:
        for ix in t:
            if ix not in m:
                m[ix] = get_symbol(len(m))
    for ix in output:
        if ix not in m:
            m[ix] = get_symbol(len(m))
    return (tuple(tuple(m[ix] for ix in t) for t in inputs), tuple(m[ix] for ix in output), {m[k]: v for k, v in size_dict.items() if k in m})


def _relabel(net, tag):
    """Same structure, multi-character labels (so the query is not already canonical)."""
    ins, out, sd = net
    f = lambda x: f"{tag}{x}"  # noqa: E731
    return tuple(tuple(f(x) for x in t) for t in ins), tuple(f(x) for x in out), {f(k): v for k, v in sd.items()}


def make_instance(kind):
    """kind: dict describing the shared instance.  Returns (ask, obj) where
    ask(net, mode) -> ('tree', tree, query) | ('path', path, query)."""
    import cotengra as ctg
    from cotengra import presets
    from cotengra.pathfinders.path_basic import ReusableRandomGreedyOptimizer

    k = kind["k"]
    if k == "string":
        name = kind["name"]

        def ask(net, mode):
            ins, out, sd = net
            if mode == "tree-canon":
                q = _canon_labels(ins, out, sd)
                return "tree", ctg.array_contract_tree(ins, out, sd, optimize=name, canonicalize=True), q
            if mode == "path":
                return "path", ctg.array_contract_path(ins, out, sd, optimize=name, canonicalize=False, cache=False), net
            return "tree", ctg.array_contract_tree(ins, out, sd, optimize=name, canonicalize=False), net

        return ask, None
    if k == "callable":
        obj = getattr(presets, kind["name"])
    elif k == "auto":
        kw = dict(_TINY)
        kw["reconf_opts"] = dict(kw["reconf_opts"])
        if kind.get("cutoff") is not None:
            kw["optimal_cutoff"] = kind["cutoff"]
        cls = ctg.AutoHQOptimizer if kind.get("hq") else ctg.AutoOptimizer
        if kind.get("hq"):
            kw["methods"] = ("greedy", "labels")
        obj = cls(cache=kind["cache"], **kw)
    elif k == "rhyper":
        obj = ctg.ReusableHyperOptimizer(max_repeats=4, optlib="random", parallel=False, **kind.get("kw", {}))
    elif k == "rgreedy":
        obj = ReusableRandomGreedyOptimizer(max_repeats=4, parallel=False)
    else:
        raise ValueError(k)

    def ask(net, mode):
        ins, out, sd = net
        if mode == "path":
            return "path", obj(ins, out, sd), net
        return "tree", obj.search(ins, out, sd), net

    return ask, obj


def check_answer(kind_of, ans, query):
    ins, out, sd = query
    if kind_of == "tree":
        return tree_query_mismatch(ans, ins, out, sd)
    try:
        p = tuple(tuple(int(i) for i in s) for s in ans)
    except Exception as e:  # noqa: BLE001
        return f"path is not a sequence of index tuples: {type(e).__name__}"
    if len(ins) == 1 and len(p) == 0:
        return ""
    if not path_is_valid(p, len(ins)):
        return f"path {p} is not a valid path for {len(ins)} tensors"
    return ""


def _kind_desc(kind):
    return ",".join(f"{k}={v}" for k, v in kind.items())


# ---------------------------------------------------------------------------
# sequential
# ---------------------------------------------------------------------------


def _pool_for(kind, seqkey):
    nets = [rand_net(*p) for p in POOL]
    if kind.get("big"):
        # per-sequence sizes so that a process-wide preset cache still misses
        r = random.Random(seqkey)
        big = []
        for p in BIG:
            ins, out, sd = rand_net(*p)
            sd = {k: r.choice([2, 3]) for k in sd}
            big.append((ins, out, sd))
        nets = nets[:2] + big
    if kind.get("relabel"):
        nets = [_relabel(n, "q") for n in nets]
    return nets


def run_sequence(case):
    kind, seq, modes = case["kind"], case["seq"], case["modes"]
    problems = []
    seed_globals(4242 + sum((i + 1) * (q + 3) for i, q in enumerate(seq)))
    nets = _pool_for(kind, json.dumps(seq))
    with quiet():
        ask, _obj = make_instance(kind)
        for pos, (qi, mode) in enumerate(zip(seq, modes)):
            try:
                what, ans, query = ask(nets[qi], mode)
            except Exception as e:  # noqa: BLE001
                problems.append((f"query #{pos} raised {type(e).__name__}", f"{e} | net {POOL[qi] if qi < len(POOL) else qi}"))
                break
            why = check_answer(what, ans, query)
            if why:
                problems.append((f"answer #{pos} ({mode}) is not for the contraction asked (N={len(query[0])})", why))
                break
    return problems


def _seq_desc(case):
    return f"instance[{_kind_desc(case['kind'])}] queries={case['seq']} modes={case['modes']}"


def _work_seq(case):
    problems = run_sequence(case)
    viol = [(f"C16 sequential: {chk} :: {_seq_desc(case)}", case, det) for chk, det in problems[:1]]
    distinct = len(set(case["seq"])) >= 2
    return (1, json.dumps(case, sort_keys=True) if distinct else None, viol, len(case["seq"]), "seq")


def sequential_cases(tier):
    quick = tier == "quick"
    kinds = []
    for name in STRING_PRESETS:
        kinds.append(({"k": "string", "name": name}, ["tree", "tree-canon", "path"]))
    kinds.append(({"k": "string", "name": "auto", "big": True, "relabel": True}, ["tree", "tree-canon"]))
    kinds.append(({"k": "string", "name": "greedy", "big": True}, ["tree"]))
    for name in PRESET_CALLABLES:
        kinds.append(({"k": "callable", "name": name}, ["tree", "path", "mixed"]))
    kinds.append(({"k": "callable", "name": "auto_optimize", "big": True}, ["mixed"]))
    for hq in (False, True):
        for cache in (True, False):
            for cutoff in (0, None):
                kinds.append(({"k": "auto", "hq": hq, "cache": cache, "cutoff": cutoff}, ["tree", "path", "mixed"]))
    kinds.append(({"k": "rhyper"}, ["tree", "path", "mixed"]))
    kinds.append(({"k": "rhyper", "kw": {"hash_method": "b"}}, ["mixed"]))
    kinds.append(({"k": "rhyper", "kw": {"overwrite": True}}, ["mixed"]))
    kinds.append(({"k": "rhyper", "kw": {"slicing_opts": {"target_size": 8}}}, ["tree"]))
    kinds.append(({"k": "rgreedy"}, ["tree", "path", "mixed"]))
    cases = []
    seqs = []
    for ln in (1, 2, 3):
        seqs += list(itertools.product(range(5), repeat=ln))
    seqs += list(itertools.product(range(4), repeat=4))
    if not quick:
        seqs += [s for s in itertools.product(range(5), repeat=4) if 4 in s]
    for kind, modelist in kinds:
        for m in modelist:
            for s in seqs:
                if m == "mixed":
                    modes = [("tree", "path")[(i + s[0]) % 2] for i in range(len(s))]
                else:
                    modes = [m] * len(s)
                cases.append({"kind": kind, "seq": list(s), "modes": modes})
    return cases, len(kinds), len(seqs)


# ---------------------------------------------------------------------------
# forced schedules
# ---------------------------------------------------------------------------


class SchedAbort(Exception):
    pass


class Sched:
    def __init__(self, n, choices, timeout=20.0):
        self.n = n
        self.cv = threading.Condition()
        self.current = None
        self.waiting = {}
        self.finished = set()
        self.choices = list(choices)
        self.trace = []  # (runnable tids, chosen, tag)
        self.tids = {}  # ident -> logical tid
        self.timeout = timeout
        self.aborted = False

    def me(self):
        return self.tids.get(threading.get_ident())

    def point(self, tag):
        tid = self.me()
        if tid is None:
            return
        with self.cv:
            self.waiting[tid] = tag
            self.current = None
            self.cv.notify_all()
            t0 = time.time()
            while self.current != tid:
                if self.aborted or time.time() - t0 > self.timeout:
                    self.aborted = True
                    self.cv.notify_all()
                    raise SchedAbort(tag)
                self.cv.wait(0.5)
            del self.waiting[tid]

    def start(self, tid):
        with self.cv:
            self.tids[threading.get_ident()] = tid
        self.point("start")

    def end(self, tid):
        with self.cv:
            self.finished.add(tid)
            self.current = None
            self.cv.notify_all()

    def drive(self):
        with self.cv:
            t0 = time.time()
            while True:
                while not (self.current is None and len(self.waiting) + len(self.finished) == self.n):
                    if time.time() - t0 > self.timeout * 2:
                        self.aborted = True
                        self.cv.notify_all()
                        return False
                    self.cv.wait(0.5)
                if len(self.finished) == self.n:
                    return True
                runnable = sorted(self.waiting)
                pos = len(self.trace)
                c = self.choices[pos] if pos < len(self.choices) and self.choices[pos] in runnable else runnable[0]
                self.trace.append((tuple(runnable), c, self.waiting[c]))
                self.current = c
                self.cv.notify_all()


_ACTIVE = {"sched": None, "points": ()}


def _wrap(cls, name, tag):
    orig = cls.__dict__[name]

    def wrapper(self, *a, **k):
        s = _ACTIVE["sched"]
        pts = _ACTIVE["points"] if s is not None else ()
        if f"{tag}:pre" in pts:
            s.point(f"{tag}:pre")
        try:
            return orig(self, *a, **k)
        finally:
            if f"{tag}:post" in pts:
                s.point(f"{tag}:post")

    wrapper._verif_orig = orig
    setattr(cls, name, wrapper)
    return (cls, name, orig)


class _patched:
    """Install the marked points (check process only), restore on exit."""

    def __enter__(self):
        from cotengra.hyperoptimizers.hyper import HyperOptimizer, ReusableHyperOptimizer
        from cotengra.pathfinders.path_basic import ReusableRandomGreedyOptimizer
        from cotengra.presets import AutoOptimizer
        from cotengra.reusable import ReusableOptimizer
        import cotengra.utils as cu

        self.undo = []
        self.hook = getattr(cu, "_verif_yield", None)
        self.undo.append(_wrap(ReusableOptimizer, "_maybe_run_optimizer", "maybe"))
        for cls in (ReusableOptimizer, ReusableHyperOptimizer, ReusableRandomGreedyOptimizer):
            if "_run_optimizer" in cls.__dict__:
                self.undo.append(_wrap(cls, "_run_optimizer", "run"))
        self.undo.append(_wrap(HyperOptimizer, "_search", "hsearch"))
        self.undo.append(_wrap(AutoOptimizer, "_get_optimizer_hyper_threadsafe", "getopt"))
        if self.hook is not None:
            def hooked(tag):
                s = _ACTIVE["sched"]
                if s is not None:
                    s.point(f"hook:{tag}")

            self.undo.append((cu, "_verif_yield", self.hook))
            cu._verif_yield = hooked
        return self

    def __exit__(self, *a):
        for cls, name, orig in reversed(self.undo):
            setattr(cls, name, orig)
        _ACTIVE["sched"] = None
        return False


def run_schedule(scn, choices):
    """One execution of scenario ``scn`` under the scheduling choices.
    Returns (problems, trace)."""
    nets = [rand_net(*p) for p in POOL]
    nthreads = len(scn["threads"])
    problems = []
    seed_globals(777)
    with quiet():
        ask, _obj = make_instance(scn["kind"])
        sched = Sched(nthreads, choices)
        _ACTIVE["sched"] = sched
        _ACTIVE["points"] = tuple(scn["points"])
        lock = threading.Lock()

        def body(tid):
            try:
                sched.start(tid)
                for pos, (qi, mode) in enumerate(scn["threads"][tid]):
                    what, ans, query = ask(nets[qi], mode)
                    why = check_answer(what, ans, query)
                    if why:
                        with lock:
                            problems.append((f"thread {tid} answer #{pos} ({mode}, N={len(query[0])}) is not for the contraction it asked", why))
            except SchedAbort:
                pass
            except Exception as e:  # noqa: BLE001
                with lock:
                    problems.append((f"thread {tid} raised {type(e).__name__}", f"{e}"))
            finally:
                sched.end(tid)

        ths = [threading.Thread(target=body, args=(i,), daemon=True) for i in range(nthreads)]
        for t in ths:
            t.start()
        ok = sched.drive()
        for t in ths:
            t.join(5)
        _ACTIVE["sched"] = None
        if not ok or sched.aborted:
            raise RuntimeError(f"C16 schedule controller stalled (scenario {scn['name']}, choices {choices}, trace {sched.trace[-5:]})")
    return problems, sched.trace


def explore(scn, limit, rng=None):
    """Depth-first enumeration of every maximal schedule (stateless search:
    each schedule re-executes the scenario from a fresh instance)."""
    stack = [[]]
    n_exec = 0
    found = []
    max_points = 0
    exhaustive = True
    with _patched():
        while stack:
            if n_exec >= limit:
                exhaustive = False
                break
            prefix = stack.pop()
            problems, trace = run_schedule(scn, prefix)
            n_exec += 1
            max_points = max(max_points, len(trace))
            chosen = [c for _r, c, _t in trace]
            for chk, det in problems[:1]:
                found.append((chk, det, chosen, [f"{c}@{t}" for _r, c, t in trace]))
            if len(found) >= 2:
                exhaustive = False
                break
            for i in range(len(prefix), len(trace)):
                runnable, c, _t = trace[i]
                for alt in runnable:
                    if alt > c:
                        stack.append(chosen[:i] + [alt])
    return n_exec, exhaustive, found, max_points


def _work_explore(job):
    scn, limit = job["scn"], job["limit"]
    n, exhaustive, found, max_points = explore(scn, limit)
    viol = []
    for chk, det, chosen, tags in found:
        case = {"schedule": {"scn": scn, "choices": chosen}}
        viol.append((f"C16 forced schedule: {chk} :: scenario {scn['name']} order={tags}", case, det))
    return (n, json.dumps(scn, sort_keys=True), viol, {"name": scn["name"], "execs": n, "exhaustive": exhaustive, "points": max_points}, "sched")


def _work_sampled(job):
    """Random schedules for scenarios too large to enumerate."""
    scn, count, sd = job["scn"], job["count"], job["seed"]
    rng = random.Random(sd)
    viol = []
    n = 0
    with _patched():
        for _ in range(count):
            choices = [rng.randrange(len(scn["threads"])) for _ in range(200)]
            problems, trace = run_schedule(scn, choices)
            n += 1
            for chk, det in problems[:1]:
                chosen = [c for _r, c, _t in trace]
                viol.append((f"C16 forced schedule: {chk} :: scenario {scn['name']} order={[f'{c}@{t}' for _r, c, t in trace]}",
                             {"schedule": {"scn": scn, "choices": chosen}}, det))
            if viol:
                break
    return (n, json.dumps([scn, sd], sort_keys=True), viol, {"name": scn["name"] + " (sampled)", "execs": n, "exhaustive": False, "points": 0}, "sched")


def schedule_scenarios(tier):
    quick = tier == "quick"
    sc = []

    def add(name, kind, threads, points):
        sc.append({"name": f"{name}, points {points}", "kind": kind, "threads": threads, "points": points})

    T = "tree"
    P = "path"
    one = [[(2, T)], [(4, T)]]
    two = [[(2, T), (1, T)], [(4, T), (3, T)]]
    shared = [[(2, T), (1, T)], [(2, T), (4, T)]]
    mixed = [[(2, P), (1, T)], [(4, T), (3, P)]]
    reusable = (("ReusableHyperOptimizer", {"k": "rhyper"}), ("ReusableRandomGreedyOptimizer", {"k": "rgreedy"}),
                ("ReusableHyperOptimizer(overwrite=True)", {"k": "rhyper", "kw": {"overwrite": True}}),
                ("ReusableHyperOptimizer(overwrite='improved')", {"k": "rhyper", "kw": {"overwrite": "improved"}}))
    for kname, kind in reusable:
        add(f"{kname} 2thr x 1 query", kind, one, ["maybe:pre", "run:pre", "hsearch:post", "run:post", "maybe:post"])
        add(f"{kname} 2thr x 2 queries", kind, two, ["run:post", "maybe:post"])
        add(f"{kname} 2thr x 2 queries", kind, two, ["maybe:pre", "maybe:post"])
        add(f"{kname} 2thr x 2 queries (same first query)", kind, shared, ["run:post", "maybe:post"])
        add(f"{kname} 2thr x 2 queries (search/__call__ mixed)", kind, mixed, ["run:post", "maybe:post"])
        if not quick:
            add(f"{kname} 2thr x 2 queries", kind, two, ["maybe:pre", "run:post", "maybe:post"])
    for kname, kind in (("AutoOptimizer(cache=True,cutoff=0)", {"k": "auto", "hq": False, "cache": True, "cutoff": 0}),
                        ("AutoHQOptimizer(cache=True,cutoff=0)", {"k": "auto", "hq": True, "cache": True, "cutoff": 0})):
        add(f"{kname} 2thr x 1 query", kind, one, ["getopt:pre", "getopt:post", "run:post", "maybe:post"])
        add(f"{kname} 2thr x 2 queries", kind, two, ["getopt:post", "maybe:post"])
        add(f"{kname} 2thr x 2 queries", kind, two, ["run:post", "maybe:post"])
        add(f"{kname} 2thr x 2 queries (same first query)", kind, shared, ["getopt:pre", "maybe:post"])
        add(f"{kname} 2thr x 2 queries (search/__call__ mixed)", kind, mixed, ["run:post", "maybe:post"])
        if not quick:
            add(f"{kname} 2thr x 2 queries", kind, two, ["getopt:post", "run:post", "maybe:post"])
    for kname, kind in (("AutoOptimizer(cache=False,cutoff=0)", {"k": "auto", "hq": False, "cache": False, "cutoff": 0}),
                        ("AutoHQOptimizer(cache=False,cutoff=0)", {"k": "auto", "hq": True, "cache": False, "cutoff": 0})):
        add(f"{kname} 2thr x 1 query", kind, one, ["getopt:pre", "getopt:post", "hsearch:pre", "hsearch:post"])
        add(f"{kname} 2thr x 2 queries", kind, two, ["getopt:post", "hsearch:post"])
        add(f"{kname} 2thr x 2 queries (search/__call__ mixed)", kind, mixed, ["getopt:pre", "hsearch:post"])
    return sc


def replay(case):
    if "schedule" in case:
        s = case["schedule"]
        with _patched():
            problems, trace = run_schedule(s["scn"], s["choices"])
        if problems:
            return False, "; ".join(f"{c} [{d}]" for c, d in problems) + f" :: {s['scn']['name']} order={[f'{c}@{t}' for _r, c, t in trace]}"
        return True, f"schedule held :: {s['scn']['name']}"
    if "stress" in case:
        p = run_stress(case["stress"])
        return (not p), ("; ".join(f"{c} [{d}]" for c, d in p) or "stress run held (schedule not controlled; re-run may differ)")
    problems = run_sequence(case)
    if problems:
        return False, "; ".join(f"{c} [{d}]" for c, d in problems) + " :: " + _seq_desc(case)
    return True, "every answer was for its query :: " + _seq_desc(case)


# ---------------------------------------------------------------------------
# stress
# ---------------------------------------------------------------------------


def run_stress(job):
    kind, nthreads, rounds = job["kind"], job["threads"], job["rounds"]
    nets = _pool_for(kind, "stress")
    problems = []
    lock = threading.Lock()
    old = sys.getswitchinterval()
    seed_globals(job.get("seed", 0))
    with quiet():
        ask, _obj = make_instance(kind)
        barrier = threading.Barrier(nthreads)

        def body(tid):
            r = random.Random(1000 * job.get("seed", 0) + tid)
            try:
                barrier.wait(10)
                for rd in range(rounds):
                    # each thread works on its own contractions: tid-th residue class of the pool, different N per thread at any time
                    qi = (tid + nthreads * r.randrange(8)) % len(nets)
                    mode = job["modes"][r.randrange(len(job["modes"]))]
                    what, ans, query = ask(nets[qi], mode)
                    why = check_answer(what, ans, query)
                    if why:
                        with lock:
                            problems.append((f"thread {tid} round {rd}: answer ({mode}, N={len(query[0])}) is not for the contraction it asked", why))
                        return
            except Exception as e:  # noqa: BLE001
                with lock:
                    problems.append((f"thread {tid} raised {type(e).__name__}", f"{e} {traceback.format_exc(limit=3)}"))

        try:
            sys.setswitchinterval(1e-6)
            ths = [threading.Thread(target=body, args=(i,), daemon=True) for i in range(nthreads)]
            for t in ths:
                t.start()
            for t in ths:
                t.join(120)
        finally:
            sys.setswitchinterval(old)
    return problems


def _work_stress(job):
    problems = run_stress(job)
    viol = [(f"C16 stress: {chk.split(' round ')[0]} :: instance[{_kind_desc(job['kind'])}] threads={job['threads']}", {"stress": job}, det)
            for chk, det in problems[:1]]
    return (job["threads"] * job["rounds"], json.dumps(job, sort_keys=True), viol, {}, "stress")


def stress_jobs(tier):
    quick = tier == "quick"
    kinds = [
        ({"k": "rhyper"}, ["tree", "path"]),
        ({"k": "rhyper", "kw": {"overwrite": True}}, ["tree"]),
        ({"k": "rgreedy"}, ["tree", "path"]),
        ({"k": "auto", "hq": False, "cache": True, "cutoff": 0}, ["tree", "path"]),
        ({"k": "auto", "hq": False, "cache": False, "cutoff": 0}, ["tree", "path"]),
        ({"k": "auto", "hq": True, "cache": True, "cutoff": 0}, ["tree"]),
        ({"k": "auto", "hq": False, "cache": True, "cutoff": None}, ["tree", "path"]),
        ({"k": "string", "name": "auto"}, ["tree", "tree-canon"]),
        ({"k": "string", "name": "auto", "big": True}, ["tree"]),
        ({"k": "string", "name": "auto-hq"}, ["tree", "path"]),
        ({"k": "string", "name": "greedy"}, ["tree", "path"]),
        ({"k": "callable", "name": "auto_optimize", "big": True}, ["tree", "path"]),
    ]
    jobs = []
    for rep_i in range(2 if quick else 10):
        for kind, modes in kinds:
            for nt in (2, 3):
                jobs.append({"kind": kind, "threads": nt, "rounds": 40 if quick else 150, "modes": modes, "seed": rep_i})
    return jobs


# ---------------------------------------------------------------------------


def run_bounded(rep: Report, tier: str) -> None:
    import cotengra as ctg
    import cotengra.utils as cu

    quick = tier == "quick"
    dl = deadline(tier, 300, 1800)
    rep.rule = (
        "sequential case = (instance kind + options, sequence of pool indices, per-query mode search/__call__/array_contract_tree with or "
        "without canonicalisation); non-trivial iff the sequence asks about >= 2 different contractions. Schedule case = one scenario "
        "(instance kind, per-thread query lists, set of marked points), explored over every ordering of its marked points; stress case "
        "= (instance kind, #threads, seed). Distinct by those tuples."
    )
    nviol = 0

    def add(sig, case, detail):
        nonlocal nviol
        if nviol < 5 and rep.violation(sig, {"module": MOD, "case": case, "detail": detail}):
            nviol += 1

    # warm the optional optimisation libraries once, before forking workers
    with quiet():
        try:
            ins, out, sd = rand_net(*BIG[0])
            ctg.array_contract_tree(ins, out, sd, optimize="auto")
        except Exception as e:  # noqa: BLE001
            rep.crash(f"C16 warm-up of the 'auto' preset failed: {type(e).__name__}: {e}")

    # ---- sequential ------------------------------------------------------
    cases, nkinds, nseqs = sequential_cases(tier)
    done = 0
    queries = 0
    for st, res in pmap(_work_seq, cases, chunk=32):
        if st == "crash":
            rep.crash(f"C16 worker: {res[:1500]}")
            continue
        n, key, viol, nq, _ = res
        done += n
        queries += nq
        rep.count(n)
        if key is not None:
            rep.nontrivial_case(key)
        for sig, case, detail in viol:
            add(sig, case, detail)
        if done % 5003 == 1:
            rep.sample({"sequential": _seq_desc(cases[min(done, len(cases) - 1)])})
        if time.time() > dl or nviol >= 5:
            break
    rep.fired("answer_is_for_the_query", queries)
    rep.scope("sequential: all query sequences of length <= 3 over 5 contractions and of length 4 over 4, per shared instance", done,
              done == len(cases),
              f"{nkinds} instance kinds (string presets {STRING_PRESETS}, preset callables {PRESET_CALLABLES}, Auto/AutoHQ x cache x "
              f"optimal_cutoff in (0, default), ReusableHyperOptimizer variants, ReusableRandomGreedyOptimizer) x modes x {nseqs} sequences; "
              f"{done}/{len(cases)} run")

    # ---- forced schedules --------------------------------------------------
    hook = getattr(cu, "_verif_yield", None)
    rep.extra["repo_yield_hook_present"] = hook is not None
    scns = schedule_scenarios(tier)
    limit = 4000 if quick else 40000
    jobs = [{"scn": s, "limit": limit} for s in scns]
    sched_stats = []
    execs = 0
    if nviol < 5:
        for st, res in pmap(_work_explore, jobs, chunk=1):
            if st == "crash":
                rep.crash(f"C16 schedule worker: {res[:1500]}")
                continue
            n, key, viol, info, _ = res
            execs += n
            rep.count(n)
            rep.nontrivial_case(key)
            sched_stats.append(info)
            for sig, case, detail in viol:
                add(sig, case, detail)
    all_ex = bool(sched_stats) and all(s["exhaustive"] for s in sched_stats)
    rep.fired("thread_answer_is_for_its_query(forced schedule)", execs)
    rep.scope("forced schedules: every ordering of the marked points, 2 threads x 1 query and 2 threads x 2 queries (point sets in schedule_scenarios)",
              execs, all_ex, f"{len(scns)} scenarios, {execs} executions; cap {limit} executions per scenario")
    rep.extra["schedule_scenarios"] = sorted(sched_stats, key=lambda s: s["name"])

    # 3 threads, sampled schedules
    s3 = []
    for kname, kind in (("ReusableHyperOptimizer", {"k": "rhyper"}), ("AutoOptimizer(cache=True,cutoff=0)", {"k": "auto", "hq": False, "cache": True, "cutoff": 0}),
                        ("ReusableRandomGreedyOptimizer", {"k": "rgreedy"})):
        for sd in range(4 if quick else 16):
            s3.append({"scn": {"name": f"{kname} 3thr x 2 queries, all points", "kind": kind,
                               "threads": [[(2, "tree"), (1, "tree")], [(4, "tree"), (2, "path")], [(3, "tree"), (0, "tree")]],
                               "points": ["maybe:pre", "maybe:post", "run:pre", "run:post", "hsearch:pre", "hsearch:post", "getopt:pre", "getopt:post"]}, "count": 60 if quick else 300, "seed": seed() * 100 + sd})
    ex3 = 0
    if nviol < 5:
        for st, res in pmap(_work_sampled, s3, chunk=1):
            if st == "crash":
                rep.crash(f"C16 schedule worker: {res[:1500]}")
                continue
            n, key, viol, info, _ = res
            ex3 += n
            rep.count(n)
            rep.nontrivial_case(key)
            for sig, case, detail in viol:
                add(sig, case, detail)
    rep.scope("forced schedules: 3 threads x 2 queries, all marked points, seeded random orderings", ex3, False, f"{ex3} sampled orderings")

    # ---- stress ------------------------------------------------------------
    sj = stress_jobs(tier)
    sdone = 0
    if nviol < 5:
        for st, res in pmap(_work_stress, sj, chunk=1):
            if st == "crash":
                rep.crash(f"C16 stress worker: {res[:1500]}")
                continue
            n, key, viol, _info, _ = res
            sdone += n
            rep.count(1)
            rep.nontrivial_case(key)
            for sig, case, detail in viol:
                add(sig, case, detail)
    rep.fired("thread_answer_is_for_its_query(stress)", sdone)
    rep.scope("stress: 2-3 threads sharing one instance, sys.setswitchinterval(1e-6)", len(sj), False,
              f"{len(sj)} runs, {sdone} checked answers; the OS/interpreter chooses the schedule")

    rep.explanation += (
        "C16 bounded. Sequential: every sequence over the pool through one shared instance of each kind; each tree is checked to be a "
        "complete tree with the query's inputs/output/sizes/N (array_contract_tree(canonicalize=True) against first-appearance "
        "relabelling), each path to be a valid path for the query's N. optimal_cutoff=0 forces the hyper path; hyper settings tiny "
        "(max_repeats=4, optlib='random', reconf maxiter 5). Threads: the schedule quantifier is BOUNDED. Controlled yield points "
        f"({'repo hook cotengra.utils._verif_yield plus ' if hook is not None else 'no yield hook exists in /repo; '}harness-side "
        "wrappers, check process only): before/after ReusableOptimizer._maybe_run_optimizer ('search finished' -> 'tree fetched' "
        "window), before/after _run_optimizer of ReusableHyperOptimizer/ReusableRandomGreedyOptimizer, before/after "
        "HyperOptimizer._search, before/after AutoOptimizer._get_optimizer_hyper_threadsafe. Every ordering of those points is executed "
        "for 2 threads x 1 query (all points) and 2 threads x 2 queries (points maybe/run/getopt), re-running from a fresh instance per "
        "ordering; 3 threads are sampled. Interleavings INSIDE the wrapped methods are only exercised by the stress runs "
        "(switch interval 1e-6 s). "
    )
    rep.assumptions.append("C16: CPython dict get/set on distinct keys is atomic under the GIL; forced schedules only reorder at the marked method boundaries")
    rep.trusted_base.append("threading.Condition based cooperative scheduler of this driver")
