"""C17 driver (see DESIGN.md section 3, C17)."""
from .generic import run_property, replay_property


def run(tier):
    return run_property("C17", tier)


def replay(path):
    return replay_property("C17", path)
