"""C17 bounded driver: operations that take a seed are deterministic functions of
their arguments.

Every seeded public API is executed in several FRESH interpreters that differ
in ``PYTHONHASHSEED`` (0, 1, 12345, random), in the state of the global
``random`` / ``numpy.random`` generators (re-seeded differently before EVERY
call), and in the order in which the APIs are called (what was called before).
During each call the module-level functions of ``random`` (which is what
``get_rng(None)`` hands out) and of ``numpy.random`` are replaced by a tripwire
that records any access.  Results are compared structurally across the runs.
Violation = any difference between two runs, or any tripwire hit during a call
that was given an integer seed.
"""

from __future__ import annotations

import hashlib
import json
import random
import sys
import time

from ..common import Report, deadline, pmap, seed
from ._optutil import quiet, run_child

MOD = "vt.props.c17_bounded"

# ---------------------------------------------------------------------------
# deterministic inputs built by the harness (no cotengra randomness involved)
# ---------------------------------------------------------------------------


def _label_single(i):
    return "abcdefghijklmnopqrstuvwxyzABCDEFGHIJKLMNOPQRSTUVWXYZ"[i]


def _label_multi(i):
    # varied multi-character labels: their str hashes (hence set orders) change with PYTHONHASHSEED
    return ["ix", "bond", "k", "leg_", "Q"][i % 5] + str(i * 7919 % 1000) + ["", "x", "_y"][i % 3]


def gen_net(n, reg, n_out, n_hyper, sd, labels="single"):
    r = random.Random(sd)
    lab = _label_single if labels == "single" else _label_multi
    inputs = [[] for _ in range(n)]
    nind = n * reg // 2
    size_dict = {}
    output = []
    # a spanning chain first so that the network is connected
    ix = 0
    for t in range(n - 1):
        name = lab(ix)
        ix += 1
        inputs[t].append(name)
        inputs[t + 1].append(name)
        size_dict[name] = r.choice([2, 2, 3])
    while ix < nind:
        name = lab(ix)
        ix += 1
        a, b = r.sample(range(n), 2)
        inputs[a].append(name)
        inputs[b].append(name)
        size_dict[name] = r.choice([2, 2, 3])
    for _ in range(n_hyper):
        name = lab(ix)
        ix += 1
        for t in r.sample(range(n), 3):
            inputs[t].append(name)
        size_dict[name] = 2
    for _ in range(n_out):
        name = lab(ix)
        ix += 1
        inputs[r.randrange(n)].append(name)
        size_dict[name] = r.choice([2, 3])
        output.append(name)
    return tuple(tuple(t) for t in inputs), tuple(output), size_dict


def own_greedy_path(inputs, output, size_dict):
    """Deterministic greedy (smallest result, ties by position) - linear path."""
    terms = [frozenset(t) for t in inputs]
    out = frozenset(output)
    path = []
    while len(terms) > 1:
        best = None
        cnt = {}
        for t in terms:
            for ix in t:
                cnt[ix] = cnt.get(ix, 0) + 1
        for i in range(len(terms)):
            for j in range(i + 1, len(terms)):
                shared = terms[i] & terms[j]
                if not shared and best is not None and best[0][0] == 0:
                    continue
                new = frozenset(ix for ix in terms[i] | terms[j] if ix in out or cnt[ix] > (ix in terms[i]) + (ix in terms[j]))
                size = 1
                for ix in new:
                    size *= size_dict[ix]
                key = (0 if shared else 1, size, i, j)
                if best is None or key < best[0]:
                    best = (key, new)
        (_c, _s, i, j), new = best
        path.append((i, j))
        terms = [t for k, t in enumerate(terms) if k not in (i, j)] + [new]
    return tuple(path)


NETS = {
    "A14": (14, 3, 2, 1, 11, "single"),
    "B16m": (16, 3, 2, 1, 22, "multi"),
    "C12m": (12, 4, 1, 0, 33, "multi"),
    "D20": (20, 3, 0, 2, 44, "single"),
}


# ---------------------------------------------------------------------------
# canonical result forms
# ---------------------------------------------------------------------------


def canon_tree(tree):
    ch = []
    for p, (l, r) in tree.children.items():
        ch.append([sorted(p), sorted([sorted(l), sorted(r)])])
    ch.sort()
    st = tree.contract_stats()
    return {
        "children": hashlib.sha1(json.dumps(ch).encode()).hexdigest(),
        "nchildren": len(ch),
        "sliced_inds": [str(i) for i in tree.sliced_inds],
        "flops": repr(st["flops"]),
        "write": repr(st["write"]),
        "size": repr(st["size"]),
        "path": [list(map(int, s)) for s in tree.get_path()],
    }


def canon(x):
    import numpy as np

    if isinstance(x, (str, int, bool)) or x is None:
        return x
    if isinstance(x, float):
        return repr(x)
    if isinstance(x, np.ndarray):
        return {"shape": list(x.shape), "sha1": hashlib.sha1(np.ascontiguousarray(x).tobytes()).hexdigest()}
    if isinstance(x, (np.integer,)):
        return int(x)
    if isinstance(x, (np.floating,)):
        return repr(float(x))
    if isinstance(x, dict):
        return [[canon(k), canon(v)] for k, v in x.items()]  # insertion order is part of the result
    if isinstance(x, (set, frozenset)):
        return sorted(canon(v) for v in x)
    if isinstance(x, (list, tuple)):
        return [canon(v) for v in x]
    if hasattr(x, "children") and hasattr(x, "contract_stats"):
        return canon_tree(x)
    return repr(x)


# ---------------------------------------------------------------------------
# the seeded APIs (run in the child)
# ---------------------------------------------------------------------------


def build_apis():
    """name -> fn(ctx, s) where ctx has inputs/output/size_dict/tree/sliced."""
    import cotengra as ctg
    from cotengra import utils as cu
    from cotengra.core import ContractionTree, ContractionTreeCompressed, PartitionTreeBuilder, jitter_dict
    from cotengra.hyperoptimizers.hyper import _PATH_FNS
    from cotengra.pathfinders import path_basic, path_compressed_greedy, path_labels
    from cotengra.pathfinders.path_random import RandomOptimizer
    from cotengra.slicer import SliceFinder

    A = {}

    def api(name, per_net=True):
        def deco(f):
            A[name] = (f, per_net)
            return f

        return deco

    # ---- random greedy ---------------------------------------------------
    @api("RandomGreedyOptimizer(seed).search")
    def _(c, s):
        o = path_basic.RandomGreedyOptimizer(max_repeats=6, seed=s, parallel=False, accel=False)
        t = o.search(c["inputs"], c["output"], c["size_dict"])
        return {"tree": t, "best_flops": o.best_flops, "ssa": o.best_ssa_path}

    @api("RandomGreedyOptimizer(seed).__call__ twice")
    def _(c, s):
        o = path_basic.RandomGreedyOptimizer(max_repeats=3, seed=s, parallel=False, accel=False)
        p1 = o(c["inputs"], c["output"], c["size_dict"])
        p2 = o(c["inputs"], c["output"], c["size_dict"])
        return {"p1": p1, "p2": p2, "best_flops": o.best_flops}

    @api("optimize_random_greedy_track_flops(seed)")
    def _(c, s):
        return path_basic.optimize_random_greedy_track_flops(c["inputs"], c["output"], c["size_dict"], ntrials=4, seed=s)

    @api("optimize_random_greedy_track_flops(seed, use_ssa, fixed costmod)")
    def _(c, s):
        return path_basic.optimize_random_greedy_track_flops(c["inputs"], c["output"], c["size_dict"], ntrials=3, seed=s, use_ssa=True, costmod=1.5,
                                                             temperature=(0.01, 2.0))

    @api("ContractionProcessor.optimize_greedy(seed)")
    def _(c, s):
        cp = path_basic.ContractionProcessor(c["inputs"], c["output"], c["size_dict"], track_flops=True)
        cp.simplify()
        cp.optimize_greedy(costmod=1.0, temperature=0.7, seed=s)
        cp.optimize_remaining_by_size()
        return {"ssa": cp.ssa_path, "flops": cp.flops}

    @api("RandomOptimizer(seed)")
    def _(c, s):
        o = RandomOptimizer(seed=s)
        return {"path": o(c["inputs"], c["output"], c["size_dict"]), "tree": o.search(c["inputs"], c["output"], c["size_dict"])}

    # ---- hyper methods / partition builders -------------------------------
    hp = {
        "labels": dict(random_strength=0.2, weight_edges="log", cutoff=4, parts=2, memory=0, pop_small_bias=1.0, pop_big_bias=1.0, pop_decay=1.0,
                       con_pow=1.0, final_sweep=True),
        "labels-agglom": dict(weight_edges="const", memory=0, pop_small_bias=0.5, pop_big_bias=1.5, pop_decay=2.0, con_pow=2.0, final_sweep=False,
                              random_strength=0.1, groupsize=3),
        "kahypar": dict(random_strength=0.3, weight_edges="log", cutoff=4, imbalance=0.3, imbalance_decay=0.5, parts=2, parts_decay=0.5,
                        mode="direct", objective="cut", fix_output_nodes=""),
        "kahypar-balanced": dict(weight_edges="const", cutoff=3, imbalance=0.005, mode="recursive", objective="km1", fix_output_nodes="auto",
                                 random_strength=0.05, imbalance_decay=0.0, parts=2),
        "kahypar-agglom": dict(weight_edges="log", imbalance=0.03, mode="direct", objective="cut", groupsize=3, fix_output_nodes="", compress=0,
                               sub_optimize="greedy", random_strength=0.1),
    }
    import importlib.util

    have_kahypar = importlib.util.find_spec("kahypar") is not None
    for m, params in hp.items():
        if m not in _PATH_FNS or (m.startswith("kahypar") and not have_kahypar):
            continue

        def f(c, s, m=m, params=params):
            return _PATH_FNS[m](c["inputs"], c["output"], c["size_dict"], seed=s, **params)

        A[f"_PATH_FNS['{m}'](seed)"] = (f, True)

    @api("PartitionTreeBuilder(labels_partition).build_divide(seed, parts=3)")
    def _(c, s):
        b = PartitionTreeBuilder(path_labels.labels_partition)
        return b.build_divide(c["inputs"], c["output"], c["size_dict"], random_strength=0.5, cutoff=3, parts=3, parts_decay=0.8, seed=s,
                              super_optimize="greedy")

    @api("PartitionTreeBuilder(labels_partition).build_agglom(seed)")
    def _(c, s):
        b = PartitionTreeBuilder(path_labels.labels_partition)
        return b.build_agglom(c["inputs"], c["output"], c["size_dict"], random_strength=0.5, groupsize=2, seed=s)

    @api("labels_partition(seed)")
    def _(c, s):
        return path_labels.labels_partition(c["inputs"], c["output"], c["size_dict"], parts=3, seed=s)

    if have_kahypar:
        @api("kahypar_subgraph_find_membership(seed)")
        def _(c, s):
            from cotengra.pathfinders.path_kahypar import kahypar_subgraph_find_membership

            return kahypar_subgraph_find_membership(c["inputs"], c["output"], c["size_dict"], parts=3, imbalance=0.2, seed=s)

    # ---- slicing -----------------------------------------------------------
    @api("SliceFinder(seed).search")
    def _(c, s):
        sf = SliceFinder(c["tree"](), target_size=c["target"], temperature=0.5, seed=s)
        ix, cost = sf.search(6)
        return {"ix": sorted(map(str, ix)), "flops": repr(cost.total_flops), "nslices": cost.nslices, "ncosts": len(sf.costs)}

    @api("SliceFinder(seed, target_slices, allow_outer=False).search")
    def _(c, s):
        sf = SliceFinder(c["tree"](), target_slices=8, temperature=1.0, allow_outer=False, seed=s, minimize="size")
        ix, cost = sf.search(4)
        return {"ix": sorted(map(str, ix)), "flops": repr(cost.total_flops), "nslices": cost.nslices}

    @api("tree.slice(seed)")
    def _(c, s):
        return c["tree"]().slice(target_size=c["target"], temperature=0.5, max_repeats=6, seed=s)

    @api("tree.slice(seed, target_overhead, reslice)")
    def _(c, s):
        return c["sliced"]().slice(target_overhead=3.0, temperature=0.8, max_repeats=4, reslice=True, seed=s)

    @api("tree.unslice_rand(seed)")
    def _(c, s):
        t = c["sliced"]()
        n0 = len(t.sliced_inds)
        t2 = t.unslice_rand(seed=s)
        return {"tree": t2, "removed_one": len(t2.sliced_inds) == n0 - 1}

    # ---- subtrees ------------------------------------------------------------
    @api("tree.get_subtree(search='random', seed)")
    def _(c, s):
        t = c["tree"]()
        leaves, branches = t.get_subtree(t.root, 6, search="random", seed=s)
        return {"leaves": [sorted(x) for x in leaves], "branches": [sorted(x) for x in branches]}

    @api("tree.subtree_reconfigure(seed, select='random')")
    def _(c, s):
        return c["bad"]().subtree_reconfigure(subtree_size=4, maxiter=8, select="random", seed=s)

    @api("tree.subtree_reconfigure(seed, subtree_search='random')")
    def _(c, s):
        return c["bad"]().subtree_reconfigure(subtree_size=4, maxiter=8, subtree_search="random", seed=s)

    @api("tree.subtree_reconfigure(seed, select='random', subtree_search='random', minimize='size')")
    def _(c, s):
        return c["bad"]().subtree_reconfigure(subtree_size=5, maxiter=6, select="random", subtree_search="random", minimize="size", seed=s)

    @api("tree.subtree_reconfigure_forest(seed, parallel=False)")
    def _(c, s):
        return c["bad"]().subtree_reconfigure_forest(num_trees=3, num_restarts=2, subtree_maxiter=4, subtree_size=4, parallel=False, seed=s)

    # ---- annealing -----------------------------------------------------------
    @api("tree.simulated_anneal(seed)")
    def _(c, s):
        return c["tree"]().simulated_anneal(tsteps=3, numiter=6, seed=s)

    for sm in ("basic", "reslice", "drift"):
        def f(c, s, sm=sm):
            return c["tree"]().simulated_anneal(tsteps=3, numiter=4, target_size=c["target"], slice_mode=sm, seed=s)

        A[f"tree.simulated_anneal(seed, target_size, slice_mode='{sm}')"] = (f, True)

    @api("tree.parallel_temper(seed, parallel=False)")
    def _(c, s):
        return c["tree"]().parallel_temper(tsteps=3, numiter=3, num_trees=3, parallel=False, seed=s)

    @api("tree.parallel_temper(seed, target_size, parallel=False)")
    def _(c, s):
        return c["tree"]().parallel_temper(tsteps=2, numiter=3, num_trees=2, target_size=c["target"], parallel=False, seed=s)

    # ---- compressed extras ---------------------------------------------------
    @api("GreedyCompressed(seed)")
    def _(c, s):
        return path_compressed_greedy.GreedyCompressed(chi=4, temperature=0.5, seed=s).get_ssa_path(c["inputs"], c["output"], c["size_dict"])

    @api("GreedySpan(seed)")
    def _(c, s):
        return path_compressed_greedy.GreedySpan(temperature=0.5, seed=s).get_ssa_path(c["inputs"], c["output"], c["size_dict"])

    @api("ContractionTreeCompressed.windowed_reconfigure(seed)")
    def _(c, s):
        t = ContractionTreeCompressed.from_path(c["inputs"], c["output"], c["size_dict"], path=c["path"])
        t2 = t.windowed_reconfigure(minimize="peak-compressed-4", window_size=4, max_iterations=3, max_window_tries=20, score_temperature=0.5, seed=s)
        return {"ssa": t2.get_ssa_path()}

    # ---- generators (network independent) -----------------------------------
    @api("rand_equation(seed)", per_net=False)
    def _(c, s):
        return [tuple(cu.rand_equation(9, 3, n_out=2, n_hyper_in=1, n_hyper_out=1, seed=s)), tuple(cu.rand_equation(14, 4, n_out=1, d_min=2, d_max=5, seed=s))]

    @api("tree_equation(seed)", per_net=False)
    def _(c, s):
        return tuple(cu.tree_equation(12, n_outer=3, seed=s))

    @api("perverse_equation(seed)", per_net=False)
    def _(c, s):
        return tuple(cu.perverse_equation(8, num_indices=5, seed=s))

    @api("lattice_equation(seed)", per_net=False)
    def _(c, s):
        return [tuple(cu.lattice_equation((3, 4), d_min=2, d_max=4, seed=s)), tuple(cu.lattice_equation((2, 2, 3), cyclic=(True, False, True), d_max=3, seed=s))]

    try:
        import networkx  # noqa: F401

        @api("randreg_equation(seed)", per_net=False)
        def _(c, s):
            return tuple(cu.randreg_equation(10, 3, d_max=4, seed=s))
    except ImportError:
        pass

    @api("rand_tree(seed)", per_net=False)
    def _(c, s):
        return cu.rand_tree(8, 3, n_out=1, seed=s, optimize="greedy")

    @api("make_rand_size_dict_from_inputs(seed)")
    def _(c, s):
        return cu.make_rand_size_dict_from_inputs(c["inputs"], d_min=2, d_max=6, seed=s)

    @api("make_arrays_from_inputs(seed)")
    def _(c, s):
        small = {k: 2 for k in c["size_dict"]}
        return [cu.make_arrays_from_inputs(c["inputs"], small, seed=s), cu.make_arrays_from_inputs(c["inputs"][:3], small, seed=s, dtype="complex64")]

    @api("make_arrays_from_eq(seed)", per_net=False)
    def _(c, s):
        return cu.make_arrays_from_eq("abc,cd,dea->be", d_max=4, seed=s)

    @api("jitter_dict(seed)")
    def _(c, s):
        return jitter_dict(c["size_dict"], 0.3, seed=s)

    @api("GumbelBatchedGenerator(seed)", per_net=False)
    def _(c, s):
        g = cu.GumbelBatchedGenerator(s)
        return [g() for _ in range(5)]

    @api("get_rng(seed)", per_net=False)
    def _(c, s):
        r = cu.get_rng(s)
        return [r.random(), r.randint(0, 10**9), r.choice(list(range(100)))]

    return A


class Tripwire:
    RANDOM_FNS = ["random", "randint", "randrange", "choice", "choices", "sample", "shuffle", "uniform", "expovariate", "gauss", "normalvariate",
                  "getrandbits", "betavariate", "gammavariate", "triangular", "lognormvariate", "vonmisesvariate", "paretovariate",
                  "weibullvariate", "randbytes", "seed", "getstate", "setstate"]
    NUMPY_FNS = ["rand", "randn", "randint", "random", "random_sample", "choice", "shuffle", "permutation", "normal", "uniform", "seed",
                 "standard_normal", "exponential", "gumbel", "get_state", "set_state", "bytes"]

    def __init__(self):
        self.hits = []
        self.saved = []

    def __enter__(self):
        import numpy as np

        for mod, prefix, names in ((random, "random.", self.RANDOM_FNS), (np.random, "numpy.random.", self.NUMPY_FNS)):
            for nm in names:
                if not hasattr(mod, nm):
                    continue
                orig = getattr(mod, nm)

                def w(*a, _orig=orig, _nm=prefix + nm, **k):
                    self.hits.append(_nm)
                    return _orig(*a, **k)

                self.saved.append((mod, nm, orig))
                setattr(mod, nm, w)
        return self

    def __exit__(self, *a):
        for mod, nm, orig in self.saved:
            setattr(mod, nm, orig)
        return False


def _ctx_for(netname):
    from cotengra.core import ContractionTree

    inputs, output, size_dict = gen_net(*NETS[netname])
    path = own_greedy_path(inputs, output, size_dict)
    # a deliberately poor tree (contract in input order) so that reconfiguration has work to do
    bad_path = tuple((0, 1) for _ in range(len(inputs) - 1))

    def tree():
        return ContractionTree.from_path(inputs, output, size_dict, path=path)

    def bad():
        return ContractionTree.from_path(inputs, output, size_dict, path=bad_path)

    t0 = tree()
    width = t0.contract_stats()["size"]
    target = max(2, width // 8)

    def sliced():
        t = tree()
        # deterministic slicing by the harness: the three largest-named contracted indices
        inner = sorted(ix for ix in size_dict if ix not in output)[:3]
        for ix in inner:
            t.remove_ind_(ix)
        return t

    return {"inputs": inputs, "output": output, "size_dict": size_dict, "tree": tree, "bad": bad, "sliced": sliced, "target": target, "path": path}


def _child_main():
    import numpy as np

    job = json.load(sys.stdin)
    out = {"results": {}, "trip": {}, "errors": {}, "hashseed_probe": hash("cotengra-verif") % 1000}
    with quiet():
        apis = build_apis()
        ctxs = {}
        order = list(job["calls"])
        random.Random(job["perturb"]).shuffle(order)  # what was called before differs between runs
        pert = random.Random(job["perturb"] * 7 + 1)
        for name, net, s in order:
            fn, per_net = apis[name]
            key = f"{name} | net={net if per_net else '-'} | seed={s}"
            if per_net and net not in ctxs:
                ctxs[net] = _ctx_for(net)
            ctx = ctxs[net] if per_net else {}
            g = pert.randrange(2**31)
            random.seed(g)
            np.random.seed(g % (2**32))
            try:
                with Tripwire() as tw:
                    res = fn(ctx, s)
                out["results"][key] = canon(res)
                if tw.hits:
                    out["trip"][key] = sorted(set(tw.hits))
            except Exception as e:  # noqa: BLE001
                out["errors"][key] = f"{type(e).__name__}: {e}"
    sys.stdout.write(json.dumps(out))


# ---------------------------------------------------------------------------
# parent
# ---------------------------------------------------------------------------

RUNS = [("0", 1), ("1", 2), ("12345", 3), ("random", 4), ("2", 5), ("999", 1)]


def api_names():
    """Names known without importing cotengra in the parent's planning code."""
    with quiet():
        return {k: v[1] for k, v in build_apis().items()}


def plan(tier):
    quick = tier == "quick"
    names = api_names()
    seeds = [0, 1, 7, 42] if quick else [0, 1, 2, 3, 7, 42, 99, 1234, 2**31 + 5, 123456789]
    nets = ["A14", "B16m", "C12m", "D20"]
    calls = []
    for name, per_net in sorted(names.items()):
        for s in seeds:
            if per_net:
                for net in nets:
                    calls.append([name, net, s])
            else:
                calls.append([name, "-", s])
    return calls, names, seeds, nets


def _batches(calls, nb):
    # by network, so each child builds few contexts; generators go with the first
    bs = [[] for _ in range(nb)]
    for i, c in enumerate(sorted(calls, key=lambda c: (c[1], c[0], c[2]))):
        bs[i % nb].append(c)
    return [b for b in bs if b]


def _run_child_job(job):
    rc, so, se = run_child(["--child"], input_bytes=json.dumps(job).encode(), module=MOD, env={"PYTHONHASHSEED": job["hashseed"]}, timeout=1200)
    if rc != 0:
        raise RuntimeError(f"child rc={rc}: {se.decode()[-1500:]}")
    return job["batch"], job["hashseed"], job["perturb"], json.loads(so)


def _first_diff(a, b, path=""):
    if type(a) is not type(b):
        return f"{path}: {str(a)[:80]} vs {str(b)[:80]}"
    if isinstance(a, list):
        if len(a) != len(b):
            return f"{path}: length {len(a)} vs {len(b)}"
        for i, (x, y) in enumerate(zip(a, b)):
            d = _first_diff(x, y, f"{path}[{i}]")
            if d:
                return d
        return ""
    if isinstance(a, dict):
        for k in sorted(set(a) | set(b)):
            if k not in a or k not in b:
                return f"{path}.{k}: missing on one side"
            d = _first_diff(a[k], b[k], f"{path}.{k}")
            if d:
                return d
        return ""
    return "" if a == b else f"{path}: {str(a)[:80]} vs {str(b)[:80]}"


def replay(case):
    """Re-run one (api, net, seed) in fresh interpreters under all run settings."""
    call = case["call"]
    outs = []
    for hs, pt in RUNS:
        _b, _h, _p, o = _run_child_job({"calls": [call], "hashseed": hs, "perturb": pt, "batch": 0})
        outs.append((hs, pt, o))
    msgs = []
    key0 = None
    for hs, pt, o in outs:
        for k, e in o["errors"].items():
            msgs.append(f"PYTHONHASHSEED={hs}: {k} raised {e}")
        for k, t in o["trip"].items():
            msgs.append(f"PYTHONHASHSEED={hs}: {k} touched {t}")
        for k, r in o["results"].items():
            key0 = k
    base = outs[0][2]["results"].get(key0)
    for hs, pt, o in outs[1:]:
        d = _first_diff(base, o["results"].get(key0))
        if d:
            msgs.append(f"result differs between PYTHONHASHSEED={outs[0][0]}/perturb={outs[0][1]} and PYTHONHASHSEED={hs}/perturb={pt}: {d}")
    return (not msgs), ("; ".join(msgs) or f"{key0}: identical in {len(outs)} fresh interpreters, no global RNG access")


def run_bounded(rep: Report, tier: str) -> None:
    quick = tier == "quick"
    dl = deadline(tier, 400, 1800)
    calls, names, seeds, nets = plan(tier)
    nb = 4 if quick else 16
    batches = _batches(calls, nb)
    jobs = []
    runs = RUNS if quick else RUNS + [("3", 6), ("77", 7), ("4242", 8), ("random", 9)]
    for bi, b in enumerate(batches):
        for hs, pt in runs:
            jobs.append({"calls": b, "hashseed": hs, "perturb": pt, "batch": bi})
    rep.rule = (
        "a case = (seeded API, network, integer seed); it is evaluated once per run setting (PYTHONHASHSEED in 0/1/2/999/12345/random x global RNG "
        "perturbation x call order) in fresh interpreters and the results compared; distinct by (API, network, seed); non-trivial iff the API "
        "returned a result in every run (no exception) - for the randomised ones the result also differs between at least two of the seeds "
        "used (counted separately in seeds_matter)."
    )
    results = {}
    probes = {}
    for st, res in pmap(_run_child_job, jobs, chunk=1):
        if st == "crash":
            rep.crash(f"C17 child: {res[:1500]}")
            continue
        bi, hs, pt, out = res
        results[(bi, hs, pt)] = out
        probes.setdefault(hs, set()).add(out["hashseed_probe"])
    nviol = 0

    def add(sig, call, detail):
        nonlocal nviol
        if nviol < 5 and rep.violation(sig, {"module": MOD, "case": {"call": call}, "detail": detail}):
            nviol += 1

    by_api_seedres = {}
    for bi, b in enumerate(batches):
        outs = [(hs, pt, results.get((bi, hs, pt))) for hs, pt in runs]
        outs = [o for o in outs if o[2] is not None]
        if len(outs) < 2:
            continue
        for name, net, s in b:
            per_net = names[name]
            key = f"{name} | net={net if per_net else '-'} | seed={s}"
            rep.count(len(outs))
            errs = [(hs, o["errors"][key]) for hs, pt, o in outs if key in o["errors"]]
            if errs:
                add(f"C17 {name} raised {errs[0][1].split(':')[0]} (net={net}, seed={s})", [name, net, s], str(errs))
                continue
            trips = sorted({t for hs, pt, o in outs for t in o["trip"].get(key, [])})
            rep.fired("no_global_rng_access", len(outs))
            if trips:
                add(f"C17 {name} touches the global RNG although seed={s} was given: {trips} (net={net})", [name, net, s], "")
            base = outs[0][2]["results"].get(key)
            rep.fired("same_result_across_interpreters", len(outs) - 1)
            differs = False
            for hs, pt, o in outs[1:]:
                d = _first_diff(base, o["results"].get(key))
                if d:
                    which = "path order only" if d.startswith((".path", ".tree.path")) else "result"
                    add(f"C17 {name} is not a function of its arguments: {which} differs between fresh interpreters (net={net}, seed={s})",
                        [name, net, s], f"PYTHONHASHSEED={outs[0][0]}/perturb={outs[0][1]} vs PYTHONHASHSEED={hs}/perturb={pt}: {d}")
                    differs = True
                    break
            if not differs and not trips:
                rep.nontrivial_case(key)
            by_api_seedres.setdefault((name, net), set()).add(json.dumps(base, sort_keys=True))
    seeds_matter = sorted({n for (n, net), v in by_api_seedres.items() if len(v) > 1})
    rep.extra["apis"] = sorted(names)
    rep.extra["apis_where_the_seed_changes_the_result"] = seeds_matter
    rep.extra["apis_where_all_seeds_gave_the_same_result"] = sorted(set(names) - set(seeds_matter))
    rep.extra["hash_probe_per_PYTHONHASHSEED"] = {k: sorted(v) for k, v in probes.items()}
    rep.extra["fresh_interpreters"] = len(results)
    rep.sample({"apis": len(names), "calls_per_run": len(calls), "runs": runs})
    rep.scope("seeded APIs x networks x seeds, each in 6 fresh interpreters (PYTHONHASHSEED 0/1/2/999/12345/random, global RNGs re-seeded differently "
              "before every call, different call order), tripwire on random.* and numpy.random.*",
              len(calls), False,
              f"{len(names)} APIs, networks {nets} (12-20 tensors, single- and multi-character labels), seeds {seeds}; {len(results)} interpreters")
    rep.explanation += (
        "C17 bounded: each seeded public API (random-greedy optimizer and batch function, RandomOptimizer, hyper methods labels / "
        "labels-agglom / kahypar / kahypar-balanced / kahypar-agglom through _PATH_FNS[name](..., seed=s), PartitionTreeBuilder.build_divide/"
        "build_agglom, labels_partition, kahypar membership, SliceFinder, tree.slice, unslice_rand, get_subtree(search='random'), "
        "subtree_reconfigure (select / subtree_search random), subtree_reconfigure_forest(parallel=False), simulated_anneal (with and "
        "without target_size, all slice modes), parallel_temper(parallel=False), the compressed greedy/span/windowed optimizers, the test "
        "generators rand/tree/perverse/lattice/randreg_equation, rand_tree, make_rand_size_dict_from_inputs, make_arrays_from_inputs/eq, "
        "jitter_dict, GumbelBatchedGenerator, get_rng) is called with the same arguments and integer seed in 6 fresh interpreters. Inputs "
        "(networks, starting trees, pre-sliced trees) are built by the harness without cotengra randomness. Compared: tree structure "
        "(children sets), ordered sliced_inds, flops/write/size, get_path(), paths, index sets, generated equations/sizes/arrays (bytes). "
        "HyperOptimizer(optlib='random') and tree.slice_and_reconfigure are not included: they document no seed. The all-hash-seeds "
        "quantifier is bounded to 6 values; super_optimize='auto-hq' inside build_divide only ever sees <= 3 parts (optimal path, no "
        "third-party optimiser). "
    )
    rep.assumptions.append("C17: code that imported functions out of `random` by value at import time would escape the tripwire (cotengra uses get_rng / the module object); "
                           "KaHyPar is deterministic given context.setSeed")
    rep.trusted_base.append("subprocess + PYTHONHASHSEED; json round trip of the canonical forms")
    if time.time() > dl:
        rep.extra["over_budget"] = True


if __name__ == "__main__":
    if "--child" in sys.argv:
        _child_main()
