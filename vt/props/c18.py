"""C18 driver (see DESIGN.md section 3, C18)."""
from .generic import run_property, replay_property


def run(tier):
    return run_property("C18", tier)


def replay(path):
    return replay_property("C18", path)
