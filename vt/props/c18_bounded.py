"""C18 bounded driver: internal cost simulators agree; optimizers report the
cost of what they return (DESIGN.md section 3, C18, [T3] bullet).

The same SSA path is replayed step by step through
  (ref) pf_common.simulate -- the step rule written from the statement;
  (a)   the tree: get_legs / get_involved / get_flops / get_size of each node;
  (b)   ContractionProcessor(...).contract_nodes + compute_flops / compute_size
        (built WITHOUT simplify());
  (c)   HyperGraph: contract_pair_cost, compute_contracted_inds,
        candidate_contraction_size, contract, node_size;
  (d)   path_simulated_annealing.compute_contracted_info, chained on its own legs
and index SETS, sizes and flops must be identical at every step.

Which networks a simulator "supports" (stated precisely):
  (a), (d): every network.  Leaves are pre-reduced (an index all of whose
            occurrences sit on one tensor and not in the output is summed at
            once, repeated occurrences collapse) -- reference with
            reduce_leaves=True.
  (b):      networks in which no tensor is leaf-simplifiable (the documented
            precondition of compute_contracted: legs already simplified).
  (c):      networks without a repeated index inside a tensor; the hypergraph
            does not pre-reduce leaves, so it is compared with the reference
            with reduce_leaves=False (identical to the other reference when no
            tensor is leaf-simplifiable, so on those networks all four agree).
"""

from __future__ import annotations

import math
import random
import time
import warnings

from ..common import Report, pmap, seed, deadline
from .. import scope
from . import pf_common as pc

MODULE = "vt.props.c18_bounded"
_DEADLINE = None
HUGE = 10**12
CALL_TIMEOUT = 60.0  # CPU seconds per case (legitimate cases take milliseconds)


def _guarded(fn, *a):
    """Run one check under the CPU-time limit; a call into the real code that
    does not return is reported as a disagreement."""
    try:
        return pc.with_timeout(CALL_TIMEOUT, fn, *a)
    except pc.Timeout:
        return f"did not return within {CALL_TIMEOUT:.0f} s of CPU time"


# --------------------------------------------------------------------------
# step-by-step comparison
# --------------------------------------------------------------------------
def check_simulators(inputs, output, sd, ssa, fires=None):
    """None or message (first disagreement)."""
    from cotengra import ContractionTree
    from cotengra.hypergraph import HyperGraph
    from cotengra.pathfinders.path_basic import ContractionProcessor, compute_flops, compute_size
    from cotengra.pathfinders.path_simulated_annealing import compute_contracted_info

    if fires is None:
        fires = {}
    n = len(inputs)
    app = pc.appearances(inputs, output)
    ordinary = pc.is_ordinary(inputs)
    plain = not pc.has_leaf_preprocessing(inputs, output)
    ref, leaf = pc.simulate(inputs, output, sd, ssa, reduce_leaves=True)
    nodes = pc.ssa_nodes(ssa, n)

    def prod(ixs):
        p = 1
        for ix in ixs:
            p *= sd[ix]
        return p

    def where(k):
        s = ref[k]
        return f"step {k} {s['ids']} -> {sorted(nodes[k])}"

    with warnings.catch_warnings():
        warnings.simplefilter("ignore")
        # ---- (a) tree
        try:
            tree = ContractionTree.from_path(inputs, output, sd, ssa_path=ssa)
            for i in range(n):
                lf = frozenset([i])
                if set(tree.get_legs(lf)) != set(leaf[i]):
                    return f"tree: leaf {i} legs {sorted(tree.get_legs(lf))} != {sorted(leaf[i])}"
                if tree.get_size(lf) != prod(leaf[i]):
                    return f"tree: leaf {i} size {tree.get_size(lf)} != {prod(leaf[i])}"
            for k, s in enumerate(ref):
                nd = nodes[k]
                got = (set(tree.get_legs(nd)), set(tree.get_involved(nd)), tree.get_flops(nd), tree.get_size(nd))
                want = (set(s["legs"]), set(s["involved"]), s["flops"], s["size"])
                if got != want:
                    return f"tree: {where(k)}: (legs, involved, flops, size) = {_fmt(got)} != {_fmt(want)}"
            fires["tree step == rule"] = fires.get("tree step == rule", 0) + len(ref)
            tot = pc.totals(ref)
            if n > 1:
                st = tree.contract_stats()
                if (st["flops"], st["write"], st["size"]) != (tot["flops"], tot["write"], tot["size"]):
                    return f"tree: contract_stats {st} != sums of the steps {tot}"
                if tree.total_flops() != tot["flops"]:
                    return f"tree: total_flops {tree.total_flops()} != {tot['flops']}"
        except Exception as e:  # noqa: BLE001
            return f"tree: raised {type(e).__name__}: {str(e)[:100]}"
        # ---- (d) annealing rule, chained on its own output
        try:
            cur = {i: dict(leaf[i]) for i in range(n)}
            nxt = n
            k = 0
            for con in ssa:
                la, lb = cur.pop(con[0]), cur.pop(con[1])
                legs, cost, size = compute_contracted_info(la, lb, app, sd)
                s = ref[k]
                if (set(legs), cost, size) != (set(s["legs"]), s["flops"], s["size"]):
                    return (f"compute_contracted_info: {where(k)}: (legs, cost, size) = "
                            f"{_fmt((set(legs), cost, size))} != {_fmt((set(s['legs']), s['flops'], s['size']))}")
                if dict(legs) != s["legs"]:
                    return f"compute_contracted_info: {where(k)}: leg counts {dict(legs)} != {s['legs']}"
                cur[nxt] = legs
                nxt += 1
                k += 1
            fires["compute_contracted_info == rule"] = fires.get("compute_contracted_info == rule", 0) + len(ref)
        except Exception as e:  # noqa: BLE001
            return f"compute_contracted_info: raised {type(e).__name__}: {str(e)[:100]}"
        # ---- (b) processor
        if plain:
            try:
                cp = ContractionProcessor(inputs, output, sd, track_flops=True)
                inv = {v: k_ for k_, v in cp.indmap.items()}
                ids = {i: i for i in range(n)}
                nxt = n
                for i in range(n):
                    if {inv[ix] for ix, _ in cp.nodes[i]} != set(leaf[i]):
                        return f"processor: leaf {i} legs differ"
                for k, con in enumerate(ssa):
                    i, j = ids.pop(con[0]), ids.pop(con[1])
                    fl = compute_flops(cp.nodes[i], cp.nodes[j], cp.sizes)
                    new = cp.contract_nodes(i, j)
                    ids[nxt] = new
                    nxt += 1
                    legs = cp.nodes[new]
                    got = ({inv[ix] for ix, _ in legs}, fl, compute_size(legs, cp.sizes))
                    s = ref[k]
                    want = (set(s["legs"]), s["flops"], s["size"])
                    if got != want:
                        return f"processor: {where(k)}: (legs, flops, size) = {_fmt(got)} != {_fmt(want)}"
                    if {inv[ix]: c for ix, c in legs} != s["legs"]:
                        return f"processor: {where(k)}: leg counts {dict((inv[ix], c) for ix, c in legs)} != {s['legs']}"
                if cp.flops != sum(s["flops"] for s in ref):
                    return f"processor: tracked flops {cp.flops} != sum of the steps {sum(s['flops'] for s in ref)}"
                if [tuple(c) for c in cp.ssa_path] != [tuple(c) for c in ssa]:
                    return f"processor: recorded ssa_path {cp.ssa_path} != replayed path {list(ssa)}"
                fires["processor step == rule"] = fires.get("processor step == rule", 0) + len(ref)
            except Exception as e:  # noqa: BLE001
                return f"processor: raised {type(e).__name__}: {str(e)[:100]}"
        # ---- (c) hypergraph
        if ordinary:
            try:
                raw, rleaf = pc.simulate(inputs, output, sd, ssa, reduce_leaves=False)
                hg = HyperGraph(inputs, output, sd)
                ids = {i: i for i in range(n)}
                nxt = n
                for i in range(n):
                    if hg.node_size(i) != prod(rleaf[i]):
                        return f"hypergraph: leaf {i} node_size {hg.node_size(i)} != {prod(rleaf[i])}"
                for k, con in enumerate(ssa):
                    i, j = ids.pop(con[0]), ids.pop(con[1])
                    s = raw[k]
                    pre = (
                        hg.contract_pair_cost(i, j), set(hg.compute_contracted_inds((i, j))),
                        hg.candidate_contraction_size(i, j), hg.candidate_contraction_size(i, j, chi=HUGE),
                    )
                    want = (s["flops"], set(s["legs"]), s["size"], s["size"])
                    if pre != want:
                        return (f"hypergraph: {where(k)}: (contract_pair_cost, compute_contracted_inds, candidate_contraction_size, "
                                f"candidate_contraction_size(chi=huge)) = {_fmt(pre)} != {_fmt(want)}")
                    new = hg.contract(i, j)
                    ids[nxt] = new
                    nxt += 1
                    got = (set(hg.get_node(new)), hg.node_size(new))
                    if got != (set(s["legs"]), s["size"]) or len(hg.get_node(new)) != len(s["legs"]):
                        return f"hypergraph: {where(k)}: contract gives (inds, node_size) = {_fmt(got)} != {_fmt((set(s['legs']), s['size']))}"
                fires["hypergraph step == rule"] = fires.get("hypergraph step == rule", 0) + len(raw)
            except Exception as e:  # noqa: BLE001
                return f"hypergraph: raised {type(e).__name__}: {str(e)[:100]}"
    return None


def _fmt(t):
    return "(" + ", ".join("".join(sorted(map(str, x))) or "{}" if isinstance(x, (set, frozenset)) else str(x) for x in t) + ")"


# --------------------------------------------------------------------------
# reported costs
# --------------------------------------------------------------------------
def _close(a, b, rel=1e-9):
    return abs(a - b) <= rel * max(1.0, abs(a), abs(b))


def my_flops_of_path(inputs, output, sd, ssa):
    steps, _ = pc.simulate(inputs, output, sd, ssa, reduce_leaves=True)
    return sum(s["flops"] for s in steps)


def sliced_network(inputs, output, sd, sliced):
    sl = set(sliced)
    ins = tuple(tuple(ix for ix in t if ix not in sl) for t in inputs)
    out = tuple(ix for ix in output if ix not in sl)
    mult = 1
    for ix in sl:
        mult *= sd[ix]
    return ins, out, mult


def my_score(inputs, output, sd, lin_path, sliced, minimize):
    """Score of the (sliced) tree of a linear path, from my own step rule and
    the documented objective formulas."""
    n = len(inputs)
    ssa = pc.my_linear_to_ssa(lin_path, n)
    ins, out, mult = sliced_network(inputs, output, sd, sliced)
    steps, leaf = pc.simulate(ins, out, sd, ssa, reduce_leaves=True)
    tot = pc.totals(steps)
    F, W = mult * tot["flops"], mult * tot["write"]
    S = tot["size"]
    if S is None:
        return None
    lg = lambda x: math.log2(x) if x > 0 else 0.0  # noqa: E731
    name, _, k = minimize.partition("-")
    if name == "flops":
        return lg(F) + 1e-3 * lg(W) + 1e-3 * math.log2(S)
    if name == "write":
        return 1e-3 * lg(F) + lg(W) + 1e-3 * math.log2(S)
    if name == "size":
        return 1e-3 * lg(F) + 1e-3 * lg(W) + math.log2(S)
    if name == "combo":
        k = float(k) if k else 64
        return lg(F + k * W)
    return None


def check_reported(inputs, output, sd, how):
    """None or message."""
    import cotengra as ctg
    from cotengra import ContractionTree

    n = len(inputs)
    pc.seed_all(how.get("seed", 0))
    with warnings.catch_warnings():
        warnings.simplefilter("ignore")
        try:
            if how["kind"] == "random-greedy":
                opt = ctg.RandomGreedyOptimizer(max_repeats=how["repeats"], seed=how["seed"], parallel=False)
                if how.get("api") == "call":
                    lin = opt(inputs, output, sd)
                    msg = pc.check_linear_path(lin, n)
                    if msg:
                        return f"returned path {lin}: {msg}"
                    tree = ContractionTree.from_path(inputs, output, sd, path=lin)
                else:
                    tree = opt.search(inputs, output, sd)
                F = tree.total_flops()
                mine = my_flops_of_path(inputs, output, sd, opt.best_ssa_path)
                if F != mine:
                    return f"tree.total_flops() = {F} but the steps of best_ssa_path {opt.best_ssa_path} cost {mine}"
                if F == 0:
                    return None
                rep = 10 ** opt.best_flops
                if not _close(rep, F) or (F < 10**12 and round(rep) != F):
                    return f"10**best_flops = {rep:.6f} but the returned path's tree has total_flops() = {F}"
                return None
            if how["kind"] == "reusable-random-greedy":
                opt = ctg.ReusableRandomGreedyOptimizer(max_repeats=how["repeats"], seed=how["seed"], parallel=False)
                tree = opt.search(inputs, output, sd)
                h, missing = opt.hash_query(inputs, output, sd)
                if missing:
                    return "nothing stored in the cache after search"
                con = opt._cache[h]
                rebuilt = ContractionTree.from_path(inputs, output, sd, path=con["path"])
                F = rebuilt.total_flops()
                mine = my_flops_of_path(inputs, output, sd, pc.my_linear_to_ssa(con["path"], n))
                if F != mine:
                    return f"rebuilt tree total_flops {F} != my cost of the stored path {mine}"
                if tree.total_flops() != F:
                    return f"returned tree has flops {tree.total_flops()} but the stored path {con['path']} costs {F}"
                if F > 0 and not _close(con["score"], math.log10(F)):
                    return f"stored score {con['score']} but log10(flops of the stored path {con['path']}) = {math.log10(F)}"
                tree2 = opt.search(inputs, output, sd)  # cache hit: rebuilt from the stored path
                if tree2.total_flops() != F:
                    return f"cache hit returns a tree with flops {tree2.total_flops()}, stored path costs {F}"
                return None
            if how["kind"] == "reusable-hyper":
                kw = dict(max_repeats=4, optlib="random", parallel=False, methods=how["methods"], minimize=how["minimize"],
                          on_trial_error="raise", seed=how["seed"])
                if how.get("slicing"):
                    kw["slicing_opts"] = dict(how["slicing"])
                opt = ctg.ReusableHyperOptimizer(**kw)
                try:
                    tree = opt.search(inputs, output, sd)
                except Exception as e:  # noqa: BLE001
                    if how.get("slicing"):
                        return None  # slicing can be impossible for the network (documented): not applicable
                    return f"search raised {type(e).__name__}: {str(e)[:100]}"
                h, missing = opt.hash_query(inputs, output, sd)
                if missing:
                    return "nothing stored in the cache after search"
                con = opt._cache[h]
                rebuilt = ContractionTree.from_path(inputs, output, sd, path=con["path"], objective=how["minimize"])
                for ix in con["sliced_inds"]:
                    rebuilt.remove_ind_(ix)
                sc = rebuilt.get_score()
                if not _close(con["score"], sc):
                    return (f"stored score {con['score']!r} but the tree rebuilt from the stored path {con['path']} "
                            f"(sliced {list(con['sliced_inds'])}) scores {sc!r}")
                mine = my_score(inputs, output, sd, con["path"], con["sliced_inds"], how["minimize"])
                if mine is not None and not _close(con["score"], mine):
                    return (f"stored score {con['score']!r} but the stored path {con['path']} (sliced {list(con['sliced_inds'])}) "
                            f"scores {mine!r} by the step rule")
                if not _close(tree.get_score(), con["score"]):
                    return f"returned tree scores {tree.get_score()!r}, stored score {con['score']!r}"
                tree2 = opt.search(inputs, output, sd)
                if not _close(tree2.get_score(), con["score"]):
                    return f"cache hit returns a tree scoring {tree2.get_score()!r}, stored score {con['score']!r}"
                return None
        except Exception as e:  # noqa: BLE001
            return f"raised {type(e).__name__}: {str(e)[:100]}"
    raise ValueError(how["kind"])


def how_label(how):
    k = how["kind"]
    if k == "random-greedy":
        return f"RandomGreedyOptimizer(max_repeats={how['repeats']}, seed={how['seed']}).{'__call__' if how.get('api') == 'call' else 'search'}"
    if k == "reusable-random-greedy":
        return f"ReusableRandomGreedyOptimizer(max_repeats={how['repeats']}, seed={how['seed']})"
    return (f"ReusableHyperOptimizer(methods={how['methods']}, minimize={how['minimize']!r}, max_repeats=4, optlib='random', "
            f"seed={how['seed']}" + (f", slicing_opts={how['slicing']}" if how.get("slicing") else "") + ")")


def replay(case):
    inputs, output, sd = pc.net_from_case(case)
    if case["family"] == "sim":
        msg = _guarded(check_simulators, inputs, output, sd, tuple(tuple(c) for c in case["ssa"]))
        lab = f"simulators on {pc.eq_str(inputs, output)} path {case['ssa']}"
    else:
        msg = _guarded(check_reported, inputs, output, sd, case["how"])
        lab = f"{how_label(case['how'])} on {pc.eq_str(inputs, output)}"
    return (msg is None), lab + ": " + (msg or "agree")


# --------------------------------------------------------------------------
# worker
# --------------------------------------------------------------------------
def _work(item):
    name, idx, inputs, output, plan = item
    if (_DEADLINE is not None and time.time() > _DEADLINE) or pc.too_many_timeouts():
        return {"skipped": 1, "name": name}
    rng = random.Random(f"{seed()}|C18|{name}|{idx}")
    n = len(inputs)
    eq = pc.eq_str(inputs, output)
    feats = scope.features(inputs, output)
    where = {}
    for i, t in enumerate(inputs):
        for ix in set(t):
            where.setdefault(ix, set()).add(i)
    on_all = n >= 2 and any(len(ts) == n for ts in where.values())
    featured = bool(feats & {"repeated", "scalar", "hyper", "single-tensor-index", "disconnected"}) or on_all
    nontrivial = n >= 3 or (n == 2 and featured)
    sd = scope.size_dict_primes(inputs, output, offset=idx % 3)
    keys, viols, samples = [], [], []
    fires = {}
    extra = {}
    n_eval = 0
    # ---- simulators
    if n >= 2 and plan["trees"]:
        if plan["trees"] == "all":
            trees = list(scope.all_trees(n))
        else:
            trees = sorted({scope.random_tree_ssa(n, rng) for _ in range(plan["trees"])})
        for ssa in trees:
            if pc.too_many_timeouts():
                break
            msg = _guarded(check_simulators, inputs, output, sd, ssa, fires)
            n_eval += 1
            if nontrivial:
                keys.append(pc.digest(f"sim|{eq}|{ssa}"))
            if msg is not None and len(viols) < 3:
                case = pc.net_case(inputs, output, sd)
                case.update({"family": "sim", "ssa": pc.path_json(ssa)})
                viols.append((f"C18 simulators on {eq} sizes {pc.sizes_str(sd)} path {list(ssa)}: {msg}", case))
            elif msg is None and idx % 97 == 3 and not samples and featured and n >= 3:
                case = pc.net_case(inputs, output, sd)
                case.update({"family": "sim", "ssa": pc.path_json(ssa)})
                samples.append(case)
    # ---- reported costs
    hows = []
    if plan.get("reported", 0) and n >= 1:
        s = rng.randrange(1 << 30)
        hows.append({"kind": "random-greedy", "repeats": rng.choice((1, 4, 8)), "seed": s, "api": rng.choice(("search", "search", "call"))})
        if plan["reported"] >= 2:
            hows.append({"kind": "reusable-random-greedy", "repeats": 4, "seed": s})
            mins = ("flops", "write", "size", "combo", "combo-256")
            hows.append({"kind": "reusable-hyper", "methods": [rng.choice(("greedy", "random-greedy", "labels", "random"))],
                         "minimize": mins[idx % len(mins)], "seed": s})
        if plan["reported"] >= 3 and n >= 2:
            hows.append({"kind": "reusable-hyper", "methods": ["greedy"], "minimize": rng.choice(("flops", "combo", "size")),
                         "seed": s, "slicing": {"target_slices": 2}})
    for how in hows:
        if pc.too_many_timeouts():
            break
        msg = _guarded(check_reported, inputs, output, sd, how)
        n_eval += 1
        fires["reported cost == cost of returned path (" + how["kind"] + ")"] = fires.get(
            "reported cost == cost of returned path (" + how["kind"] + ")", 0) + 1
        if nontrivial:
            keys.append(pc.digest(f"rep|{eq}|{how['kind']}|{how.get('minimize')}|{bool(how.get('slicing'))}"))
        if msg is not None and len(viols) < 4:
            case = pc.net_case(inputs, output, sd)
            case.update({"family": "reported", "how": how})
            viols.append((f"C18 {how_label(how)} on {eq} sizes {pc.sizes_str(sd)}: {msg}", case))
    if on_all:
        extra["networks_with_an_index_on_every_tensor"] = 1
    return {"name": name, "n": n_eval, "keys": b"".join(keys), "viols": viols, "samples": samples, "fires": fires, "extra": extra}


def batch_networks(count, rng):
    """Networks with an index on every tensor (the simplify_batch case)."""
    out = []
    for _ in range(count):
        n = rng.randint(2, 6)
        (net,) = scope.sample_networks(n, 4, 2, 1, rng, outputs="none")
        ins, _ = net
        b = "z"
        ins = tuple(t + (b,) if (i % 2 or b not in t) else t for i, t in enumerate(ins))
        used = sorted({s for t in ins for s in t})
        o = tuple(rng.sample(used, rng.randint(0, min(2, len(used)))))
        out.append((ins, o))
    return out


def _plans(tier, rng):
    out = []
    q = tier == "quick"
    out.append(("Net(1,3,3) complete (reported costs only)", list(scope.networks(1, 3, 3)), True,
                {"trees": 0, "reported": 2}, "1-tensor networks"))
    out.append(("Net(2,3,3) complete x the only tree + reported costs", list(scope.networks(2, 3, 3, outputs="sets")), True,
                {"trees": "all", "reported": 3}, "one output order per output set (costs do not depend on the output order)"))
    out.append(("Net(3,3,2) complete x all 3 trees + reported costs", list(scope.networks(3, 3, 2)), True,
                {"trees": "all", "reported": 3}, "all 4106 networks (every output order)"))
    out.append(("Net(3,3,3) sample x all 3 trees", scope.sample_networks(3, 3, 3, 6000 if q else 120000, rng), False,
                {"trees": "all", "reported": 1}, "seeded sample of 152423"))
    out.append(("Net(4,4,2) sample x all 15 trees + reported costs", scope.sample_networks(4, 4, 2, 4000 if q else 80000, rng), False,
                {"trees": "all", "reported": 3}, "seeded sample of 318811"))
    out.append(("Net(5,5,3) sample x all 105 trees", scope.sample_networks(5, 5, 3, 500 if q else 12000, rng), False,
                {"trees": "all", "reported": 2}, "seeded sample"))
    out.append(("Net(6..8,6,3) sample x 40 random trees + reported costs",
                [scope.sample_networks(rng.randint(6, 8), 6, 3, 1, rng)[0] for _ in range(900 if q else 25000)], False,
                {"trees": 40, "reported": 3}, "seeded sample"))
    out.append(("networks with an index on every tensor (2-6 tensors) x <= 15 trees + reported costs", batch_networks(1500 if q else 40000, rng), False,
                {"trees": 15, "reported": 3}, "seeded sample; the simplify_batch case of the reported-flops claim"))
    return out


def run_bounded(rep: Report, tier: str) -> None:
    global _DEADLINE
    rng = random.Random(f"{seed()}|C18|plans")
    _DEADLINE = deadline(tier, 300, 30 * 60)  # safety net only
    rep.rule = (
        "simulator case = (network with distinct prime sizes, binary tree as SSA path): one evaluation replays the path through every "
        "simulator that supports the network and compares index sets, sizes and flops of every step with the step rule. Reported-cost "
        "case = (network, optimizer configuration). Non-trivial iff the network has >= 3 tensors, or 2 tensors and a feature on which "
        "the re-implementations could diverge (hyper index, index on every tensor, repeated index, single-tensor index, scalar, "
        "disconnected); distinct = distinct (network, tree) resp. (network, optimizer kind, objective)."
    )
    rep.explanation += (
        "C18 bounded: (a) tree and (d) compute_contracted_info on every network; (b) ContractionProcessor (no simplify()) on networks "
        "without a leaf-simplifiable tensor; (c) HyperGraph on networks without a repeated index inside a tensor, against the rule "
        "without leaf pre-reduction. Reported costs: 10**RandomGreedyOptimizer(parallel=False).best_flops == tree.total_flops() == my "
        "cost of best_ssa_path (zero-flop cases skipped), ReusableRandomGreedyOptimizer / ReusableHyperOptimizer(max_repeats=4, "
        "optlib='random', parallel=False) stored con['score'] == score of the tree rebuilt from con['path'] (+ sliced_inds) == my own "
        "evaluation of the documented objective formula, also after a cache hit. "
    )
    rep.assumptions.append("with slicing_opts, a search that raises (network cannot be sliced) is treated as not applicable")
    agg = pc.Agg(rep, MODULE)
    items = []
    for name, nets, exh, plan, bound in _plans(tier, rng):
        nets = list(nets)
        agg.declare(name, len(nets), exh, bound + f"; {len(nets)} networks")
        for idx, (i, o) in enumerate(nets):
            items.append((name, idx, i, o, plan))
    items.sort(key=lambda it: len(it[2]))  # small networks first: the smallest failing input is found before any time limit
    for status, r in pmap(_work, items, chunk=8):
        agg.add(status, r, "C18")
    agg.finish()
