"""C19 driver (see DESIGN.md section 3, C19)."""
from .generic import run_property, replay_property


def run(tier):
    return run_property("C19", tier)


def replay(path):
    return replay_property("C19", path)
